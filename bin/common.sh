# sourced by bin/check, bin/setup
export VERIF_ROOT="${VERIF_ROOT:-/verif}"
export VERIF_REPO="${VERIF_REPO:-/repo}"
export VERIF_BUILD="${VERIF_BUILD:-$VERIF_ROOT/build}"
REPO_LIB_TARGETS="bitcoin_node bitcoin_wallet bitcoin_common bitcoin_consensus bitcoin_util bitcoin_crypto bitcoin_cli bitcoin_clientversion test_util leveldb crc32c minisketch secp256k1 univalue"
export CARGO_NET_OFFLINE=true GOPROXY=off PIP_NO_INDEX=1

configure_repo_build() {
  if [ ! -f "$VERIF_BUILD/repo/build.ninja" ]; then
    mkdir -p "$VERIF_BUILD/repo"
    cmake -G Ninja -S "$VERIF_REPO" -B "$VERIF_BUILD/repo" -DBUILD_TESTS=ON -DBUILD_GUI=OFF -DBUILD_BENCH=OFF \
      -DBUILD_FUZZ_BINARY=OFF -DENABLE_IPC=OFF -DENABLE_WALLET=ON -DWITH_CCACHE=ON -DWITH_ZMQ=OFF -DBUILD_DAEMON=OFF \
      -DBUILD_CLI=OFF -DBUILD_TX=OFF -DBUILD_UTIL=OFF -DBUILD_WALLET_TOOL=OFF -DBUILD_BITCOIN_BIN=OFF \
      -DCMAKE_BUILD_TYPE=Release "-DCMAKE_CXX_FLAGS=-O1 -g0" "-DCMAKE_C_FLAGS=-O2 -g0" > "$VERIF_BUILD/cfg.log" 2>&1 || {
        echo "HARNESS-ERROR cmake configure failed (see $VERIF_BUILD/cfg.log)"; tail -20 "$VERIF_BUILD/cfg.log"; return 2; }
  fi
}
# Rebuild the repo's static libraries from the current working tree (incremental). Serialised by a lock.
build_repo_libs() {
  mkdir -p "$VERIF_BUILD"
  (
    flock 9
    configure_repo_build || exit 2
    if ! ninja -C "$VERIF_BUILD/repo" $REPO_LIB_TARGETS > "$VERIF_BUILD/ninja.log" 2>&1; then
      echo "HARNESS-ERROR repo libraries failed to build (see $VERIF_BUILD/ninja.log)"; tail -30 "$VERIF_BUILD/ninja.log"; exit 2
    fi
  ) 9> "$VERIF_BUILD/.build.lock"
}
build_harness() { # $1 = id
  local id="$1"
  (
    flock 7
    make -s -f "$VERIF_ROOT/vx/harness.mk" ID="$id" VERIF="$VERIF_ROOT" REPO="$VERIF_REPO" BUILD="$VERIF_BUILD" kits > "$VERIF_BUILD/make_$id.log" 2>&1
    flock -u 7
    flock 8
    if ! make -s -f "$VERIF_ROOT/vx/harness.mk" ID="$id" VERIF="$VERIF_ROOT" REPO="$VERIF_REPO" BUILD="$VERIF_BUILD" >> "$VERIF_BUILD/make_$id.log" 2>&1; then
      echo "HARNESS-ERROR harness $id failed to build (see $VERIF_BUILD/make_$id.log)"; grep -E "error|undefined" "$VERIF_BUILD/make_$id.log" | head -20; exit 2
    fi
  ) 8> "$VERIF_BUILD/.harness_$id.lock" 7> "$VERIF_BUILD/.kits.lock"
}
