"""Python side of the framework: evidence + violation reporting with the same contract as vx.h.

Usage in checks/<ID>/check.py:
    import sys; sys.path.insert(0, '/verif'); from vx.vxpy import *
    run = Run('C48', 'exploration')           # parses --tier/--replay, VERIF_SEED, starts the clock
    ... for each case: run.evaluations += 1 ; run.distinct.add(key) ; run.violation(key, what, replay_text)
    sys.exit(run.finish(rule='...', exhaustive=True))
The vendored reference implementations are importable as `test_framework.*` (from /verif/ref).
"""
import json, os, sys, time, subprocess

ROOT = os.environ.get('VERIF_ROOT', '/verif')
OUT = os.environ.get('VERIF_OUT', ROOT)
sys.path.insert(0, os.path.join(ROOT, 'ref'))


class Run:
    def __init__(self, pid, level, quick_deadline_s=150, thorough_deadline_s=1500):
        self.pid, self.level = pid, level
        self.tier = os.environ.get('VERIF_TIER', 'quick')
        self.replay = None
        a = sys.argv[1:]
        self.args = []
        i = 0
        while i < len(a):
            if a[i] == '--tier' and i + 1 < len(a): self.tier = a[i + 1]; i += 2
            elif a[i] == '--replay' and i + 1 < len(a): self.replay = a[i + 1]; i += 2
            else: self.args.append(a[i]); i += 1
        if self.tier not in ('quick', 'thorough'): self.tier = 'quick'
        self.seed = int(os.environ.get('VERIF_SEED', '0') or 0)
        self.t0 = time.time()
        self.deadline = float(os.environ.get('VERIF_DEADLINE_S', thorough_deadline_s if self.tier == 'thorough' else quick_deadline_s))
        self.evaluations = 0
        self.distinct = set()
        self.states = 0
        self.transitions = 0
        self.traces_validated = 0
        self.samples = []
        self.assumptions = []
        self.extra = {}
        self.violations = 0
        self.known = 0
        self._seen = set()
        self._known = []
        try:
            for line in open(os.path.join(ROOT, 'known_findings.txt')):
                if not line.startswith('known:'): continue
                parts = line[6:].split(None, 2)
                if len(parts) >= 2 and parts[0] == 'property=' + pid and parts[1].startswith('key='):
                    self._known.append(parts[1][4:])
        except FileNotFoundError:
            pass
        self.harness = os.environ.get('VERIF_HARNESS', os.path.join(ROOT, 'build', 'checks', pid, 'harness'))

    @property
    def thorough(self): return self.tier == 'thorough'
    def elapsed(self): return time.time() - self.t0
    def deadline_reached(self): return self.elapsed() > self.deadline

    def sample(self, s, maxn=12):
        if len(self.samples) < maxn: self.samples.append(s)

    def violation(self, key, what, replay_text=''):
        if key in self._seen: return False
        self._seen.add(key)
        if key in self._known:
            self.known += 1
            print(f'KNOWN-FINDING: property={self.pid} {key} ({what})', flush=True)
            return False
        self.violations += 1
        if self.violations > 20: return True
        d = os.path.join(OUT, 'replays'); os.makedirs(d, exist_ok=True)
        path = os.path.join(d, f'{self.pid}_{self.tier}_{self.violations}.txt')
        with open(path, 'w') as f:
            f.write(f'# property={self.pid} tier={self.tier}\n# key={key}\n# {what}\n{replay_text}\n')
        print(f'VIOLATION property={self.pid} replay={path}', flush=True)
        print(f'  detail: {key} :: {what}', flush=True)
        return True

    def finish(self, rule, exhaustive=True):
        cov = {}
        mc = self.level == 'model_checking'
        if mc:
            cov.update(states=self.states, transitions=self.transitions, traces_validated_against_impl=self.traces_validated)
        nd = len(self.distinct) if not isinstance(self.distinct, int) else self.distinct
        if not mc or self.evaluations:
            cov.update(evaluations=self.evaluations, distinct_nontrivial=nd)
        cov.update(rule=rule, exhaustive=bool(exhaustive))
        cov.update(self.extra)
        cov['samples'] = self.samples or ['(no sample recorded)']
        ev = dict(property_id=self.pid, tier=self.tier, seed=self.seed, level=self.level, coverage=cov,
                  assumptions=self.assumptions, wall_s=round(self.elapsed(), 3), violations=self.violations, known_findings=self.known)
        if not self.replay:
            d = os.path.join(OUT, 'evidence'); os.makedirs(d, exist_ok=True)
            tmp = os.path.join(d, f'{self.pid}.json.tmp{os.getpid()}')
            json.dump(ev, open(tmp, 'w'), indent=1)
            os.replace(tmp, os.path.join(d, f'{self.pid}.json'))
            vac = (self.states < 1 or self.transitions < 1) if mc else (self.evaluations < 1 or nd < 2)
            if vac and not self.violations:
                print(f'HARNESS-ERROR property={self.pid} vacuous exploration (counts too small)')
                return 2
        print(f'[{self.pid} {self.tier}] {self.level} wall={self.elapsed():.1f}s exhaustive={exhaustive} violations={self.violations} known={self.known} evaluations={self.evaluations} distinct={nd} states={self.states} transitions={self.transitions}')
        return 1 if self.violations else 0

    def spawn(self, *args, **kw):
        """Start the C++ harness as a producer; returns Popen with stdout pipe (text lines)."""
        return subprocess.Popen([self.harness, '--tier', self.tier, *args], stdout=subprocess.PIPE, text=True, bufsize=1 << 20, **kw)
