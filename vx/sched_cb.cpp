// callbacks sched.c needs (one definition per executable)
#include <vx/sched.h>
extern "C" int vxs_choose(int n, int deviation, const char* label)
{
    vxs::Shm* s = vxs::shm();
    int i = s->len;
    if (i >= vxs::MAXC) vxs_fatal(4, "vx-sched: choice vector too long");
    int c = 0;
    if (i < s->prefix_len) {
        c = s->choice[i];
        if (c >= n) vxs_fatal(5, "vx-sched: replay divergence (choice out of range) - nondeterminism not owned by the harness");
    }
    int eff = n;
    if (deviation && s->devs >= s->max_dev && c == 0) eff = 1; // budget used up: no alternatives here
    if (deviation && c != 0) s->devs++;
    s->choice[i] = (unsigned short)c;
    s->arity[i] = (unsigned short)eff;
    s->len = i + 1;
    return c;
}
extern "C" void vxs_fatal(int code, const char* what)
{
    vxs::Shm* s = vxs::shm();
    if (s) { s->fatal_code = code; snprintf(s->fatal_what, sizeof s->fatal_what, "%s", what); }
    _exit(code);
}
