// sched.h — C++ driver of VX-SCHED (see sched.c): enumerates every schedule of a multi-threaded harness body
// with at most `max_preempt` deviations (preemptions of a runnable thread, or timeouts firing while another
// thread could run), by stateless depth-first search over the scheduler's choice points.
//
// The search runs in a forked child that records every choice in shared memory; when an execution ends in a
// deadlock / livelock / crash the child dies, the parent records the violation (replay = the choice vector)
// and forks a new child that resumes with the next choice vector. Executions always run to completion.
#pragma once
#include <vx/vx.h>
#include <sys/mman.h>
#include <sys/wait.h>
#include <signal.h>

extern "C" {
void vxs_begin(long step_limit);
int vxs_end(void);
long vxs_steps(void);
void vxs_point(const char* label);
int vxs_managed(void);
void vxs_set_point_after_unlock(int v);
void vxs_set_free_switch(int v);
void vxs_scope_clear(void);
void vxs_scope_add(void* addr);
void vxs_set_timeout_hook(void (*f)(void));
int vxs_choose(int n, int deviation, const char* label);
void vxs_fatal(int code, const char* what);
}

namespace vxs {

constexpr int MAXC = 1 << 16;
struct Shm {
    // current execution (written as it runs)
    int len;
    int prefix_len;
    int devs;
    unsigned short choice[MAXC];
    unsigned short arity[MAXC];
    // committed prefix for the next execution
    int next_len;
    unsigned short next[MAXC];
    int done;                  // search finished
    uint64_t executions;
    uint64_t choice_points;
    uint64_t max_len;
    uint64_t oracle_failures;
    uint64_t distinct_outcomes_hash[64];
    int n_outcomes;
    int fatal_code;
    char fatal_what[512];
    char oracle_what[8][512];
    char oracle_trace[8][2048];
    char exec_fail[512];       // fork_each: failure text of the execution run in the grandchild
    uint64_t exec_outcome;     // fork_each: outcome hash computed in the grandchild (the body's globals live there)
    int n_oracle;
    int max_dev;
    int replay_mode;
};
inline Shm*& shm() { static Shm* s = nullptr; return s; }

struct Options {
    int max_preempt = 2;
    long step_limit = 200000;
    int max_violations = 3;
    bool fork_each = false;    // run every execution in its own forked process (body mutates long-lived state, e.g. a node)
    bool free_switch = true;   // false: picking a non-default thread at a blocking point / signal also costs a deviation
    double exec_timeout_s = 20; // wall limit for one child without progress → harness error, not a violation
};
struct Outcome {
    uint64_t executions = 0, choice_points = 0, max_len = 0;
    bool complete = true;
    int violations = 0;
    bool harness_error = false;
    int distinct_outcomes = 0;
};

inline std::string trace_str(const Shm* s, int upto = -1)
{
    std::string t;
    int n = upto < 0 ? s->len : upto;
    for (int i = 0; i < n; i++) { if (i) t += ' '; t += std::to_string(s->choice[i]); }
    return t;
}

// compute the next prefix (odometer step) from the recorded (possibly partial) trace. false = search done.
inline bool advance(Shm* s)
{
    int i = s->len - 1;
    while (i >= 0 && s->choice[i] + 1 >= s->arity[i]) i--;
    if (i < 0) return false;
    for (int k = 0; k < i; k++) s->next[k] = s->choice[k];
    s->next[i] = s->choice[i] + 1;
    s->next_len = i + 1;
    return true;
}

// body: runs one execution (creates fresh objects and threads, joins them) and returns "" or an oracle failure.
// Returns outcome; violations are reported through vx::violation with key_prefix.
inline Outcome explore(const std::string& key_prefix, const std::function<std::string()>& body, Options opt = {},
                       const std::function<uint64_t()>& outcome_hash = nullptr)
{
    Outcome out;
    Shm* s = (Shm*)mmap(nullptr, sizeof(Shm), PROT_READ | PROT_WRITE, MAP_SHARED | MAP_ANONYMOUS, -1, 0);
    if (s == MAP_FAILED) throw std::runtime_error("vxs: mmap failed");
    memset(s, 0, sizeof *s);
    shm() = s;
    s->max_dev = opt.max_preempt;
    vxs_set_free_switch(opt.free_switch ? 1 : 0);
    s->next_len = 0;
    bool have_replay = !vx::ctx().replay.empty();
    if (have_replay) {
        auto v = vx::parse_choices(vx::ctx().replay);
        for (size_t i = 0; i < v.size() && i < (size_t)MAXC; i++) s->next[i] = v[i];
        s->next_len = (int)v.size();
        s->replay_mode = 1;
    }
    // Warm-up: one default (non-preemptive) execution so that one-time initialisation (function-local statics,
    // call_once, lazily created globals) happens before the search; otherwise the first execution of every
    // child would have choice points later executions lack. Done in a throw-away child first: if even the
    // default schedule dies, that is reported instead of killing the driver.
    if (!opt.fork_each) {
        fflush(stdout);
        pid_t p = fork();
        if (p == 0) {
            s->prefix_len = 0; s->len = 0; s->devs = 0;
            vxs_begin(opt.step_limit);
            (void)body();
            vxs_end();
            _exit(0);
        }
        int st = 0;
        waitpid(p, &st, 0);
        if (WIFEXITED(st) && WEXITSTATUS(st) == 0) {
            s->prefix_len = 0; s->len = 0; s->devs = 0;
            vxs_begin(opt.step_limit);
            (void)body();
            vxs_end();
        }
        s->len = 0; s->fatal_code = 0;
    }
    while (!s->done) {
        fflush(stdout);
        pid_t p = fork();
        if (p < 0) throw std::runtime_error("vxs: fork failed");
        if (p == 0) {
            for (;;) {
                // set up the execution from the committed prefix
                s->prefix_len = s->next_len;
                for (int i = 0; i < s->next_len; i++) s->choice[i] = s->next[i];
                s->len = 0;
                s->devs = 0;
                std::string fail;
                if (opt.fork_each) {
                    s->exec_fail[0] = 0;
                    fflush(stdout);
                    pid_t g = fork();
                    if (g == 0) {
                        vxs_begin(opt.step_limit);
                        std::string f2 = body();
                        int left = vxs_end();
                        if (left) f2 = "vx-sched: " + std::to_string(left) + " thread(s) not joined at the end of the body";
                        snprintf(s->exec_fail, sizeof s->exec_fail, "%s", f2.c_str());
                        s->exec_outcome = outcome_hash ? outcome_hash() : 0;
                        _exit(0);
                    }
                    int gst = 0;
                    waitpid(g, &gst, 0);
                    if (WIFSIGNALED(gst)) { signal(WTERMSIG(gst), SIG_DFL); raise(WTERMSIG(gst)); _exit(99); }
                    if (WEXITSTATUS(gst) != 0) _exit(WEXITSTATUS(gst));
                    fail = s->exec_fail;
                } else {
                vxs_begin(opt.step_limit);
                fail = body();
                int left = vxs_end();
                if (left) fail = "vx-sched: " + std::to_string(left) + " thread(s) not joined at the end of the body";
                }
                if (s->len < s->prefix_len && fail.empty()) fail = "vx-sched: replay divergence (execution ended before the prefix was consumed)";
                s->executions++;
                if (getenv("VXS_DEBUG")) { std::string a; for (int i = 0; i < s->len; i++) a += std::to_string(s->choice[i]) + "/" + std::to_string(s->arity[i]) + " "; fprintf(stderr, "exec %llu len=%d prefix=%d devs=%d: %s\n", (unsigned long long)s->executions, s->len, s->prefix_len, s->devs, a.c_str()); }
                s->choice_points += s->len;
                if ((uint64_t)s->len > s->max_len) s->max_len = s->len;
                if (outcome_hash) {
                    uint64_t h = opt.fork_each ? s->exec_outcome : outcome_hash();
                    bool seen = false;
                    for (int i = 0; i < s->n_outcomes; i++) seen |= s->distinct_outcomes_hash[i] == h;
                    if (!seen && s->n_outcomes < 64) s->distinct_outcomes_hash[s->n_outcomes++] = h;
                }
                if (!fail.empty()) {
                    s->oracle_failures++;
                    if (s->n_oracle < 8) {
                        snprintf(s->oracle_what[s->n_oracle], 512, "%s", fail.c_str());
                        snprintf(s->oracle_trace[s->n_oracle], 2048, "%s", trace_str(s).c_str());
                        s->n_oracle++;
                    }
                }
                if (s->replay_mode || !advance(s) || (int)s->oracle_failures >= opt.max_violations) { s->done = 1; _exit(0); }
                if (vx::deadline_reached()) { s->done = 2; _exit(0); }
            }
        }
        // parent: wait, with a no-progress watchdog
        uint64_t last_exec = s->executions;
        int last_len = -1;
        double last_progress = vx::elapsed();
        int st = 0;
        for (;;) {
            pid_t r = waitpid(p, &st, WNOHANG);
            if (r == p) break;
            usleep(20000);
            if (s->executions != last_exec || s->len != last_len) { last_exec = s->executions; last_len = s->len; last_progress = vx::elapsed(); }
            if (vx::elapsed() - last_progress > opt.exec_timeout_s) {
                kill(p, SIGKILL);
                waitpid(p, &st, 0);
                printf("HARNESS-ERROR property=%s vx-sched: no progress for %.0fs in schedule [%s] (blocked outside the scheduler's model?)\n", vx::ctx().id.c_str(), opt.exec_timeout_s, trace_str(s).c_str());
                out.harness_error = true;
                s->done = 3;
                break;
            }
        }
        if (s->done) break;
        // the child died inside an execution: fatal verdict (deadlock/livelock) or a crash in the code under test
        std::string what;
        std::string key;
        if (WIFEXITED(st) && WEXITSTATUS(st) >= 3 && WEXITSTATUS(st) <= 4) {
            what = s->fatal_what;
            key = key_prefix + (WEXITSTATUS(st) == 3 ? "-deadlock" : "-livelock");
        } else if (WIFEXITED(st) && WEXITSTATUS(st) == 5) {
            printf("HARNESS-ERROR property=%s %s in schedule [%s]\n", vx::ctx().id.c_str(), s->fatal_what, trace_str(s).c_str());
            out.harness_error = true;
            break;
        } else {
            what = WIFSIGNALED(st) ? "process died with signal " + std::to_string(WTERMSIG(st)) + " (assert/abort/crash in the code under test)" : "process exited with status " + std::to_string(WEXITSTATUS(st));
            key = key_prefix + "-crash";
        }
        out.violations++;
        vx::violation(key, what + " under schedule [" + trace_str(s) + "]", trace_str(s));
        s->executions++;
        if (s->replay_mode || out.violations >= opt.max_violations || !advance(s)) break;
    }
    for (int i = 0; i < s->n_oracle; i++) {
        out.violations++;
        vx::violation(key_prefix + "-oracle", std::string(s->oracle_what[i]) + " under schedule [" + s->oracle_trace[i] + "]", s->oracle_trace[i]);
    }
    out.executions = s->executions;
    out.choice_points = s->choice_points;
    out.max_len = s->max_len;
    out.complete = s->done == 1 && out.violations == 0 && !out.harness_error;
    if (s->done == 2) out.complete = false;
    out.distinct_outcomes = s->n_outcomes;
    munmap(s, sizeof(Shm));
    shm() = nullptr;
    return out;
}

} // namespace vxs

