// tsanabi.c — a replacement for libtsan's runtime ABI, used with `g++ -fsanitize=thread` *compile-only*.
// gcc rewrites every std::atomic operation of an instrumented TU into __tsan_atomicN_op(addr, ..., order).
// Here each of them is: scheduling point; the operation (seq_cst); and — for modifying operations — a second
// scheduling point, so "atomic publish, then the plain write it should have guarded" is not one indivisible step.
// Plain-access hooks (__tsan_read/write/func_entry/...) are no-ops. Compiled WITHOUT instrumentation.
#include <stddef.h>
#include <stdint.h>
extern void vxs_point(const char* label);
typedef unsigned char a8;
typedef unsigned short a16;
typedef unsigned int a32;
typedef unsigned long long a64;
typedef unsigned __int128 a128;

#define PRE() vxs_point("atomic")
#define POST() vxs_point("atomic-done")
#define DEFN(N, T)                                                                                           \
    T __tsan_atomic##N##_load(const volatile T* a, int mo) { PRE(); return __atomic_load_n(a, __ATOMIC_SEQ_CST); } \
    void __tsan_atomic##N##_store(volatile T* a, T v, int mo) { PRE(); __atomic_store_n(a, v, __ATOMIC_SEQ_CST); POST(); } \
    T __tsan_atomic##N##_exchange(volatile T* a, T v, int mo) { PRE(); T r = __atomic_exchange_n(a, v, __ATOMIC_SEQ_CST); POST(); return r; } \
    T __tsan_atomic##N##_fetch_add(volatile T* a, T v, int mo) { PRE(); T r = __atomic_fetch_add(a, v, __ATOMIC_SEQ_CST); POST(); return r; } \
    T __tsan_atomic##N##_fetch_sub(volatile T* a, T v, int mo) { PRE(); T r = __atomic_fetch_sub(a, v, __ATOMIC_SEQ_CST); POST(); return r; } \
    T __tsan_atomic##N##_fetch_and(volatile T* a, T v, int mo) { PRE(); T r = __atomic_fetch_and(a, v, __ATOMIC_SEQ_CST); POST(); return r; } \
    T __tsan_atomic##N##_fetch_or(volatile T* a, T v, int mo) { PRE(); T r = __atomic_fetch_or(a, v, __ATOMIC_SEQ_CST); POST(); return r; } \
    T __tsan_atomic##N##_fetch_xor(volatile T* a, T v, int mo) { PRE(); T r = __atomic_fetch_xor(a, v, __ATOMIC_SEQ_CST); POST(); return r; } \
    T __tsan_atomic##N##_fetch_nand(volatile T* a, T v, int mo) { PRE(); T r = __atomic_fetch_nand(a, v, __ATOMIC_SEQ_CST); POST(); return r; } \
    int __tsan_atomic##N##_compare_exchange_strong(volatile T* a, T* c, T v, int mo, int fmo)                 \
    { PRE(); int r = __atomic_compare_exchange_n(a, c, v, 0, __ATOMIC_SEQ_CST, __ATOMIC_SEQ_CST); POST(); return r; } \
    int __tsan_atomic##N##_compare_exchange_weak(volatile T* a, T* c, T v, int mo, int fmo)                   \
    { PRE(); int r = __atomic_compare_exchange_n(a, c, v, 0, __ATOMIC_SEQ_CST, __ATOMIC_SEQ_CST); POST(); return r; } \
    T __tsan_atomic##N##_compare_exchange_val(volatile T* a, T c, T v, int mo, int fmo)                       \
    { PRE(); __atomic_compare_exchange_n(a, &c, v, 0, __ATOMIC_SEQ_CST, __ATOMIC_SEQ_CST); POST(); return c; }
DEFN(8, a8)
DEFN(16, a16)
DEFN(32, a32)
DEFN(64, a64)
void __tsan_atomic_thread_fence(int mo) { PRE(); __atomic_thread_fence(__ATOMIC_SEQ_CST); }
void __tsan_atomic_signal_fence(int mo) {}

#define NOP1(name) void name(void* a) {}
NOP1(__tsan_read1) NOP1(__tsan_read2) NOP1(__tsan_read4) NOP1(__tsan_read8) NOP1(__tsan_read16)
NOP1(__tsan_write1) NOP1(__tsan_write2) NOP1(__tsan_write4) NOP1(__tsan_write8) NOP1(__tsan_write16)
NOP1(__tsan_unaligned_read2) NOP1(__tsan_unaligned_read4) NOP1(__tsan_unaligned_read8) NOP1(__tsan_unaligned_read16)
NOP1(__tsan_unaligned_write2) NOP1(__tsan_unaligned_write4) NOP1(__tsan_unaligned_write8) NOP1(__tsan_unaligned_write16)
NOP1(__tsan_vptr_read) NOP1(__tsan_func_entry)
void __tsan_vptr_update(void** vptr, void* val) {}
void __tsan_func_exit(void) {}
void __tsan_init(void) {}
void __tsan_read_range(void* a, size_t n) {}
void __tsan_write_range(void* a, size_t n) {}
void __tsan_ignore_thread_begin(void) {}
void __tsan_ignore_thread_end(void) {}
void __tsan_acquire(void* a) {}
void __tsan_release(void* a) {}
