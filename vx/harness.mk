# Generic harness build: make -f vx/harness.mk ID=C15 [REPO=/repo] [BUILD=/verif/build]
# checks/$(ID)/*.cpp -> $(BUILD)/checks/$(ID)/harness, linked against the private build of $(REPO).
VERIF ?= /verif
REPO  ?= /repo
BUILD ?= $(VERIF)/build
RB    := $(BUILD)/repo
SRC   := $(VERIF)/checks/$(ID)
OUT   ?= $(BUILD)/checks/$(ID)

# per-check knobs (checks/<ID>/build.mk may set): LINK=full|small|none, KITS=chainkit ..., CXXEXTRA, LDEXTRA, NOACCESS=1
LINK ?= full
KITS ?=
CXXEXTRA ?=
LDEXTRA ?=
NOACCESS ?= 1
# VX-SCHED: SCHED := 1 links the scheduler + tsan-ABI shim; TSAN_SRCS := coins.cpp node/miner.cpp ... compiles those
# repo sources with -fsanitize=thread (atomics become scheduling points) and links them in front of the archives
SCHED ?= 0
# VX-CRASH: CRASH := 1 links the libc-level write recorder (vx/crashrec.c)
CRASH ?= 0
TSAN_SRCS ?=
# mutant builds (bin/mutant-test): SHADOW=<dir> holds mutated copies under <dir>/src shadowing $(REPO)/src;
# MUT_SRCS = repo sources to recompile against the shadow and link in front of the archives
SHADOW ?=
MUT_SRCS ?=
# AUX_TSAN := aux/file.cpp builds a second binary $(OUT)/aux_tsan from that source + TSAN_SRCS with the REAL
# ThreadSanitizer runtime (free-running auxiliary race pass; no scheduler, no ABI shim)
AUX_TSAN ?=
# INCLUDED_SRCS := net_processing.cpp : repo sources that a harness TU #includes as a whole (to reach file-local classes);
# they are never compiled separately for a mutant build (the harness TU picks the shadow copy up through the include path)
INCLUDED_SRCS ?=
-include $(SRC)/build.mk

CXX := g++
INCS := $(if $(SHADOW),-I$(SHADOW)/src) -I$(VERIF) -I$(RB)/src -I$(REPO)/src -I$(REPO)/src/univalue/include -I$(REPO)/src/minisketch/include \
        -I$(REPO)/src/secp256k1/include -I$(REPO)/src/leveldb/include
CXXFLAGS := -O1 -g0 -std=c++20 -fno-extended-identifiers -fstack-reuse=none -pthread \
            -DBOOST_MULTI_INDEX_DISABLE_SERIALIZATION -DBOOST_NO_CXX98_FUNCTION_BASE -DVERIF_HARNESS \
            -Wno-deprecated-declarations $(INCS) $(CXXEXTRA)
REPOCXXFLAGS := $(CXXFLAGS)
ifeq ($(NOACCESS),1)
CXXFLAGS += -fno-access-control
endif

L := $(RB)/lib
LIBS_full := $(L)/libtest_util.a $(L)/libbitcoin_cli.a $(L)/libbitcoin_node.a $(L)/libbitcoin_consensus.a \
   $(RB)/src/libminisketch.a $(RB)/src/secp256k1/lib/libsecp256k1.a $(L)/libbitcoin_wallet.a \
   $(RB)/src/libleveldb.a $(RB)/src/libcrc32c.a $(L)/libbitcoin_common.a $(L)/libbitcoin_consensus.a \
   $(RB)/src/secp256k1/lib/libsecp256k1.a $(L)/libbitcoin_util.a $(L)/libbitcoin_crypto.a \
   $(L)/libbitcoin_clientversion.a $(RB)/src/univalue/libunivalue.a
LIBS_small := $(L)/libbitcoin_common.a $(L)/libbitcoin_consensus.a $(RB)/src/secp256k1/lib/libsecp256k1.a \
   $(L)/libbitcoin_util.a $(L)/libbitcoin_crypto.a $(L)/libbitcoin_clientversion.a $(RB)/src/univalue/libunivalue.a
LIBS_none :=
LIBS := $(LIBS_$(LINK))
SYSLIBS_full := -lsqlite3
SYSLIBS_small :=
SYSLIBS := $(SYSLIBS_$(LINK)) -lpthread -ldl

SRCS := $(wildcard $(SRC)/*.cpp)
OBJS := $(patsubst $(SRC)/%.cpp,$(OUT)/%.o,$(SRCS))
ifneq ($(LINK),none)
KITS += glue
endif
KITDIR := $(if $(SHADOW),$(OUT)/kits,$(BUILD)/kits)
KITOBJS := $(patsubst %,$(KITDIR)/%.o,$(sort $(KITS)))
MUTOBJS := $(patsubst %.cpp,$(OUT)/mut/%.o,$(filter-out $(INCLUDED_SRCS),$(MUT_SRCS)))
ifeq ($(SCHED),1)
SCHEDOBJS := $(BUILD)/vx/sched.o $(BUILD)/vx/tsanabi.o $(BUILD)/vx/sched_cb.o
endif
ifeq ($(CRASH),1)
SCHEDOBJS += $(BUILD)/vx/crashrec.o
endif
TSANOBJS := $(patsubst %.cpp,$(OUT)/tsan/%.o,$(TSAN_SRCS))

AUXBIN := $(if $(AUX_TSAN),$(OUT)/aux_tsan)
all: $(OUT)/harness $(AUXBIN)
kits: $(KITOBJS) $(SCHEDOBJS)

$(OUT)/%.o: $(SRC)/%.cpp
	@mkdir -p $(OUT)
	$(CXX) $(CXXFLAGS) -MMD -MP -c $< -o $@

$(KITDIR)/%.o: $(VERIF)/kits/%.cpp
	@mkdir -p $(KITDIR)
	$(CXX) $(CXXFLAGS) -MMD -MP -c $< -o $@

$(BUILD)/vx/%.o: $(VERIF)/vx/%.c
	@mkdir -p $(BUILD)/vx
	gcc -O1 -g0 -MMD -MP -c $< -o $@

$(BUILD)/vx/%.o: $(VERIF)/vx/%.cpp
	@mkdir -p $(BUILD)/vx
	$(CXX) -O1 -g0 -std=c++20 -I$(VERIF) -MMD -MP -c $< -o $@

# a source is taken from the shadow tree when it exists there
srcof = $(if $(and $(SHADOW),$(wildcard $(SHADOW)/src/$(1))),$(SHADOW)/src/$(1),$(REPO)/src/$(1))
.SECONDEXPANSION:
$(OUT)/tsan/%.o: $$(call srcof,$$*.cpp)
	@mkdir -p $(dir $@)
	$(CXX) $(REPOCXXFLAGS) -iquote $(dir $(REPO)/src/$*.cpp) -fsanitize=thread -MMD -MP -c $< -o $@

$(OUT)/mut/%.o: $$(call srcof,$$*.cpp)
	@mkdir -p $(dir $@)
	$(CXX) $(REPOCXXFLAGS) -iquote $(dir $(REPO)/src/$*.cpp) -MMD -MP -c $< -o $@

$(OUT)/harness: $(OBJS) $(TSANOBJS) $(MUTOBJS) $(KITOBJS) $(SCHEDOBJS) $(LIBS)
	$(CXX) -pthread -o $@ $(OBJS) $(TSANOBJS) $(filter-out $(patsubst $(OUT)/tsan/%,$(OUT)/mut/%,$(TSANOBJS)),$(MUTOBJS)) $(KITOBJS) $(SCHEDOBJS) $(LIBS) $(SYSLIBS) $(LDEXTRA)

$(OUT)/aux_tsan.o: $(SRC)/$(AUX_TSAN)
	@mkdir -p $(OUT)
	$(CXX) $(REPOCXXFLAGS) -g1 -fsanitize=thread -MMD -MP -c $< -o $@

$(OUT)/aux_tsan: $(OUT)/aux_tsan.o $(TSANOBJS) $(KITDIR)/glue.o $(LIBS)
	$(CXX) -pthread -fsanitize=thread -o $@ $(OUT)/aux_tsan.o $(TSANOBJS) $(KITDIR)/glue.o $(LIBS) $(SYSLIBS)

-include $(OUT)/aux_tsan.d
-include $(OBJS:.o=.d) $(KITOBJS:.o=.d) $(TSANOBJS:.o=.d) $(SCHEDOBJS:.o=.d)
.PHONY: all kits
