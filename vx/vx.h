// vx.h — core of the /verif model-checking framework (header-only).
//
//  * Evidence  : JSON evidence writer (schema /root/.vp/EVIDENCE.schema.json)
//  * Reporter  : VIOLATION / KNOWN-FINDING lines, replay artefacts, exit code
//  * Explorer  : VX-CHOICE stateless choice-tree DFS with deviation bound + state pruning
//  * par_for   : fork-free thread fan-out for pure enumerations
//  * Deadline  : global wall-clock budget (a deadline never is a violation: exhaustive=false)
//
// A harness is `int main(argc, argv)` that calls vx::init(argc, argv, "Cnn", level),
// explores, and returns vx::finish().
#pragma once
#include <algorithm>
#include <atomic>
#include <chrono>
#include <cinttypes>
#include <cstdint>
#include <cstdio>
#include <cstdlib>
#include <cstring>
#include <fstream>
#include <functional>
#include <map>
#include <mutex>
#include <set>
#include <sstream>
#include <stdexcept>
#include <string>
#include <thread>
#include <unordered_set>
#include <vector>
#include <sys/stat.h>
#include <unistd.h>

namespace vx {

// ---------------------------------------------------------------- small utils
inline std::string json_escape(const std::string& s)
{
    std::string o;
    o.reserve(s.size() + 2);
    for (unsigned char c : s) {
        switch (c) {
        case '"': o += "\\\""; break;
        case '\\': o += "\\\\"; break;
        case '\n': o += "\\n"; break;
        case '\r': o += "\\r"; break;
        case '\t': o += "\\t"; break;
        default:
            if (c < 0x20 || c >= 0x7f) {
                char b[8];
                snprintf(b, sizeof b, "\\u%04x", c);
                o += b;
            } else o += (char)c;
        }
    }
    return o;
}
inline std::string q(const std::string& s) { return "\"" + json_escape(s) + "\""; }
inline std::string hex(const unsigned char* p, size_t n)
{
    static const char* d = "0123456789abcdef";
    std::string o;
    o.reserve(2 * n);
    for (size_t i = 0; i < n; i++) { o += d[p[i] >> 4]; o += d[p[i] & 15]; }
    return o;
}
template <typename C> inline std::string hex(const C& c) { return hex((const unsigned char*)c.data(), c.size()); }

inline uint64_t fnv1a(const void* p, size_t n, uint64_t h = 1469598103934665603ULL)
{
    const unsigned char* c = (const unsigned char*)p;
    for (size_t i = 0; i < n; i++) { h ^= c[i]; h *= 1099511628211ULL; }
    return h;
}
inline uint64_t fnv1a(const std::string& s, uint64_t h = 1469598103934665603ULL) { return fnv1a(s.data(), s.size(), h); }

// ---------------------------------------------------------------- global run context
struct Ctx {
    std::string id;         // property id
    std::string level;      // exploration | fault_enumeration | model_checking
    std::string tier = "quick";
    std::string root = "/verif";
    std::string out = "/verif"; // where evidence/ and replays/ go (VERIF_OUT, default = root)
    std::string replay;     // --replay <file>
    long seed = 0;
    double deadline_s = 0;  // 0 = none
    std::chrono::steady_clock::time_point t0;
    std::vector<std::string> args; // remaining positional args
};
inline Ctx& ctx() { static Ctx c; return c; }
inline bool thorough() { return ctx().tier == "thorough"; }
inline double elapsed()
{
    return std::chrono::duration<double>(std::chrono::steady_clock::now() - ctx().t0).count();
}
// True once the tier's wall-clock budget is used up. Harnesses poll this between
// *complete* bounds / work units and then report exhaustive=false.
inline bool deadline_reached() { return ctx().deadline_s > 0 && elapsed() > ctx().deadline_s; }
inline unsigned ncpu()
{
    const char* e = getenv("VERIF_JOBS");
    if (e && atoi(e) > 0) return atoi(e);
    unsigned n = std::thread::hardware_concurrency();
    if (!n) n = 4;
    // development-time throttle (many workers share this machine): an optional cap in <root>/build/.jobs_cap.
    // build/ is not part of the committed tree, so a fresh checkout uses all cores.
    static int cap = [] {
        const char* r = getenv("VERIF_ROOT");
        std::ifstream f(std::string(r ? r : "/verif") + "/build/.jobs_cap");
        int c = 0;
        if (f >> c && c > 0) return c;
        return 0;
    }();
    if (cap > 0 && (unsigned)cap < n) n = cap;
    return n;
}

// ---------------------------------------------------------------- evidence
struct Evidence {
    // generic counters (exploration / fault_enumeration)
    std::atomic<uint64_t> evaluations{0};
    std::atomic<uint64_t> distinct_nontrivial{0};
    std::string rule;
    // model checking counters
    std::atomic<uint64_t> states{0};
    std::atomic<uint64_t> transitions{0};
    std::atomic<uint64_t> traces_validated{0};
    bool exhaustive = true;
    std::vector<std::string> samples;     // raw JSON values
    std::vector<std::string> assumptions; // plain strings
    std::vector<std::pair<std::string, std::string>> extra; // key -> raw JSON value (inside coverage)
    std::mutex mu;

    void sample(const std::string& plain, size_t max = 12)
    {
        std::lock_guard<std::mutex> l(mu);
        if (samples.size() < max) samples.push_back(q(plain));
    }
    void sample_json(const std::string& raw, size_t max = 12)
    {
        std::lock_guard<std::mutex> l(mu);
        if (samples.size() < max) samples.push_back(raw);
    }
    void assume(const std::string& s) { assumptions.push_back(s); }
    void set(const std::string& k, const std::string& raw_json)
    {
        std::lock_guard<std::mutex> l(mu);
        for (auto& e : extra) if (e.first == k) { e.second = raw_json; return; }
        extra.emplace_back(k, raw_json);
    }
    void set(const std::string& k, uint64_t v) { set(k, std::to_string(v)); }
    void set_str(const std::string& k, const std::string& v) { set(k, q(v)); }
};
inline Evidence& ev() { static Evidence e; return e; }

// ---------------------------------------------------------------- reporter
struct Reporter {
    std::mutex mu;
    int violations = 0;
    int known = 0;
    std::set<std::string> seen_keys;
    std::vector<std::pair<std::string, std::string>> known_findings; // (key, text) for this property
    bool loaded = false;

    void load()
    {
        if (loaded) return;
        loaded = true;
        std::ifstream f(ctx().root + "/known_findings.txt");
        std::string line;
        while (std::getline(f, line)) {
            // format: known: property=<id> key=<key> <free text>
            if (line.rfind("known:", 0) != 0) continue;
            std::istringstream is(line.substr(6));
            std::string p, k;
            is >> p >> k;
            if (p != "property=" + ctx().id || k.rfind("key=", 0) != 0) continue;
            std::string rest;
            std::getline(is, rest);
            known_findings.emplace_back(k.substr(4), rest);
        }
    }
    // key: stable identifier of *what* fails (input / call site / history), used to match
    // known findings and to avoid printing one violation a thousand times.
    // Returns true if this is a new (unlisted) violation.
    bool violation(const std::string& key, const std::string& what, const std::string& replay_text)
    {
        std::lock_guard<std::mutex> l(mu);
        load();
        if (!seen_keys.insert(key).second) return false;
        for (auto& kf : known_findings) {
            if (kf.first == key) {
                known++;
                printf("KNOWN-FINDING: property=%s %s (%s)\n", ctx().id.c_str(), key.c_str(), what.c_str());
                fflush(stdout);
                return false;
            }
        }
        violations++;
        if (violations > 20) return true; // keep output and replay dir bounded
        std::string dir = ctx().out + "/replays";
        mkdir(dir.c_str(), 0755);
        std::string path = dir + "/" + ctx().id + "_" + ctx().tier + "_" + std::to_string(violations) + ".txt";
        {
            std::ofstream o(path);
            o << "# property=" << ctx().id << " tier=" << ctx().tier << "\n# key=" << key << "\n# " << what << "\n" << replay_text << "\n";
        }
        printf("VIOLATION property=%s replay=%s\n", ctx().id.c_str(), path.c_str());
        printf("  detail: %s :: %s\n", key.c_str(), what.c_str());
        fflush(stdout);
        return true;
    }
};
inline Reporter& rep() { static Reporter r; return r; }
inline bool violation(const std::string& key, const std::string& what, const std::string& replay_text = "")
{
    return rep().violation(key, what, replay_text);
}

// ---------------------------------------------------------------- init / finish
inline void init(int argc, char** argv, const char* id, const char* level, double quick_deadline_s = 150, double thorough_deadline_s = 1500)
{
    Ctx& c = ctx();
    c.id = id;
    c.level = level;
    c.t0 = std::chrono::steady_clock::now();
    if (const char* e = getenv("VERIF_TIER")) c.tier = e;
    if (const char* e = getenv("VERIF_ROOT")) c.root = e;
    c.out = c.root;
    if (const char* e = getenv("VERIF_OUT")) { c.out = e; mkdir(e, 0755); }
    if (const char* e = getenv("VERIF_SEED")) c.seed = atol(e);
    for (int i = 1; i < argc; i++) {
        std::string a = argv[i];
        if (a == "--tier" && i + 1 < argc) c.tier = argv[++i];
        else if (a == "--replay" && i + 1 < argc) c.replay = argv[++i];
        else c.args.push_back(a);
    }
    if (c.tier != "quick" && c.tier != "thorough") c.tier = "quick";
    c.deadline_s = thorough() ? thorough_deadline_s : quick_deadline_s;
    if (const char* e = getenv("VERIF_DEADLINE_S")) c.deadline_s = atof(e);
    setvbuf(stdout, nullptr, _IOLBF, 0);
}

inline void write_evidence()
{
    Ctx& c = ctx();
    Evidence& e = ev();
    std::string dir = c.out + "/evidence";
    mkdir(dir.c_str(), 0755);
    std::ostringstream o;
    o << "{\n \"property_id\": " << q(c.id) << ",\n \"tier\": " << q(c.tier) << ",\n \"seed\": " << c.seed
      << ",\n \"level\": " << q(c.level) << ",\n \"coverage\": {\n";
    bool mc = c.level == "model_checking";
    if (mc) {
        o << "  \"states\": " << e.states.load() << ",\n  \"transitions\": " << e.transitions.load()
          << ",\n  \"traces_validated_against_impl\": " << e.traces_validated.load() << ",\n";
    }
    if (!mc || e.evaluations.load() > 0) {
        o << "  \"evaluations\": " << e.evaluations.load() << ",\n  \"distinct_nontrivial\": " << e.distinct_nontrivial.load() << ",\n";
    }
    o << "  \"rule\": " << q(e.rule) << ",\n  \"exhaustive\": " << (e.exhaustive ? "true" : "false") << ",\n";
    for (auto& kv : e.extra) o << "  " << q(kv.first) << ": " << kv.second << ",\n";
    o << "  \"samples\": [";
    for (size_t i = 0; i < e.samples.size(); i++) o << (i ? ",\n    " : "\n    ") << e.samples[i];
    o << "\n  ]\n },\n \"assumptions\": [";
    for (size_t i = 0; i < e.assumptions.size(); i++) o << (i ? ",\n  " : "\n  ") << q(e.assumptions[i]);
    o << "\n ],\n \"wall_s\": " << elapsed() << ",\n \"violations\": " << rep().violations << ",\n \"known_findings\": " << rep().known << "\n}\n";
    std::string path = dir + "/" + c.id + ".json";
    std::string tmp = path + ".tmp" + std::to_string(getpid());
    {
        std::ofstream f(tmp);
        f << o.str();
    }
    rename(tmp.c_str(), path.c_str());
}

// Sanity gate against vacuous runs + evidence + exit code.
inline int finish()
{
    Evidence& e = ev();
    bool mc = ctx().level == "model_checking";
    if (ctx().replay.empty()) {
        if (e.samples.empty()) e.sample("(no sample recorded)");
        bool vacuous = mc ? (e.states.load() < 1 || e.transitions.load() < 1) : (e.evaluations.load() < 1 || e.distinct_nontrivial.load() < 2);
        write_evidence();
        if (vacuous && rep().violations == 0) {
            printf("HARNESS-ERROR property=%s vacuous exploration (counts too small)\n", ctx().id.c_str());
            return 2;
        }
    }
    printf("[%s %s] %s wall=%.1fs exhaustive=%s violations=%d known=%d", ctx().id.c_str(), ctx().tier.c_str(),
           mc ? "model_checking" : ctx().level.c_str(), elapsed(), e.exhaustive ? "true" : "false", rep().violations, rep().known);
    if (mc) printf(" states=%" PRIu64 " transitions=%" PRIu64, e.states.load(), e.transitions.load());
    if (e.evaluations.load()) printf(" evaluations=%" PRIu64 " distinct=%" PRIu64, e.evaluations.load(), e.distinct_nontrivial.load());
    printf("\n");
    return rep().violations ? 1 : 0;
}

// ---------------------------------------------------------------- thread fan-out for pure enumerations
// Splits [0,n) into chunks handed out dynamically to ncpu() threads. fn(lo, hi, tid).
inline void par_for(uint64_t n, uint64_t chunk, const std::function<void(uint64_t, uint64_t, unsigned)>& fn)
{
    unsigned nt = ncpu();
    if (chunk == 0) chunk = 1;
    std::atomic<uint64_t> next{0};
    std::vector<std::thread> th;
    for (unsigned t = 0; t < nt; t++) {
        th.emplace_back([&, t] {
            for (;;) {
                uint64_t lo = next.fetch_add(chunk);
                if (lo >= n) return;
                uint64_t hi = std::min(n, lo + chunk);
                fn(lo, hi, t);
            }
        });
    }
    for (auto& x : th) x.join();
}

// ---------------------------------------------------------------- VX-CHOICE explorer
// Body: a function that calls ex.choose(n) wherever the environment decides.
// explore() re-executes the body for every choice vector (stateless DFS).
//   * deviation bound: choose(n, /*deviation=*/true) counts every non-zero pick against `max_dev`.
//   * state pruning:   ex.visit(key, depth_left) returns false if (key, depth_left) was seen -> body should return.
struct Abort {}; // thrown to cut an execution (pruned or budget exhausted)

class Explorer
{
public:
    int max_dev = 1 << 30;
    uint64_t executions = 0, pruned = 0, choice_points = 0;
    std::vector<int> prefix;               // choices to replay
    std::vector<int> trace;                // choices taken in the current execution
    std::vector<int> arity;                // arity at each point
    std::vector<char> is_dev;              // deviation flag at each point
    std::vector<std::string> labels;       // label per point (replay divergence check)
    std::vector<std::string> prefix_labels;
    std::unordered_set<uint64_t> seen;
    int devs = 0;
    bool stop = false;

    int choose(int n, bool deviation = false, const char* label = "")
    {
        if (n <= 0) throw std::logic_error("vx::choose arity <= 0");
        size_t i = trace.size();
        int c = 0;
        if (i < prefix.size()) {
            c = prefix[i];
            if (c >= n) throw std::logic_error(std::string("vx: replay divergence (choice out of range) at ") + label);
            if (i < prefix_labels.size() && prefix_labels[i] != label) throw std::logic_error(std::string("vx: replay divergence (label) at ") + label);
        }
        if (deviation && c != 0) devs++;
        trace.push_back(c);
        arity.push_back(deviation && devs >= max_dev && c == 0 ? 1 : n); // no budget left -> no alternatives
        is_dev.push_back(deviation);
        labels.emplace_back(label);
        choice_points++;
        return c;
    }
    // State pruning; call between operations. `remaining` = remaining depth budget (so a state
    // reached with more budget left is re-explored).
    bool visit(uint64_t key, int remaining)
    {
        if (trace.size() < prefix.size()) return true; // still replaying: never prune
        uint64_t k = key * 1000003ULL + (uint64_t)remaining * 0x9E3779B97F4A7C15ULL + (uint64_t)devs;
        if (!seen.insert(k).second) { pruned++; return false; }
        return true;
    }
    bool visit(const std::string& key, int remaining) { return visit(fnv1a(key), remaining); }

    // Runs body for every choice vector. body may throw vx::Abort to cut an execution.
    void explore(const std::function<void(Explorer&)>& body)
    {
        std::vector<std::vector<int>> stack; // explicit DFS stack of prefixes
        std::vector<std::vector<std::string>> lstack;
        stack.push_back({});
        lstack.push_back({});
        while (!stack.empty() && !stop) {
            prefix = std::move(stack.back());
            prefix_labels = std::move(lstack.back());
            stack.pop_back();
            lstack.pop_back();
            trace.clear(); arity.clear(); is_dev.clear(); labels.clear();
            devs = 0;
            try { body(*this); } catch (const Abort&) {}
            executions++;
            if (trace.size() < prefix.size()) throw std::logic_error("vx: replay divergence (body ended before prefix was consumed)");
            // branch on every later position (deepest first so DFS order is natural)
            for (size_t i = prefix.size(); i < trace.size(); i++) {
                for (int alt = arity[i] - 1; alt >= 1; alt--) {
                    std::vector<int> p(trace.begin(), trace.begin() + i);
                    p.push_back(alt);
                    std::vector<std::string> pl(labels.begin(), labels.begin() + i + 1);
                    stack.push_back(std::move(p));
                    lstack.push_back(std::move(pl));
                }
            }
        }
    }
    // Execute exactly one choice vector (replay).
    void run_one(const std::vector<int>& choices, const std::function<void(Explorer&)>& body)
    {
        prefix = choices; prefix_labels.clear();
        trace.clear(); arity.clear(); is_dev.clear(); labels.clear(); devs = 0;
        try { body(*this); } catch (const Abort&) {}
        executions++;
    }
    std::string trace_str() const
    {
        std::string s;
        for (size_t i = 0; i < trace.size(); i++) { if (i) s += ' '; s += std::to_string(trace[i]); }
        return s;
    }
};

inline std::vector<int> parse_choices(const std::string& path)
{
    std::ifstream f(path);
    std::string line;
    std::vector<int> v;
    while (std::getline(f, line)) {
        if (line.empty() || line[0] == '#') continue;
        std::istringstream is(line);
        int x;
        while (is >> x) v.push_back(x);
    }
    return v;
}

// ---------------------------------------------------------------- distinct counter (thread-safe, hashed)
struct Distinct {
    std::mutex mu;
    std::unordered_set<uint64_t> s;
    bool add(uint64_t h) { std::lock_guard<std::mutex> l(mu); return s.insert(h).second; }
    bool add(const std::string& k) { return add(fnv1a(k)); }
    size_t size() { std::lock_guard<std::mutex> l(mu); return s.size(); }
};

} // namespace vx

namespace vx {
// Scratch directory for datadirs: tmpfs when available (fsync is free there), else $VERIF_BUILD/scratch.
// Also exported as TMPDIR so BasicTestingSetup-derived fixtures create their temp datadirs there.
inline std::string scratch_dir()
{
    static std::string d = [] {
        std::string s = "/dev/shm";
        struct stat st;
        if (stat(s.c_str(), &st) == 0 && access(s.c_str(), W_OK) == 0) s += "/vx-scratch";
        else {
            const char* b = getenv("VERIF_BUILD");
            s = (b ? std::string(b) : ctx().root + "/build") + "/scratch";
        }
        mkdir(s.c_str(), 0755);
        setenv("TMPDIR", s.c_str(), 1);
        return s;
    }();
    return d;
}
} // namespace vx
