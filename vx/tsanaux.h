// tsanaux.h — runs a check's auxiliary free-running ThreadSanitizer binary (built by AUX_TSAN in harness.mk) and turns
// race reports that involve the code under test into violations. Auxiliary: samples OS schedules, complements the
// sequentially consistent exhaustive schedule search with the C++ memory model; never the deciding step.
#pragma once
#include <vx/vx.h>
namespace vx {
inline void RunTsanAux(const char* argv0, int reps, double budget_s, const std::vector<std::string>& names, const std::string& key_prefix)
{
    auto& E = vx::ev();
    std::string dir = argv0;
    size_t sl = dir.rfind('/');
    dir = sl == std::string::npos ? "." : dir.substr(0, sl);
    std::string bin = dir + "/aux_tsan";
    if (access(bin.c_str(), X_OK) != 0) { E.assume("auxiliary TSan binary not built; race pass skipped"); return; }
    std::string cmd = "TSAN_OPTIONS='halt_on_error=0 exitcode=0 report_signal_unsafe=0' timeout " + std::to_string((int)budget_s) + " " + bin + " " + std::to_string(reps) + " 2>&1";
    FILE* f = popen(cmd.c_str(), "r");
    if (!f) return;
    char line[4096];
    std::string report, summary;
    int reports = 0, relevant = 0;
    bool in_report = false;
    auto flush = [&] {
        if (report.empty()) return;
        reports++;
        bool rel = false;
        for (auto& n : names) rel |= report.find(n) != std::string::npos;
        if (rel) {
            relevant++;
            std::string head = report.substr(0, 1500);
            vx::violation(key_prefix + "-tsan-data-race", "ThreadSanitizer (free-running auxiliary pass) reports a data race in the code under test: " + head.substr(0, 400), head);
        }
        report.clear();
    };
    while (fgets(line, sizeof line, f)) {
        std::string l = line;
        if (l.find("WARNING: ThreadSanitizer") != std::string::npos) { flush(); in_report = true; }
        if (l.rfind("TSAN-FREE-RUN", 0) == 0) { flush(); in_report = false; summary = l; }
        if (in_report) report += l;
    }
    flush();
    pclose(f);
    long runs = 0, bad = 0;
    sscanf(summary.c_str(), "TSAN-FREE-RUN runs=%ld oracle_failures=%ld", &runs, &bad);
    E.set("tsan_free_runs", (uint64_t)runs);
    E.set("tsan_reports", (uint64_t)reports);
    E.set("tsan_reports_in_code_under_test", (uint64_t)relevant);
    if (bad) vx::violation(key_prefix + "-free-run-oracle", "free-running bodies: " + std::to_string(bad) + " oracle failures", summary);
    E.assume("auxiliary: free-running ThreadSanitizer pass over the same bodies samples OS schedules (" + std::to_string(runs) + " runs); it is not exhaustive and not the deciding step");
}
} // namespace vx
