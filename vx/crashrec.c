// crashrec.c — VX-CRASH recorder: libc-level op log of everything a workload writes below one root directory.
// The harness executable defines these libc entry points (link-time interposition); each call is forwarded with
// dlsym(RTLD_NEXT) and, if it touches a path below the recorded root while recording is on, appended to the log.
// stdio streams opened below the root are made unbuffered, so one fwrite is one logged write.
#define _GNU_SOURCE
#include <dlfcn.h>
#include <errno.h>
#include <fcntl.h>
#include <stdarg.h>
#include <stdint.h>
#include <stdio.h>
#include <stdlib.h>
#include <string.h>
#include <sys/stat.h>
#include <sys/types.h>
#include <sys/uio.h>
#include <unistd.h>
#include <pthread.h>

enum { OP_CREATE = 1, OP_WRITE, OP_TRUNC, OP_FSYNC, OP_RENAME, OP_UNLINK, OP_MKDIR, OP_RMDIR, OP_MARK, OP_FALLOC };

static char g_root[512];
static size_t g_rootlen;
static volatile int g_on;
static __thread int g_depth; // re-entrancy guard (fopen -> open etc.)
static pthread_mutex_t g_mu = PTHREAD_MUTEX_INITIALIZER;

// log buffer: records = u32 kind, u32 pathlen, u32 path2len, u64 off, u64 len, path, path2, data
static unsigned char* g_buf;
static size_t g_len, g_cap;
static uint64_t g_nops;

#define MAXFD 4096
static char* g_fdpath[MAXFD];

static int under_root(const char* p) { return g_rootlen && p && strncmp(p, g_root, g_rootlen) == 0 && (p[g_rootlen] == '/' || p[g_rootlen] == 0); }

static void put(const void* p, size_t n)
{
    if (g_len + n > g_cap) {
        g_cap = (g_cap ? g_cap * 2 : 1 << 20);
        while (g_cap < g_len + n) g_cap *= 2;
        g_buf = realloc(g_buf, g_cap);
    }
    memcpy(g_buf + g_len, p, n);
    g_len += n;
}
static void rec(uint32_t kind, const char* path, const char* path2, uint64_t off, uint64_t len, const void* data)
{
    pthread_mutex_lock(&g_mu);
    uint32_t pl = path ? strlen(path) : 0, pl2 = path2 ? strlen(path2) : 0;
    uint64_t dl = data ? len : 0;
    put(&kind, 4); put(&pl, 4); put(&pl2, 4); put(&off, 8); put(&len, 8); put(&dl, 8);
    if (pl) put(path, pl);
    if (pl2) put(path2, pl2);
    if (dl) put(data, dl);
    g_nops++;
    pthread_mutex_unlock(&g_mu);
}
static void absolutize(const char* p, char* out, size_t n)
{
    if (p[0] == '/') { snprintf(out, n, "%s", p); return; }
    char cwd[512];
    if (!getcwd(cwd, sizeof cwd)) cwd[0] = 0;
    snprintf(out, n, "%s/%s", cwd, p);
}
static void track(int fd, const char* abs)
{
    if (fd < 0 || fd >= MAXFD) return;
    free(g_fdpath[fd]);
    g_fdpath[fd] = abs ? strdup(abs) : NULL;
}
static const char* fdp(int fd) { return fd >= 0 && fd < MAXFD ? g_fdpath[fd] : NULL; }

#define REAL(name) static __typeof__(name)* real_##name; if (!real_##name) real_##name = dlsym(RTLD_NEXT, #name)

static int do_open(const char* path, int flags, mode_t mode, int (*ropen)(const char*, int, ...))
{
    char abs[1024];
    int rec_it = g_on && !g_depth && path;
    if (rec_it) { absolutize(path, abs, sizeof abs); rec_it = under_root(abs); }
    int existed = 0;
    if (rec_it) { struct stat st; existed = stat(abs, &st) == 0; }
    g_depth++;
    int fd = ropen(path, flags, mode);
    g_depth--;
    if (fd >= 0 && rec_it) {
        track(fd, abs);
        if ((flags & O_CREAT) && !existed) rec(OP_CREATE, abs, 0, 0, 0, 0);
        else if ((flags & O_TRUNC) && (flags & (O_WRONLY | O_RDWR))) rec(OP_TRUNC, abs, 0, 0, 0, 0);
    } else if (fd >= 0) track(fd, NULL);
    return fd;
}
int open(const char* path, int flags, ...)
{
    REAL(open);
    mode_t mode = 0;
    if (flags & (O_CREAT | O_TMPFILE)) { va_list ap; va_start(ap, flags); mode = va_arg(ap, int); va_end(ap); }
    return do_open(path, flags, mode, real_open);
}
int open64(const char* path, int flags, ...)
{
    REAL(open64);
    mode_t mode = 0;
    if (flags & (O_CREAT | O_TMPFILE)) { va_list ap; va_start(ap, flags); mode = va_arg(ap, int); va_end(ap); }
    return do_open(path, flags, mode, real_open64);
}
int creat(const char* path, mode_t mode)
{
    REAL(open);
    return do_open(path, O_CREAT | O_WRONLY | O_TRUNC, mode, real_open);
}
int openat(int dirfd, const char* path, int flags, ...)
{
    REAL(openat);
    mode_t mode = 0;
    if (flags & (O_CREAT | O_TMPFILE)) { va_list ap; va_start(ap, flags); mode = va_arg(ap, int); va_end(ap); }
    if (dirfd == AT_FDCWD || (path && path[0] == '/')) {
        REAL(open);
        return do_open(path, flags, mode, real_open);
    }
    return real_openat(dirfd, path, flags, mode);
}
int close(int fd)
{
    REAL(close);
    if (fd >= 0 && fd < MAXFD && g_fdpath[fd]) track(fd, NULL);
    return real_close(fd);
}
ssize_t write(int fd, const void* buf, size_t n)
{
    REAL(write);
    const char* p = (g_on && !g_depth) ? fdp(fd) : NULL;
    off_t off = 0;
    if (p) {
        int fl = fcntl(fd, F_GETFL);
        if (fl >= 0 && (fl & O_APPEND)) { struct stat st; off = fstat(fd, &st) == 0 ? st.st_size : 0; }
        else off = lseek(fd, 0, SEEK_CUR);
    }
    ssize_t r = real_write(fd, buf, n);
    if (p && r > 0) rec(OP_WRITE, p, 0, (uint64_t)off, (uint64_t)r, buf);
    return r;
}
ssize_t pwrite(int fd, const void* buf, size_t n, off_t off)
{
    REAL(pwrite);
    const char* p = (g_on && !g_depth) ? fdp(fd) : NULL;
    ssize_t r = real_pwrite(fd, buf, n, off);
    if (p && r > 0) rec(OP_WRITE, p, 0, (uint64_t)off, (uint64_t)r, buf);
    return r;
}
ssize_t pwrite64(int fd, const void* buf, size_t n, off_t off)
{
    REAL(pwrite64);
    const char* p = (g_on && !g_depth) ? fdp(fd) : NULL;
    ssize_t r = real_pwrite64(fd, buf, n, off);
    if (p && r > 0) rec(OP_WRITE, p, 0, (uint64_t)off, (uint64_t)r, buf);
    return r;
}
ssize_t writev(int fd, const struct iovec* iov, int cnt)
{
    REAL(writev);
    const char* p = (g_on && !g_depth) ? fdp(fd) : NULL;
    if (!p) return real_writev(fd, iov, cnt);
    // split into plain writes so each is logged
    ssize_t total = 0;
    for (int i = 0; i < cnt; i++) {
        ssize_t r = write(fd, iov[i].iov_base, iov[i].iov_len);
        if (r < 0) return total ? total : r;
        total += r;
        if ((size_t)r < iov[i].iov_len) break;
    }
    return total;
}
int ftruncate(int fd, off_t len)
{
    REAL(ftruncate);
    const char* p = (g_on && !g_depth) ? fdp(fd) : NULL;
    int r = real_ftruncate(fd, len);
    if (p && r == 0) rec(OP_TRUNC, p, 0, 0, (uint64_t)len, 0);
    return r;
}
int ftruncate64(int fd, off_t len)
{
    REAL(ftruncate64);
    const char* p = (g_on && !g_depth) ? fdp(fd) : NULL;
    int r = real_ftruncate64(fd, len);
    if (p && r == 0) rec(OP_TRUNC, p, 0, 0, (uint64_t)len, 0);
    return r;
}
int posix_fallocate(int fd, off_t off, off_t len)
{
    REAL(posix_fallocate);
    const char* p = (g_on && !g_depth) ? fdp(fd) : NULL;
    int r = real_posix_fallocate(fd, off, len);
    if (p && r == 0) rec(OP_FALLOC, p, 0, (uint64_t)off, (uint64_t)len, 0);
    return r;
}
int posix_fallocate64(int fd, off_t off, off_t len)
{
    REAL(posix_fallocate64);
    const char* p = (g_on && !g_depth) ? fdp(fd) : NULL;
    int r = real_posix_fallocate64(fd, off, len);
    if (p && r == 0) rec(OP_FALLOC, p, 0, (uint64_t)off, (uint64_t)len, 0);
    return r;
}
int fallocate(int fd, int mode, off_t off, off_t len)
{
    REAL(fallocate);
    const char* p = (g_on && !g_depth) ? fdp(fd) : NULL;
    int r = real_fallocate(fd, mode, off, len);
    if (p && r == 0 && mode == 0) rec(OP_FALLOC, p, 0, (uint64_t)off, (uint64_t)len, 0);
    return r;
}
int fsync(int fd)
{
    REAL(fsync);
    const char* p = (g_on && !g_depth) ? fdp(fd) : NULL;
    int r = real_fsync(fd);
    if (p && r == 0) rec(OP_FSYNC, p, 0, 0, 0, 0);
    return r;
}
int fdatasync(int fd)
{
    REAL(fdatasync);
    const char* p = (g_on && !g_depth) ? fdp(fd) : NULL;
    int r = real_fdatasync(fd);
    if (p && r == 0) rec(OP_FSYNC, p, 0, 0, 0, 0);
    return r;
}
int rename(const char* a, const char* b)
{
    REAL(rename);
    char aa[1024], bb[1024];
    int rec_it = g_on && !g_depth;
    if (rec_it) { absolutize(a, aa, sizeof aa); absolutize(b, bb, sizeof bb); rec_it = under_root(aa) || under_root(bb); }
    int r = real_rename(a, b);
    if (rec_it && r == 0) rec(OP_RENAME, aa, bb, 0, 0, 0);
    return r;
}
int unlink(const char* a)
{
    REAL(unlink);
    char aa[1024];
    int rec_it = g_on && !g_depth;
    if (rec_it) { absolutize(a, aa, sizeof aa); rec_it = under_root(aa); }
    int r = real_unlink(a);
    if (rec_it && r == 0) rec(OP_UNLINK, aa, 0, 0, 0, 0);
    return r;
}
int remove(const char* a)
{
    REAL(remove);
    char aa[1024];
    int rec_it = g_on && !g_depth;
    struct stat st;
    int isdir = 0;
    if (rec_it) { absolutize(a, aa, sizeof aa); rec_it = under_root(aa); isdir = stat(aa, &st) == 0 && S_ISDIR(st.st_mode); }
    g_depth++;
    int r = real_remove(a);
    g_depth--;
    if (rec_it && r == 0) rec(isdir ? OP_RMDIR : OP_UNLINK, aa, 0, 0, 0, 0);
    return r;
}
int mkdir(const char* a, mode_t m)
{
    REAL(mkdir);
    char aa[1024];
    int rec_it = g_on && !g_depth;
    if (rec_it) { absolutize(a, aa, sizeof aa); rec_it = under_root(aa); }
    int r = real_mkdir(a, m);
    if (rec_it && r == 0) rec(OP_MKDIR, aa, 0, 0, 0, 0);
    return r;
}
int rmdir(const char* a)
{
    REAL(rmdir);
    char aa[1024];
    int rec_it = g_on && !g_depth;
    if (rec_it) { absolutize(a, aa, sizeof aa); rec_it = under_root(aa); }
    int r = real_rmdir(a);
    if (rec_it && r == 0) rec(OP_RMDIR, aa, 0, 0, 0, 0);
    return r;
}

// ---- stdio
static FILE* do_fopen(const char* path, const char* mode, FILE* (*rfopen)(const char*, const char*))
{
    char abs[1024];
    int rec_it = g_on && !g_depth && path;
    if (rec_it) { absolutize(path, abs, sizeof abs); rec_it = under_root(abs); }
    int existed = 0;
    if (rec_it) { struct stat st; existed = stat(abs, &st) == 0; }
    g_depth++;
    FILE* f = rfopen(path, mode);
    g_depth--;
    if (f && rec_it) {
        setvbuf(f, NULL, _IONBF, 0);
        track(fileno(f), abs);
        if (!existed && (mode[0] == 'w' || mode[0] == 'a')) rec(OP_CREATE, abs, 0, 0, 0, 0);
        else if (mode[0] == 'w') rec(OP_TRUNC, abs, 0, 0, 0, 0);
    } else if (f) track(fileno(f), NULL);
    return f;
}
FILE* fopen(const char* path, const char* mode)
{
    REAL(fopen);
    return do_fopen(path, mode, real_fopen);
}
FILE* fopen64(const char* path, const char* mode)
{
    REAL(fopen64);
    return do_fopen(path, mode, real_fopen64);
}
size_t fwrite(const void* buf, size_t sz, size_t n, FILE* f)
{
    REAL(fwrite);
    const char* p = (g_on && !g_depth) ? fdp(fileno(f)) : NULL;
    long off = 0;
    if (p) {
        int fl = fcntl(fileno(f), F_GETFL);
        if (fl >= 0 && (fl & O_APPEND)) { struct stat st; off = fstat(fileno(f), &st) == 0 ? st.st_size : 0; }
        else off = ftell(f);
    }
    g_depth++;
    size_t r = real_fwrite(buf, sz, n, f);
    g_depth--;
    if (p && r > 0) rec(OP_WRITE, p, 0, (uint64_t)off, (uint64_t)(r * sz), buf);
    return r;
}
int fputs(const char* s, FILE* f)
{
    size_t n = strlen(s);
    return fwrite(s, 1, n, f) == n ? 1 : EOF;
}
int fputc(int c, FILE* f)
{
    unsigned char ch = (unsigned char)c;
    return fwrite(&ch, 1, 1, f) == 1 ? c : EOF;
}
int fclose(FILE* f)
{
    REAL(fclose);
    int fd = fileno(f);
    if (fd >= 0 && fd < MAXFD && g_fdpath[fd]) track(fd, NULL);
    g_depth++;
    int r = real_fclose(f);
    g_depth--;
    return r;
}

// ---- control
void vxc_start(const char* root)
{
    char abs[1024];
    absolutize(root, abs, sizeof abs);
    snprintf(g_root, sizeof g_root, "%s", abs);
    g_rootlen = strlen(g_root);
    while (g_rootlen > 1 && g_root[g_rootlen - 1] == '/') g_root[--g_rootlen] = 0;
    g_on = 1;
}
void vxc_stop(void) { g_on = 0; }
void vxc_mark(const char* text) { if (g_on) rec(OP_MARK, text, 0, 0, 0, 0); }
uint64_t vxc_nops(void) { return g_nops; }
int vxc_dump(const char* path)
{
    REAL(open);
    REAL(write);
    REAL(close);
    int fd = real_open(path, O_CREAT | O_TRUNC | O_WRONLY, 0644);
    if (fd < 0) return -1;
    size_t done = 0;
    while (done < g_len) {
        ssize_t r = real_write(fd, g_buf + done, g_len - done);
        if (r <= 0) { real_close(fd); return -1; }
        done += r;
    }
    real_close(fd);
    return 0;
}
