// sched.c — VX-SCHED: cooperative, preemption-bounded scheduler for real pthreads.
//
// Defines (interposes, because these definitions live in the harness executable) the pthread / futex entry
// points the code under test synchronises with. While an exploration is active and the caller is a managed
// thread, mutexes and condition variables are *modelled* here (owner table / waiter lists; the real objects
// are never touched), exactly one managed thread runs at a time, and every synchronisation operation is a
// scheduling point where vxs_choose() picks the thread to run next. Calls from unmanaged threads or outside
// an exploration pass through to glibc.
//
// Compiled WITHOUT instrumentation.
#define _GNU_SOURCE
#include <dlfcn.h>
#include <errno.h>
#include <linux/futex.h>
#include <pthread.h>
#include <sched.h>
#include <stdarg.h>
#include <stdint.h>
#include <stdio.h>
#include <stdlib.h>
#include <string.h>
#include <sys/syscall.h>
#include <time.h>
#include <unistd.h>

// ---- callbacks implemented by the C++ driver (vx/sched.h)
extern int vxs_choose(int n, int deviation, const char* label);
extern void vxs_fatal(int code, const char* what); // records the verdict and _exit()s: 3 deadlock, 4 livelock, 5 misuse

#define MAXT 12
#define MAXM 512
enum { T_FREE = 0, T_RUN, T_BLK_MUTEX, T_BLK_COND, T_BLK_JOIN, T_BLK_FUTEX, T_DONE };

struct Th {
    int state;
    void* obj;      // mutex / cond / futex address blocked on
    void* mtx;      // mutex to reacquire after a cond wait
    int timed;      // blocked with a timeout
    int timedout;   // woken by timeout
    int join_target;
    volatile int go;
    pthread_t real;
    void* (*fn)(void*);
    void* arg;
    void* ret;
    int cond_seq;   // FIFO order of cond waiters
};
static struct Th th[MAXT];
static int nth;
static volatile int active;
static int cur = -1;
static __thread int tid = -1;
static long steps, step_limit = 200000;
static int cond_seq_ctr;
static int point_after_unlock = 1;
static int free_switch = 1;
// scope filter: when on, mutex operations on addresses that were not registered are not preemption points
// (blocking is still modelled). Condition variables, thread create/join, futexes and atomics always are.
static int scope_on;
static void* scope_addr[64];
static int n_scope;
static void (*timeout_hook)(void);
static int in_scope(void* a) { if (!scope_on) return 1; for (int i = 0; i < n_scope; i++) if (scope_addr[i] == a) return 1; return 0; } // 1: choices among several enabled threads at a blocking point are free (CHESS); 0: non-default picks cost a deviation

struct Mx { void* addr; int owner; int rec; };
static struct Mx mt[MAXM];
static int nmt;

// ---- raw syscalls (syscall() itself is interposed below)
static long raw_syscall6(long n, long a, long b, long c, long d, long e, long f)
{
    long ret;
    register long r10 __asm__("r10") = d;
    register long r8 __asm__("r8") = e;
    register long r9 __asm__("r9") = f;
    __asm__ volatile("syscall" : "=a"(ret) : "a"(n), "D"(a), "S"(b), "d"(c), "r"(r10), "r"(r8), "r"(r9) : "rcx", "r11", "memory");
    return ret;
}
static void fwait(volatile int* a, int v) { raw_syscall6(SYS_futex, (long)a, FUTEX_WAIT, v, 0, 0, 0); }
static void fwake(volatile int* a) { raw_syscall6(SYS_futex, (long)a, FUTEX_WAKE, 1, 0, 0, 0); }

// ---- real functions
static int (*real_create)(pthread_t*, const pthread_attr_t*, void* (*)(void*), void*);
static int (*real_join)(pthread_t, void**);
static int (*real_mlock)(pthread_mutex_t*);
static int (*real_mtrylock)(pthread_mutex_t*);
static int (*real_munlock)(pthread_mutex_t*);
static int (*real_cwait)(pthread_cond_t*, pthread_mutex_t*);
static int (*real_ctimedwait)(pthread_cond_t*, pthread_mutex_t*, const struct timespec*);
static int (*real_cclockwait)(pthread_cond_t*, pthread_mutex_t*, clockid_t, const struct timespec*);
static int (*real_csignal)(pthread_cond_t*);
static int (*real_cbroadcast)(pthread_cond_t*);
static int (*real_yield)(void);
static int (*real_detach)(pthread_t);
static void resolve(void)
{
    if (real_create) return;
    real_create = dlsym(RTLD_NEXT, "pthread_create");
    real_join = dlsym(RTLD_NEXT, "pthread_join");
    real_mlock = dlsym(RTLD_NEXT, "pthread_mutex_lock");
    real_mtrylock = dlsym(RTLD_NEXT, "pthread_mutex_trylock");
    real_munlock = dlsym(RTLD_NEXT, "pthread_mutex_unlock");
    real_cwait = dlsym(RTLD_NEXT, "pthread_cond_wait");
    real_ctimedwait = dlsym(RTLD_NEXT, "pthread_cond_timedwait");
    real_cclockwait = dlsym(RTLD_NEXT, "pthread_cond_clockwait");
    real_csignal = dlsym(RTLD_NEXT, "pthread_cond_signal");
    real_cbroadcast = dlsym(RTLD_NEXT, "pthread_cond_broadcast");
    real_yield = dlsym(RTLD_NEXT, "sched_yield");
    real_detach = dlsym(RTLD_NEXT, "pthread_detach");
}
__attribute__((constructor)) static void vxs_ctor(void) { resolve(); }

static inline int managed(void) { return active && tid >= 0; }

// ---- mutex model
static struct Mx* mx_get(void* a)
{
    for (int i = 0; i < nmt; i++)
        if (mt[i].addr == a) return &mt[i];
    if (nmt >= MAXM) vxs_fatal(5, "vx-sched: mutex table full");
    mt[nmt].addr = a;
    mt[nmt].owner = -1;
    mt[nmt].rec = 0;
    return &mt[nmt++];
}
static int mx_free(void* a) { return mx_get(a)->owner < 0; }

static int enabled(int t, int* by_timeout)
{
    *by_timeout = 0;
    switch (th[t].state) {
    case T_RUN: return 1;
    case T_BLK_MUTEX: return mx_free(th[t].obj);
    case T_BLK_JOIN: return th[th[t].join_target].state == T_DONE;
    case T_BLK_COND:
        if (th[t].timed && mx_free(th[t].mtx)) { *by_timeout = 1; return 1; }
        return 0;
    case T_BLK_FUTEX:
        if (th[t].timed) { *by_timeout = 1; return 1; }
        return 0;
    default: return 0;
    }
}

static void switch_to(int next)
{
    int self = tid;
    if (next == self) return;
    cur = next;
    th[next].go = 1;
    fwake(&th[next].go);
    if (self >= 0 && th[self].state != T_DONE) {
        while (!th[self].go) fwait(&th[self].go, 0);
        th[self].go = 0;
    }
}

static void grant(int t, int by_timeout)
{
    // make a chosen thread runnable
    if (by_timeout) { th[t].timedout = 1; th[t].state = T_RUN; if (timeout_hook) timeout_hook(); }
    else if (th[t].state == T_BLK_JOIN) th[t].state = T_RUN;
    else if (th[t].state == T_BLK_MUTEX) th[t].state = T_RUN; // it re-checks the mutex itself
}

// Decide who runs next. self_enabled: the calling thread could continue.
static void decide(int self_enabled, const char* label)
{
    if (++steps > step_limit) vxs_fatal(4, "vx-sched: step horizon exceeded (livelock or unbounded spinning)");
    int opts[2 * MAXT], tmo[2 * MAXT], n = 0;
    int self = tid;
    if (self_enabled) { opts[n] = self; tmo[n] = 0; n++; }
    // first the ordinary enabled threads, ascending ids, then the timeout-enabled ones
    for (int pass = 0; pass < 2; pass++)
        for (int t = 0; t < nth; t++) {
            if (t == self && self_enabled) continue;
            int bt;
            if (!enabled(t, &bt)) continue;
            if (bt != pass) continue;
            opts[n] = t; tmo[n] = bt; n++;
        }
    if (n == 0) {
        int alive = 0;
        for (int t = 0; t < nth; t++) if (th[t].state != T_DONE && th[t].state != T_FREE) alive++;
        if (alive) vxs_fatal(3, "vx-sched: DEADLOCK — no thread is enabled");
        return;
    }
    int c;
    if (self_enabled) {
        c = n > 1 ? vxs_choose(n, 1, label) : 0; // any non-zero choice preempts a runnable thread (or fires a timeout): a deviation
    } else {
        // forced switch. Prefer ordinary wake-ups; timeouts fire only if nothing else can run (time passes) —
        // or as a deviation when something else could.
        int n_ord = 0;
        for (int i = 0; i < n; i++) if (!tmo[i]) n_ord++;
        if (n_ord > 0) {
            c = n_ord > 1 ? vxs_choose(n_ord, !free_switch, label) : 0;
            // a timeout firing although another thread could run: deviation-priced alternative
            if (n > n_ord && c == 0) {
                int d = vxs_choose(1 + (n - n_ord), 1, "timeout");
                if (d > 0) c = n_ord + d - 1;
            }
        } else {
            c = n > 1 ? vxs_choose(n, !free_switch, label) : 0;
        }
    }
    int next = opts[c];
    grant(next, tmo[c]);
    switch_to(next);
}

static void sched_point(const char* label)
{
    if (!managed()) return;
    decide(1, label);
}
void vxs_point(const char* label) { sched_point(label); }
int vxs_managed(void) { return managed(); }

static void block_and_switch(const char* label)
{
    decide(0, label);
}

// ---- model operations
static int is_recursive(pthread_mutex_t* m) { return (m->__data.__kind & 3) == PTHREAD_MUTEX_RECURSIVE_NP; }

static void model_acquire(pthread_mutex_t* m, const char* label)
{
    for (;;) {
        struct Mx* x = mx_get(m);
        if (x->owner < 0) { x->owner = tid; x->rec = 1; return; }
        if (x->owner == tid) {
            if (is_recursive(m)) { x->rec++; return; }
            vxs_fatal(3, "vx-sched: DEADLOCK — thread relocks a non-recursive mutex it owns");
        }
        th[tid].state = T_BLK_MUTEX;
        th[tid].obj = m;
        block_and_switch(label);
        th[tid].state = T_RUN;
    }
}
static void model_release(pthread_mutex_t* m)
{
    struct Mx* x = mx_get(m);
    if (x->owner != tid) vxs_fatal(5, "vx-sched: unlock of a mutex not owned by the caller");
    if (--x->rec == 0) x->owner = -1;
}

int pthread_mutex_lock(pthread_mutex_t* m)
{
    if (!managed()) { resolve(); return real_mlock(m); }
    if (in_scope(m)) sched_point("lock");
    model_acquire(m, "lock-blocked");
    return 0;
}
int pthread_mutex_trylock(pthread_mutex_t* m)
{
    if (!managed()) { resolve(); return real_mtrylock(m); }
    if (in_scope(m)) sched_point("trylock");
    struct Mx* x = mx_get(m);
    if (x->owner < 0) { x->owner = tid; x->rec = 1; return 0; }
    if (x->owner == tid && is_recursive(m)) { x->rec++; return 0; }
    return EBUSY;
}
int pthread_mutex_unlock(pthread_mutex_t* m)
{
    if (!managed()) { resolve(); return real_munlock(m); }
    model_release(m);
    if (point_after_unlock && in_scope(m)) sched_point("unlock");
    return 0;
}

static int model_cond_wait(pthread_cond_t* c, pthread_mutex_t* m, int timed)
{
    struct Mx* x = mx_get(m);
    if (x->owner != tid) vxs_fatal(5, "vx-sched: cond wait without owning the mutex");
    int saved_rec = x->rec;
    x->rec = 0;
    x->owner = -1;
    th[tid].state = T_BLK_COND;
    th[tid].obj = c;
    th[tid].mtx = m;
    th[tid].timed = timed;
    th[tid].timedout = 0;
    th[tid].cond_seq = ++cond_seq_ctr;
    block_and_switch("cond-wait");
    th[tid].state = T_RUN;
    th[tid].timed = 0;
    model_acquire(m, "cond-reacquire");
    mx_get(m)->rec = saved_rec;
    int to = th[tid].timedout;
    th[tid].timedout = 0;
    return to ? ETIMEDOUT : 0;
}
int pthread_cond_wait(pthread_cond_t* c, pthread_mutex_t* m)
{
    if (!managed()) { resolve(); return real_cwait(c, m); }
    return model_cond_wait(c, m, 0);
}
// A timed wait whose deadline has already passed returns ETIMEDOUT at once (after releasing and reacquiring
// the mutex, with a scheduling point in between); one with a deadline in the future is "enabled by timeout".
static int deadline_passed(clockid_t clk, const struct timespec* ts)
{
    struct timespec now;
    if (clock_gettime(clk, &now)) return 0;
    return now.tv_sec > ts->tv_sec || (now.tv_sec == ts->tv_sec && now.tv_nsec >= ts->tv_nsec);
}
static int model_expired_wait(pthread_mutex_t* m)
{
    struct Mx* x = mx_get(m);
    if (x->owner != tid) vxs_fatal(5, "vx-sched: cond wait without owning the mutex");
    int saved_rec = x->rec;
    x->rec = 0;
    x->owner = -1;
    sched_point("cond-expired");
    model_acquire(m, "cond-reacquire");
    mx_get(m)->rec = saved_rec;
    return ETIMEDOUT;
}
int pthread_cond_timedwait(pthread_cond_t* c, pthread_mutex_t* m, const struct timespec* ts)
{
    if (!managed()) { resolve(); return real_ctimedwait(c, m, ts); }
    if (deadline_passed(CLOCK_REALTIME, ts)) return model_expired_wait(m);
    return model_cond_wait(c, m, 1);
}
int pthread_cond_clockwait(pthread_cond_t* c, pthread_mutex_t* m, clockid_t clk, const struct timespec* ts)
{
    if (!managed()) { resolve(); return real_cclockwait(c, m, clk, ts); }
    if (deadline_passed(clk, ts)) return model_expired_wait(m);
    return model_cond_wait(c, m, 1);
}
static int cond_wake(pthread_cond_t* c, int all)
{
    int woke = 0;
    for (;;) {
        int w[MAXT], n = 0;
        for (int t = 0; t < nth; t++)
            if (th[t].state == T_BLK_COND && th[t].obj == c) w[n++] = t;
        if (n == 0) break;
        int pick = 0;
        if (!all && n > 1) {
            // which waiter a signal wakes is unspecified: explore every choice (ordered FIFO first)
            for (int i = 0; i < n; i++)
                for (int j = i + 1; j < n; j++)
                    if (th[w[j]].cond_seq < th[w[i]].cond_seq) { int tmp = w[i]; w[i] = w[j]; w[j] = tmp; }
            pick = vxs_choose(n, !free_switch, "signal-target");
        }
        int t = w[pick];
        th[t].state = T_BLK_MUTEX;
        th[t].obj = th[t].mtx;
        th[t].timed = 0;
        woke++;
        if (!all) break;
    }
    return woke;
}
int pthread_cond_signal(pthread_cond_t* c)
{
    if (!managed()) { resolve(); return real_csignal(c); }
    sched_point("signal");
    cond_wake(c, 0);
    sched_point("signal-done");
    return 0;
}
int pthread_cond_broadcast(pthread_cond_t* c)
{
    if (!managed()) { resolve(); return real_cbroadcast(c); }
    sched_point("broadcast");
    cond_wake(c, 1);
    sched_point("broadcast-done");
    return 0;
}

static void* trampoline(void* p)
{
    int me = (int)(intptr_t)p;
    tid = me;
    while (!th[me].go) fwait(&th[me].go, 0);
    th[me].go = 0;
    th[me].ret = th[me].fn(th[me].arg);
    th[me].state = T_DONE;
    // futex waiters on thread exit are not modelled; joiners are enabled by state
    block_and_switch("thread-exit");
    tid = -1;
    return th[me].ret;
}
int pthread_create(pthread_t* out, const pthread_attr_t* attr, void* (*fn)(void*), void* arg)
{
    resolve();
    if (!managed()) return real_create(out, attr, fn, arg);
    if (nth >= MAXT) vxs_fatal(5, "vx-sched: too many threads");
    int me = nth++;
    memset(&th[me], 0, sizeof th[me]);
    th[me].state = T_RUN;
    th[me].fn = fn;
    th[me].arg = arg;
    int r = real_create(&th[me].real, attr, trampoline, (void*)(intptr_t)me);
    if (r) vxs_fatal(5, "vx-sched: pthread_create failed");
    *out = th[me].real;
    sched_point("create");
    return 0;
}
int pthread_join(pthread_t t, void** ret)
{
    resolve();
    if (!managed()) return real_join(t, ret);
    int target = -1;
    for (int i = 0; i < nth; i++)
        if (th[i].state != T_FREE && pthread_equal(th[i].real, t)) target = i;
    if (target < 0) return real_join(t, ret);
    sched_point("join");
    if (th[target].state != T_DONE) {
        th[tid].state = T_BLK_JOIN;
        th[tid].join_target = target;
        block_and_switch("join-blocked");
        th[tid].state = T_RUN;
    }
    return real_join(t, ret);
}
int sched_yield(void)
{
    if (!managed()) { resolve(); return real_yield ? real_yield() : 0; }
    // yield: let somebody else run if anybody can (not a preemption)
    int any = 0, bt;
    for (int t = 0; t < nth; t++) if (t != tid && enabled(t, &bt) && !bt) any = 1;
    if (any) { th[tid].state = T_RUN; decide(0, "yield"); }
    return 0;
}
int nanosleep(const struct timespec* req, struct timespec* rem)
{
    if (!managed()) return (int)raw_syscall6(SYS_nanosleep, (long)req, (long)rem, 0, 0, 0, 0);
    return sched_yield();
}
int clock_nanosleep(clockid_t c, int flags, const struct timespec* req, struct timespec* rem)
{
    if (!managed()) { long r = raw_syscall6(SYS_clock_nanosleep, c, flags, (long)req, (long)rem, 0, 0); return r < 0 ? (int)-r : 0; }
    sched_yield();
    return 0;
}

// libstdc++ reaches futexes (atomic wait/notify, std::future, static-init guards) through syscall()
long syscall(long no, ...)
{
    va_list ap;
    va_start(ap, no);
    long a = va_arg(ap, long), b = va_arg(ap, long), c = va_arg(ap, long), d = va_arg(ap, long), e = va_arg(ap, long), f = va_arg(ap, long);
    va_end(ap);
    if (no == SYS_futex && managed()) {
        int op = (int)b & ~(FUTEX_PRIVATE_FLAG | FUTEX_CLOCK_REALTIME);
        int* addr = (int*)a;
        if (op == FUTEX_WAIT || op == FUTEX_WAIT_BITSET) {
            if (__atomic_load_n(addr, __ATOMIC_SEQ_CST) != (int)c) { errno = EAGAIN; return -1; }
            th[tid].state = T_BLK_FUTEX;
            th[tid].obj = addr;
            th[tid].timed = d != 0;
            th[tid].timedout = 0;
            block_and_switch("futex-wait");
            th[tid].state = T_RUN;
            th[tid].timed = 0;
            if (th[tid].timedout) { th[tid].timedout = 0; errno = ETIMEDOUT; return -1; }
            return 0;
        }
        if (op == FUTEX_WAKE || op == FUTEX_WAKE_BITSET) {
            int n = 0;
            for (int t = 0; t < nth && n < (int)c; t++)
                if (th[t].state == T_BLK_FUTEX && th[t].obj == addr) { th[t].state = T_RUN; n++; }
            sched_point("futex-wake");
            return n;
        }
        vxs_fatal(5, "vx-sched: unsupported futex operation");
    }
    long r = raw_syscall6(no, a, b, c, d, e, f);
    if (r < 0 && r > -4096) { errno = (int)-r; return -1; }
    return r;
}

// ---- driver interface
void vxs_begin(long limit)
{
    resolve();
    memset(th, 0, sizeof th);
    nmt = 0;
    nth = 1;
    th[0].state = T_RUN;
    th[0].real = pthread_self();
    tid = 0;
    cur = 0;
    steps = 0;
    cond_seq_ctr = 0;
    if (limit > 0) step_limit = limit;
    active = 1;
}
// returns number of threads that were not finished (must be 0)
int vxs_end(void)
{
    int left = 0;
    for (int t = 1; t < nth; t++) if (th[t].state != T_DONE) left++;
    active = 0;
    tid = -1;
    return left;
}
long vxs_steps(void) { return steps; }
void vxs_set_point_after_unlock(int v) { point_after_unlock = v; }
void vxs_set_free_switch(int v) { free_switch = v; }
void vxs_scope_clear(void) { n_scope = 0; scope_on = 0; }
void vxs_scope_add(void* a) { if (n_scope < 64) scope_addr[n_scope++] = a; scope_on = 1; }
// called whenever the scheduler lets a timed wait time out: the harness advances its mock clock there
void vxs_set_timeout_hook(void (*f)(void)) { timeout_hook = f; }
