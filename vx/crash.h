// crash.h — VX-CRASH: crash-state enumeration over an op log recorded by crashrec.c (ALICE style).
//
//   Log::load(file)                 ops with root-relative paths
//   Enumerate(log, mode)            list of crash states, each = the set of op indices that reached the disk:
//       kill      : every prefix ops[0..k)  (+ torn variants of a trailing write: first 1 / half / n-1 bytes)
//       powerloss : for every cut j and every crash point k >= j: ops[0..j) plus the ops of [j,k) that a sync
//                   issued before k had made durable ("a suffix of not-yet-synced writes is discarded")
//   Materialise(log, state, dir)    writes the file tree of that state into dir
//
// Durability rule (deliberately lenient, to stay inside what the properties state): a data write / truncate /
// allocation of file F is durable once a later fsync/fdatasync of F was issued; create / rename of F is durable
// once F itself or its parent directory was synced afterwards; unlink / mkdir / rmdir once the parent directory
// was synced afterwards.
#pragma once
#include <vx/vx.h>
#include <filesystem>
#include <fcntl.h>

extern "C" {
void vxc_start(const char* root);
void vxc_stop(void);
void vxc_mark(const char* text);
uint64_t vxc_nops(void);
int vxc_dump(const char* path);
}

namespace vxc {

enum Kind { CREATE = 1, WRITE, TRUNC, FSYNC, RENAME, UNLINK, MKDIR, RMDIR, MARK, FALLOC };

struct Op {
    uint32_t kind;
    std::string path, path2;
    uint64_t off = 0, len = 0;
    std::string data;
};

struct Log {
    std::vector<Op> ops;
    std::string root;
    static std::string rel(const std::string& root, const std::string& p)
    {
        if (p.size() >= root.size() && p.compare(0, root.size(), root) == 0) {
            std::string r = p.substr(root.size());
            while (!r.empty() && r[0] == '/') r.erase(0, 1);
            return r;
        }
        return p;
    }
    bool load(const std::string& file, const std::string& root_)
    {
        root = root_;
        std::ifstream f(file, std::ios::binary);
        if (!f) return false;
        std::string buf((std::istreambuf_iterator<char>(f)), std::istreambuf_iterator<char>());
        size_t p = 0;
        while (p + 36 <= buf.size()) {
            uint32_t kind, pl, pl2;
            uint64_t off, len, dl;
            memcpy(&kind, &buf[p], 4); memcpy(&pl, &buf[p + 4], 4); memcpy(&pl2, &buf[p + 8], 4);
            memcpy(&off, &buf[p + 12], 8); memcpy(&len, &buf[p + 20], 8); memcpy(&dl, &buf[p + 28], 8);
            p += 36;
            if (p + pl + pl2 + dl > buf.size()) return false;
            Op o;
            o.kind = kind; o.off = off; o.len = len;
            o.path = buf.substr(p, pl); p += pl;
            o.path2 = buf.substr(p, pl2); p += pl2;
            o.data = buf.substr(p, dl); p += dl;
            if (kind != MARK) { o.path = rel(root, o.path); if (pl2) o.path2 = rel(root, o.path2); }
            ops.push_back(std::move(o));
        }
        return true;
    }
    size_t count(uint32_t k) const { size_t n = 0; for (auto& o : ops) n += o.kind == k; return n; }
    // marks issued strictly before op index k
    std::vector<std::string> marks_before(size_t k) const
    {
        std::vector<std::string> m;
        for (size_t i = 0; i < k && i < ops.size(); i++) if (ops[i].kind == MARK) m.push_back(ops[i].path);
        return m;
    }
};

// A crash state: which ops are applied. Described compactly: all ops < j, plus `extra` (sorted indices >= j),
// and an optional torn last write (index, bytes kept).
struct State {
    size_t j = 0;                 // prefix fully applied
    std::vector<size_t> extra;    // durable ops beyond the cut
    size_t k = 0;                 // crash point (for the oracle: marks before k were "acknowledged")
    long torn_index = -1;         // op index of a partially applied write (== j), bytes kept:
    size_t torn_bytes = 0;
    std::string mode;             // "kill" | "powerloss"
    std::string describe() const
    {
        std::string s = mode + " cut=" + std::to_string(j) + " crash=" + std::to_string(k);
        if (torn_index >= 0) s += " torn_write_bytes=" + std::to_string(torn_bytes);
        if (!extra.empty()) { s += " durable_beyond_cut=" + std::to_string(extra.size()); }
        return s;
    }
    uint64_t hash() const
    {
        uint64_t h = vx::fnv1a(&j, sizeof j);
        for (auto e : extra) h = vx::fnv1a(&e, sizeof e, h);
        h = vx::fnv1a(&torn_index, sizeof torn_index, h);
        h = vx::fnv1a(&torn_bytes, sizeof torn_bytes, h);
        return h;
    }
};

inline std::string parent_dir(const std::string& p)
{
    size_t s = p.rfind('/');
    return s == std::string::npos ? std::string() : p.substr(0, s);
}

// In-memory file tree
struct Tree {
    std::map<std::string, std::string> files;
    std::set<std::string> dirs;
    void apply(const Op& o, long torn_bytes = -1)
    {
        switch (o.kind) {
        case CREATE: files.emplace(o.path, std::string()); break;
        case WRITE: {
            std::string& f = files[o.path];
            size_t n = torn_bytes >= 0 ? (size_t)torn_bytes : o.data.size();
            if (f.size() < o.off + n) f.resize(o.off + n, '\0');
            memcpy(&f[o.off], o.data.data(), n);
            break;
        }
        case TRUNC: { auto it = files.find(o.path); if (it == files.end()) files[o.path] = std::string(o.len, '\0'); else it->second.resize(o.len, '\0'); break; }
        case FALLOC: { std::string& f = files[o.path]; if (f.size() < o.off + o.len) f.resize(o.off + o.len, '\0'); break; }
        case RENAME: { auto it = files.find(o.path); if (it != files.end()) { std::string d = std::move(it->second); files.erase(it); files[o.path2] = std::move(d); } break; }
        case UNLINK: files.erase(o.path); break;
        case MKDIR: dirs.insert(o.path); break;
        case RMDIR: dirs.erase(o.path); break;
        default: break;
        }
    }
    uint64_t hash() const
    {
        uint64_t h = 1469598103934665603ULL;
        for (auto& [p, d] : files) { h = vx::fnv1a(p, h); h = vx::fnv1a(d, h); h = h * 31 + 7; }
        for (auto& d : dirs) h = vx::fnv1a(d, h);
        return h;
    }
    void write_to(const std::string& dir) const
    {
        namespace sfs = std::filesystem;
        sfs::create_directories(dir);
        for (auto& d : dirs) sfs::create_directories(dir + "/" + d);
        for (auto& [p, d] : files) {
            std::string full = dir + "/" + p;
            sfs::create_directories(sfs::path(full).parent_path());
            int fd = ::open(full.c_str(), O_CREAT | O_TRUNC | O_WRONLY, 0644);
            if (fd < 0) throw std::runtime_error("vxc: cannot create " + full);
            size_t done = 0;
            while (done < d.size()) {
                ssize_t r = ::write(fd, d.data() + done, d.size() - done);
                if (r <= 0) break;
                done += r;
            }
            ::close(fd);
        }
    }
};

inline Tree Materialise(const Log& L, const State& s, const Tree* initial = nullptr)
{
    Tree t;
    if (initial) t = *initial;
    for (size_t i = 0; i < s.j && i < L.ops.size(); i++) t.apply(L.ops[i]);
    if (s.torn_index >= 0) t.apply(L.ops[s.torn_index], (long)s.torn_bytes);
    for (size_t e : s.extra) t.apply(L.ops[e]);
    return t;
}

// Is op i (>= j) durable given the syncs issued in (i, k)?
inline bool Durable(const Log& L, size_t i, size_t k)
{
    const Op& o = L.ops[i];
    if (o.kind == MARK || o.kind == FSYNC) return false;
    for (size_t s = i + 1; s < k; s++) {
        const Op& y = L.ops[s];
        if (y.kind != FSYNC) continue;
        switch (o.kind) {
        case WRITE: case TRUNC: case FALLOC:
            if (y.path == o.path) return true;
            break;
        case CREATE:
            if (y.path == o.path || y.path == parent_dir(o.path)) return true;
            break;
        case RENAME:
            if (y.path == o.path2 || y.path == parent_dir(o.path2)) return true;
            break;
        case UNLINK: case MKDIR: case RMDIR:
            if (y.path == parent_dir(o.path)) return true;
            break;
        default: break;
        }
    }
    return false;
}

// Enumerate crash states from op index `from` (ops before `from` are always applied: the set-up phase).
inline std::vector<State> Enumerate(const Log& L, size_t from, bool kill, bool powerloss, bool torn)
{
    std::vector<State> out;
    std::map<uint64_t, size_t> seen; // applied-op-set hash -> index in out; for equal disk states keep the LARGEST crash point k
    auto add = [&](State s) {
        uint64_t h = s.hash();
        auto it = seen.find(h);
        if (it == seen.end()) { seen[h] = out.size(); out.push_back(std::move(s)); }
        else if (out[it->second].k < s.k) out[it->second] = std::move(s);
    };
    const size_t N = L.ops.size();
    if (kill) {
        for (size_t k = from; k <= N; k++) {
            State s; s.j = k; s.k = k; s.mode = "kill";
            // ops that leave the disk unchanged (marks, syncs) do not create a new disk state: normalise the cut
            // to just before the next disk-changing op, so the same state reached at a later k replaces it
            size_t jj = k;
            while (jj > from && (L.ops[jj - 1].kind == MARK || L.ops[jj - 1].kind == FSYNC)) jj--;
            s.j = jj;
            add(s);
            if (torn && k < N && L.ops[k].kind == WRITE && L.ops[k].data.size() >= 2) {
                size_t n = L.ops[k].data.size();
                for (size_t keep : {(size_t)1, n / 2, n - 1}) {
                    State t; t.j = k; t.k = k + 1; t.mode = "kill"; t.torn_index = (long)k; t.torn_bytes = keep;
                    add(t);
                }
            }
        }
    }
    if (powerloss) {
        // crash points that matter: k right after a sync (durability only changes there), and the end
        std::vector<size_t> ks;
        for (size_t i = from; i < N; i++) if (L.ops[i].kind == FSYNC) ks.push_back(i + 1);
        ks.push_back(N);
        for (size_t j = from; j <= N; j++) {
            size_t jj = j;
            while (jj > from && (L.ops[jj - 1].kind == MARK || L.ops[jj - 1].kind == FSYNC)) jj--;
            for (size_t k : ks) {
                if (k < j) continue;
                State s; s.j = jj; s.k = k; s.mode = "powerloss";
                for (size_t i = j; i < k; i++) if (Durable(L, i, k)) s.extra.push_back(i);
                add(s);
            }
        }
    }
    return out;
}

} // namespace vxc
