// forksim.h — VX-STATE with fork-per-transition over a live single-threaded process image.
//
// The explorer holds state S (the whole process: real node + reference model). For every enabled event it
// fork()s; the child applies the event through the real entry point, evaluates the invariants, computes the
// canonical key and consults the MAP_SHARED visited table; a new state recurses (the child *becomes* the
// holder of that state), a seen one exits. Depth-first, bounded depth; the visited table stores the largest
// remaining depth a state was expanded with, so a state first met deep in the tree is re-expanded when it is
// met again nearer the root (no state is lost to the DFS order).
//
// Parallelism: W workers are forked from the root; each owns a private copy of whatever on-disk state the
// harness has (callback `on_worker_start`), explores the *whole* tree but takes, at depth `split_depth`,
// only the branches whose running index is ≡ worker (mod W). The visited table is shared, so work below
// the split is not duplicated.
#pragma once
#include <vx/vx.h>
#include <sys/mman.h>
#include <sys/wait.h>
#include <fcntl.h>
#include <signal.h>
#include <dirent.h>

namespace vx {

struct ForkShared {
    std::atomic<uint64_t> states, transitions, pruned, max_depth, violations, child_crashes, deadline_hit, branch_ctr;
    std::atomic<uint64_t> outcome_classes[16]; // harness-defined outcome counters (sanity gates)
};

class ForkSim
{
public:
    // ---- harness callbacks
    std::function<std::vector<std::string>()> events;           // labels of the events enabled in the current state
    std::function<void(const std::string&)> apply;              // apply one event to the real system + reference model, check invariants
    std::function<uint64_t()> key;                              // canonical key of the current state
    std::function<void()> post = [] {};                         // runs in the holder of a state after its subtree is done (may mutate freely)
    std::function<void(unsigned)> on_worker_start = [](unsigned) {};
    int max_depth = 3;
    int split_depth = 1;
    unsigned workers = 0; // 0 = ncpu
    size_t table_bits = 22;
    double budget_s = 0; // >0: stop expanding once vx::elapsed() exceeds this (a part of a check with its own share of the deadline)

    ForkShared* sh = nullptr;
    std::vector<std::string> hist; // history of the current process
    unsigned worker_id = 0;
    int log_fd = -1;
    std::string log_path;

    // report from any process; the root turns log lines into vx::violation() calls
    void report(const std::string& k, const std::string& what)
    {
        sh->violations++;
        std::string line = "V\t" + k + "\t" + what + "\t";
        for (size_t i = 0; i < hist.size(); i++) line += (i ? " | " : "") + hist[i];
        line += "\n";
        for (auto& c : line) if (c == '\r') c = ' ';
        if (line.size() > 3900) { line.resize(3900); line += "\n"; }
        (void)!write(log_fd, line.data(), line.size());
    }
    void note_sample(const std::string& s)
    {
        std::string line = "S\t" + s + "\n";
        if (line.size() > 3900) { line.resize(3900); line += "\n"; }
        (void)!write(log_fd, line.data(), line.size());
    }
    std::string hist_str() const
    {
        std::string s;
        for (size_t i = 0; i < hist.size(); i++) s += (i ? " | " : "") + hist[i];
        return s;
    }

    void run()
    {
        if (workers == 0) workers = ncpu();
        size_t n = (size_t)1 << table_bits;
        table = (std::atomic<uint64_t>*)mmap(nullptr, n * 8, PROT_READ | PROT_WRITE, MAP_SHARED | MAP_ANONYMOUS, -1, 0);
        sh = (ForkShared*)mmap(nullptr, sizeof(ForkShared), PROT_READ | PROT_WRITE, MAP_SHARED | MAP_ANONYMOUS, -1, 0);
        if (table == MAP_FAILED || sh == MAP_FAILED) throw std::runtime_error("forksim: mmap failed");
        mask = n - 1;
        std::string dir = ctx().root + "/build/scratch";
        if (const char* e = getenv("VERIF_BUILD")) dir = std::string(e) + "/scratch";
        mkdir(dir.c_str(), 0755);
        log_path = dir + "/forksim_" + ctx().id + "_" + std::to_string(getpid()) + ".log";
        log_fd = open(log_path.c_str(), O_CREAT | O_TRUNC | O_WRONLY | O_APPEND, 0644);
        // root state
        visit(key(), max_depth);
        fflush(stdout);
        std::vector<pid_t> pids;
        for (unsigned w = 0; w < workers; w++) {
            pid_t p = fork();
            if (p < 0) throw std::runtime_error("forksim: fork failed");
            if (p == 0) {
                worker_id = w;
                on_worker_start(w);
                dfs(0);
                fflush(stdout);
                _exit(0);
            }
            pids.push_back(p);
        }
        for (pid_t p : pids) {
            int st = 0;
            waitpid(p, &st, 0);
            if (!WIFEXITED(st) || WEXITSTATUS(st) != 0) sh->child_crashes++;
        }
        close(log_fd);
        // fold results into the evidence / reporter
        Evidence& E = ev();
        E.states += sh->states.load();
        E.transitions += sh->transitions.load();
        E.traces_validated += sh->transitions.load();
        E.set("pruned_revisits", sh->pruned.load());
        E.set("max_depth", (uint64_t)max_depth);
        E.set("workers", (uint64_t)workers);
        if (sh->deadline_hit.load()) E.exhaustive = false;
        std::ifstream f(log_path);
        std::string line;
        while (std::getline(f, line)) {
            if (line.size() < 2) continue;
            if (line[0] == 'S') { E.sample(line.substr(2)); continue; }
            if (line[0] != 'V') continue;
            size_t a = line.find('\t', 2), b = a == std::string::npos ? a : line.find('\t', a + 1);
            if (b == std::string::npos) continue;
            violation(line.substr(2, a - 2), line.substr(a + 1, b - a - 1), "history: " + line.substr(b + 1));
        }
        unlink(log_path.c_str());
        if (sh->child_crashes.load() && rep().violations == 0)
            violation("forksim-child-crash", "an exploration process died abnormally without reporting (abort/assert/crash inside the code under test)", "see stdout of the run");
    }

    // sequential replay of a history in this process (no fork)
    void replay(const std::vector<std::string>& h)
    {
        for (auto& e : h) { hist.push_back(e); apply(e); }
    }

private:
    std::atomic<uint64_t>* table = nullptr;
    size_t mask = 0;

    // returns true if the state must be expanded with `remaining` depth left
    bool visit(uint64_t k, int remaining)
    {
        uint64_t k56 = (k ^ (k >> 56)) & 0x00ffffffffffffffULL;
        if (k56 == 0) k56 = 1;
        size_t i = (k56 * 0x9E3779B97F4A7C15ULL >> 20) & mask;
        for (size_t probes = 0; probes <= mask; probes++, i = (i + 1) & mask) {
            uint64_t cur = table[i].load();
            for (;;) {
                if (cur == 0) {
                    uint64_t want = (k56 << 8) | (uint64_t)(remaining & 0xff);
                    if (table[i].compare_exchange_strong(cur, want)) { sh->states++; return true; }
                    continue; // cur reloaded
                }
                if ((cur >> 8) != k56) break; // other key: next probe
                int have = (int)(cur & 0xff);
                if (have >= remaining) { sh->pruned++; return false; }
                uint64_t want = (k56 << 8) | (uint64_t)(remaining & 0xff);
                if (table[i].compare_exchange_strong(cur, want)) return true;
            }
        }
        throw std::runtime_error("forksim: visited table full");
    }

    static int thread_count()
    {
        int n = 0;
        if (DIR* d = opendir("/proc/self/task")) { while (dirent* e = readdir(d)) if (e->d_name[0] != '.') n++; closedir(d); }
        return n;
    }
    void dfs(int depth)
    {
        if (depth >= max_depth) return;
        // fork() is only a sound snapshot of a single-threaded process (e.g. a full flush outside IBD may start a
        // LevelDB compaction thread): never expand from a process that grew a thread
        if (thread_count() != 1) { sh->deadline_hit = 1; note_sample("HARNESS-NOTE: a state holder had more than one thread; its subtree was not expanded (history: " + hist_str() + ")"); return; }
        if (deadline_reached() || (budget_s > 0 && elapsed() > budget_s)) { sh->deadline_hit = 1; return; }
        std::vector<std::string> evs = events();
        for (size_t ei = 0; ei < evs.size(); ei++) {
            if (depth == split_depth) {
                uint64_t b = fnv1a(hist_str()) + ei;
                if (b % workers != worker_id) continue;
            }
            fflush(stdout);
            pid_t p = fork();
            if (p < 0) { usleep(10000); ei--; continue; }
            if (p == 0) {
                hist.push_back(evs[ei]);
                if (depth >= split_depth || worker_id == 0) sh->transitions++; // above the split all workers walk the same path
                apply(evs[ei]);
                uint64_t md = sh->max_depth.load();
                while ((uint64_t)(depth + 1) > md && !sh->max_depth.compare_exchange_weak(md, depth + 1)) {}
                int remaining = max_depth - (depth + 1);
                // at and above the split every worker must walk the same path, so never prune there
                bool expand = depth + 1 <= split_depth ? (visit(key(), remaining), true) : visit(key(), remaining);
                if (expand) { dfs(depth + 1); if (depth >= split_depth || worker_id == 0) post(); }
                fflush(stdout);
                _exit(0);
            }
            int st = 0;
            waitpid(p, &st, 0);
            if (!WIFEXITED(st) || WEXITSTATUS(st) != 0) {
                hist.push_back(evs[ei]);
                std::string why = WIFSIGNALED(st) ? "signal " + std::to_string(WTERMSIG(st)) : "exit " + std::to_string(WEXITSTATUS(st));
                report("process-died:" + evs[ei], "the process applying this event died (" + why + "): abort/assert/crash in the code under test");
                hist.pop_back();
            }
        }
    }
};

} // namespace vx
