"""Independent reference interpreter for Bitcoin Script (used by check C12).

Written from the protocol rules (Script wiki page, BIP16, BIP62 rules, BIP65, BIP66, BIP112, BIP141, BIP143
scriptCode rules, BIP146, BIP147, BIP341, BIP342), not from the C++ sources.  Numbers are Python ints, limits are
explicit constants.  Signatures are judged by a *rule-based fake checker* (see `fake_ecdsa`, `fake_schnorr`) so that
no elliptic-curve code is needed inside the interpreter; the only EC use is the taproot commitment check, done with
the vendored test_framework/key.py.

API
    eval_script(stack, script, flags, sigversion, ctx) -> (ok, err, final_stack)
    verify_script(script_sig, script_pubkey, witness, flags, ctx) -> (ok, err)
`flags` is an int bitmask over FLAG_NAMES (own numbering, by name), `err` is the name of the failure reason.
"""
import hashlib
import zlib

# ---------------------------------------------------------------------------------------------------------- flags
FLAG_NAMES = [
    'P2SH', 'STRICTENC', 'DERSIG', 'LOW_S', 'NULLDUMMY', 'SIGPUSHONLY', 'MINIMALDATA', 'DISCOURAGE_UPGRADABLE_NOPS',
    'CLEANSTACK', 'CHECKLOCKTIMEVERIFY', 'CHECKSEQUENCEVERIFY', 'WITNESS', 'DISCOURAGE_UPGRADABLE_WITNESS_PROGRAM',
    'MINIMALIF', 'NULLFAIL', 'WITNESS_PUBKEYTYPE', 'CONST_SCRIPTCODE', 'TAPROOT', 'DISCOURAGE_UPGRADABLE_TAPROOT_VERSION',
    'DISCOURAGE_OP_SUCCESS', 'DISCOURAGE_UPGRADABLE_PUBKEYTYPE',
]
F = {n: 1 << i for i, n in enumerate(FLAG_NAMES)}
F_P2SH = F['P2SH']; F_STRICTENC = F['STRICTENC']; F_DERSIG = F['DERSIG']; F_LOW_S = F['LOW_S']
F_NULLDUMMY = F['NULLDUMMY']; F_SIGPUSHONLY = F['SIGPUSHONLY']; F_MINIMALDATA = F['MINIMALDATA']
F_NOPS = F['DISCOURAGE_UPGRADABLE_NOPS']; F_CLEANSTACK = F['CLEANSTACK']; F_CLTV = F['CHECKLOCKTIMEVERIFY']
F_CSV = F['CHECKSEQUENCEVERIFY']; F_WITNESS = F['WITNESS']; F_DWP = F['DISCOURAGE_UPGRADABLE_WITNESS_PROGRAM']
F_MINIMALIF = F['MINIMALIF']; F_NULLFAIL = F['NULLFAIL']; F_WPKT = F['WITNESS_PUBKEYTYPE']
F_CONSTSC = F['CONST_SCRIPTCODE']; F_TAPROOT = F['TAPROOT']; F_DTV = F['DISCOURAGE_UPGRADABLE_TAPROOT_VERSION']
F_DOS = F['DISCOURAGE_OP_SUCCESS']; F_DPK = F['DISCOURAGE_UPGRADABLE_PUBKEYTYPE']

# the documented flag sets (policy/policy.h documentation: mandatory = consensus soft forks, standard = + policy)
MANDATORY = F_P2SH | F_DERSIG | F_NULLDUMMY | F_CLTV | F_CSV | F_WITNESS | F_TAPROOT
STANDARD = (MANDATORY | F_STRICTENC | F_MINIMALDATA | F_NOPS | F_CLEANSTACK | F_MINIMALIF | F_NULLFAIL | F_LOW_S |
            F_DWP | F_WPKT | F_CONSTSC | F_DTV | F_DOS | F_DPK)


def flags_valid(f):
    """Flag combinations the interpreter accepts as input (CLEANSTACK needs P2SH and WITNESS, WITNESS needs P2SH)."""
    if f & F_CLEANSTACK and not (f & F_P2SH and f & F_WITNESS): return False
    if f & F_WITNESS and not f & F_P2SH: return False
    return True

# ------------------------------------------------------------------------------------------------------ constants
BASE, WITNESS_V0, TAPROOT, TAPSCRIPT = 0, 1, 2, 3
MAX_ELEMENT = 520
MAX_OPS = 201
MAX_PUBKEYS = 20
MAX_SCRIPT = 10000
MAX_STACK = 1000
LOCKTIME_THRESHOLD = 500000000
SEQ_FINAL = 0xffffffff
SEQ_DISABLE = 1 << 31
SEQ_TYPE = 1 << 22
SEQ_MASK = 0xffff
ANNEX_TAG = 0x50
WEIGHT_PER_SIGOP = 50
WEIGHT_OFFSET = 50
HALF_ORDER = 0x7FFFFFFFFFFFFFFFFFFFFFFFFFFFFFFF5D576E7357A4501DDFE92F46681B20A0
ORDER = 0xFFFFFFFFFFFFFFFFFFFFFFFFFFFFFFFEBAAEDCE6AF48A03BBFD25E8CD0364141

OP_0 = 0x00; OP_PUSHDATA1 = 0x4c; OP_PUSHDATA2 = 0x4d; OP_PUSHDATA4 = 0x4e; OP_1NEGATE = 0x4f; OP_RESERVED = 0x50
OP_1 = 0x51; OP_16 = 0x60
OP_NOP = 0x61; OP_VER = 0x62; OP_IF = 0x63; OP_NOTIF = 0x64; OP_VERIF = 0x65; OP_VERNOTIF = 0x66; OP_ELSE = 0x67
OP_ENDIF = 0x68; OP_VERIFY = 0x69; OP_RETURN = 0x6a
OP_TOALTSTACK = 0x6b; OP_FROMALTSTACK = 0x6c; OP_2DROP = 0x6d; OP_2DUP = 0x6e; OP_3DUP = 0x6f; OP_2OVER = 0x70
OP_2ROT = 0x71; OP_2SWAP = 0x72; OP_IFDUP = 0x73; OP_DEPTH = 0x74; OP_DROP = 0x75; OP_DUP = 0x76; OP_NIP = 0x77
OP_OVER = 0x78; OP_PICK = 0x79; OP_ROLL = 0x7a; OP_ROT = 0x7b; OP_SWAP = 0x7c; OP_TUCK = 0x7d
OP_CAT = 0x7e; OP_SUBSTR = 0x7f; OP_LEFT = 0x80; OP_RIGHT = 0x81; OP_SIZE = 0x82
OP_INVERT = 0x83; OP_AND = 0x84; OP_OR = 0x85; OP_XOR = 0x86; OP_EQUAL = 0x87; OP_EQUALVERIFY = 0x88
OP_RESERVED1 = 0x89; OP_RESERVED2 = 0x8a
OP_1ADD = 0x8b; OP_1SUB = 0x8c; OP_2MUL = 0x8d; OP_2DIV = 0x8e; OP_NEGATE = 0x8f; OP_ABS = 0x90; OP_NOT = 0x91
OP_0NOTEQUAL = 0x92; OP_ADD = 0x93; OP_SUB = 0x94; OP_MUL = 0x95; OP_DIV = 0x96; OP_MOD = 0x97; OP_LSHIFT = 0x98
OP_RSHIFT = 0x99; OP_BOOLAND = 0x9a; OP_BOOLOR = 0x9b; OP_NUMEQUAL = 0x9c; OP_NUMEQUALVERIFY = 0x9d
OP_NUMNOTEQUAL = 0x9e; OP_LESSTHAN = 0x9f; OP_GREATERTHAN = 0xa0; OP_LESSTHANOREQUAL = 0xa1
OP_GREATERTHANOREQUAL = 0xa2; OP_MIN = 0xa3; OP_MAX = 0xa4; OP_WITHIN = 0xa5
OP_RIPEMD160 = 0xa6; OP_SHA1 = 0xa7; OP_SHA256 = 0xa8; OP_HASH160 = 0xa9; OP_HASH256 = 0xaa
OP_CODESEPARATOR = 0xab; OP_CHECKSIG = 0xac; OP_CHECKSIGVERIFY = 0xad; OP_CHECKMULTISIG = 0xae
OP_CHECKMULTISIGVERIFY = 0xaf
OP_NOP1 = 0xb0; OP_CLTV = 0xb1; OP_CSV = 0xb2; OP_NOP4 = 0xb3; OP_NOP10 = 0xb9; OP_CHECKSIGADD = 0xba

DISABLED = frozenset([OP_CAT, OP_SUBSTR, OP_LEFT, OP_RIGHT, OP_INVERT, OP_AND, OP_OR, OP_XOR, OP_2MUL, OP_2DIV,
                      OP_MUL, OP_DIV, OP_MOD, OP_LSHIFT, OP_RSHIFT])

# BIP342: OP_SUCCESSx = 80, 98, 126-129, 131-134, 137-138, 141-142, 149-153, 187-254
OP_SUCCESS = frozenset([80, 98] + list(range(126, 130)) + list(range(131, 135)) + [137, 138, 141, 142] +
                       list(range(149, 154)) + list(range(187, 255)))

# ------------------------------------------------------------------------------------------- error names + classes
# class granularity used when comparing with the implementation (the groups of the error list in the protocol docs)
ERR_CLASS = {
    'OK': 'ok', 'UNKNOWN_ERROR': 'unknown', 'EVAL_FALSE': 'eval_false', 'OP_RETURN': 'op_return',
    'SCRIPTNUM': 'scriptnum',
    'SCRIPT_SIZE': 'size', 'PUSH_SIZE': 'size', 'OP_COUNT': 'size', 'STACK_SIZE': 'size', 'SIG_COUNT': 'size',
    'PUBKEY_COUNT': 'size',
    'VERIFY': 'verify', 'EQUALVERIFY': 'verify', 'CHECKMULTISIGVERIFY': 'verify', 'CHECKSIGVERIFY': 'verify',
    'NUMEQUALVERIFY': 'verify',
    'BAD_OPCODE': 'logic', 'DISABLED_OPCODE': 'logic', 'INVALID_STACK_OPERATION': 'logic',
    'INVALID_ALTSTACK_OPERATION': 'logic', 'UNBALANCED_CONDITIONAL': 'logic',
    'NEGATIVE_LOCKTIME': 'locktime', 'UNSATISFIED_LOCKTIME': 'locktime',
    'SIG_HASHTYPE': 'malleability', 'SIG_DER': 'malleability', 'MINIMALDATA': 'malleability',
    'SIG_PUSHONLY': 'malleability', 'SIG_HIGH_S': 'malleability', 'SIG_NULLDUMMY': 'malleability',
    'PUBKEYTYPE': 'malleability', 'CLEANSTACK': 'malleability', 'MINIMALIF': 'malleability',
    'SIG_NULLFAIL': 'malleability',
    'DISCOURAGE_UPGRADABLE_NOPS': 'discourage', 'DISCOURAGE_UPGRADABLE_WITNESS_PROGRAM': 'discourage',
    'DISCOURAGE_UPGRADABLE_TAPROOT_VERSION': 'discourage', 'DISCOURAGE_OP_SUCCESS': 'discourage',
    'DISCOURAGE_UPGRADABLE_PUBKEYTYPE': 'discourage',
    'WITNESS_PROGRAM_WRONG_LENGTH': 'witness', 'WITNESS_PROGRAM_WITNESS_EMPTY': 'witness',
    'WITNESS_PROGRAM_MISMATCH': 'witness', 'WITNESS_MALLEATED': 'witness', 'WITNESS_MALLEATED_P2SH': 'witness',
    'WITNESS_UNEXPECTED': 'witness', 'WITNESS_PUBKEYTYPE': 'witness',
    'SCHNORR_SIG_SIZE': 'taproot', 'SCHNORR_SIG_HASHTYPE': 'taproot', 'SCHNORR_SIG': 'taproot',
    'TAPROOT_WRONG_CONTROL_SIZE': 'taproot', 'TAPSCRIPT_VALIDATION_WEIGHT': 'taproot',
    'TAPSCRIPT_CHECKMULTISIG': 'taproot', 'TAPSCRIPT_MINIMALIF': 'taproot', 'TAPSCRIPT_EMPTY_PUBKEY': 'taproot',
    'OP_CODESEPARATOR': 'constscriptcode', 'SIG_FINDANDDELETE': 'constscriptcode',
}


class ScriptFail(Exception):
    def __init__(self, err):
        self.err = err


# ------------------------------------------------------------------------------------------------------- numbers
def num_decode(b, minimal, max_size=4):
    """Script number: little-endian sign-magnitude, at most max_size bytes; optional minimal-encoding rule."""
    n = len(b)
    if n > max_size:
        raise ScriptFail('SCRIPTNUM')
    if n == 0:
        return 0
    if minimal:
        # the most significant byte may be 0x00/0x80 only if needed to hold the sign bit
        if b[-1] & 0x7f == 0:
            if n == 1 or not (b[-2] & 0x80):
                raise ScriptFail('SCRIPTNUM')
    v = int.from_bytes(b, 'little')
    if b[-1] & 0x80:
        return -(v & ~(0x80 << (8 * (n - 1))))
    return v


def num_encode(v):
    if v == 0:
        return b''
    a = -v if v < 0 else v
    out = bytearray()
    while a:
        out.append(a & 0xff)
        a >>= 8
    if out[-1] & 0x80:
        out.append(0x80 if v < 0 else 0)
    elif v < 0:
        out[-1] |= 0x80
    return bytes(out)


_NUM_CACHE = {v: num_encode(v) for v in range(-1, 1100)}
TRUE = b'\x01'
FALSE = b''


def as_bool(b):
    """False iff all bytes are zero, where the last byte may also be 0x80 (negative zero)."""
    n = len(b)
    for i in range(n):
        if b[i] != 0:
            return not (i == n - 1 and b[i] == 0x80)
    return False


# --------------------------------------------------------------------------------------------------- script parsing
def parse_op(script, pc):
    """Returns (opcode, data_or_None, next_pc) or None when the script is truncated."""
    n = len(script)
    if pc >= n:
        return None
    op = script[pc]
    pc += 1
    if op > OP_PUSHDATA4:
        return op, None, pc
    if op < OP_PUSHDATA1:
        size = op
    elif op == OP_PUSHDATA1:
        if n - pc < 1: return None
        size = script[pc]; pc += 1
    elif op == OP_PUSHDATA2:
        if n - pc < 2: return None
        size = script[pc] | script[pc + 1] << 8; pc += 2
    else:
        if n - pc < 4: return None
        size = int.from_bytes(script[pc:pc + 4], 'little'); pc += 4
    if n - pc < size:
        return None
    return op, script[pc:pc + size], pc + size


def push_data(b):
    """Serialisation of a data push with the shortest length prefix (no OP_N conversion)."""
    n = len(b)
    if n < OP_PUSHDATA1: return bytes([n]) + b
    if n <= 0xff: return bytes([OP_PUSHDATA1, n]) + b
    if n <= 0xffff: return bytes([OP_PUSHDATA2, n & 0xff, n >> 8]) + b
    return bytes([OP_PUSHDATA4]) + n.to_bytes(4, 'little') + b


def minimal_push(op, data):
    """BIP62 rule 3: was the shortest possible push opcode used?"""
    n = len(data)
    if n == 0: return op == OP_0
    if n == 1 and 1 <= data[0] <= 16: return False      # OP_1..OP_16
    if n == 1 and data[0] == 0x81: return False         # OP_1NEGATE
    if n <= 75: return op == n
    if n <= 255: return op == OP_PUSHDATA1
    if n <= 65535: return op == OP_PUSHDATA2
    return True


def is_push_only(script):
    pc = 0
    while pc < len(script):
        r = parse_op(script, pc)
        if r is None: return False
        if r[0] > OP_16: return False
        pc = r[2]
    return True


def is_p2sh(spk):
    return len(spk) == 23 and spk[0] == OP_HASH160 and spk[1] == 20 and spk[22] == OP_EQUAL


def witness_program(spk):
    """BIP141: 1-byte version push (OP_0, OP_1..OP_16) followed by one direct push of 2..40 bytes."""
    if len(spk) < 4 or len(spk) > 42: return None
    if spk[0] != OP_0 and not (OP_1 <= spk[0] <= OP_16): return None
    if spk[1] + 2 != len(spk): return None
    return (0 if spk[0] == 0 else spk[0] - 0x50), bytes(spk[2:])


def find_and_delete(script, pat):
    """Remove every occurrence of `pat` that starts at an opcode boundary (legacy sighash rule). Returns (new, count)."""
    if not pat:
        return script, 0
    out = bytearray()
    pc = 0
    found = 0
    lp = len(pat)
    while True:
        while script[pc:pc + lp] == pat:
            pc += lp
            found += 1
        r = parse_op(script, pc)
        if r is None:
            break
        out += script[pc:r[2]]
        pc = r[2]
    out += script[pc:]
    return (bytes(out), found) if found else (script, 0)


# ------------------------------------------------------------------------------------------ signature/pubkey encodings
def is_strict_der(sig):
    """BIP66 encoding of <DER signature><hashtype>."""
    n = len(sig)
    if n < 9 or n > 73: return False
    if sig[0] != 0x30: return False
    if sig[1] != n - 3: return False
    lr = sig[3]
    if 5 + lr >= n: return False
    ls = sig[5 + lr]
    if lr + ls + 7 != n: return False
    if sig[2] != 0x02: return False
    if lr == 0: return False
    if sig[4] & 0x80: return False
    if lr > 1 and sig[4] == 0 and not sig[5] & 0x80: return False
    if sig[lr + 4] != 0x02: return False
    if ls == 0: return False
    if sig[lr + 6] & 0x80: return False
    if ls > 1 and sig[lr + 6] == 0 and not sig[lr + 7] & 0x80: return False
    return True


def der_s_value(sig):
    lr = sig[3]
    ls = sig[5 + lr]
    return int.from_bytes(sig[6 + lr:6 + lr + ls], 'big')


def der_r_value(sig):
    return int.from_bytes(sig[4:4 + sig[3]], 'big')


def check_sig_encoding(sig, flags):
    if len(sig) == 0:
        return
    if flags & (F_DERSIG | F_LOW_S | F_STRICTENC) and not is_strict_der(sig):
        raise ScriptFail('SIG_DER')
    if flags & F_LOW_S:
        # BIP146/BIP62 rule 5.  (R or S not below the group order are outside the compared space, see check.py.)
        if der_s_value(sig) > HALF_ORDER:
            raise ScriptFail('SIG_HIGH_S')
    if flags & F_STRICTENC:
        ht = sig[-1] & ~0x80
        if ht < 1 or ht > 3:
            raise ScriptFail('SIG_HASHTYPE')


def is_comp_or_uncomp(pk):
    if len(pk) < 33: return False
    if pk[0] == 4: return len(pk) == 65
    if pk[0] in (2, 3): return len(pk) == 33
    return False


def check_pubkey_encoding(pk, flags, sigversion):
    if flags & F_STRICTENC and not is_comp_or_uncomp(pk):
        raise ScriptFail('PUBKEYTYPE')
    if flags & F_WPKT and sigversion == WITNESS_V0 and not (len(pk) == 33 and pk[0] in (2, 3)):
        raise ScriptFail('WITNESS_PUBKEYTYPE')


# ------------------------------------------------------------------------------------------------ the fake checker
class Ctx:
    """Transaction-side context of one evaluation + the BIP341/342 execution data."""
    __slots__ = ('locktime', 'sequence', 'version', 'weight_left', 'tapleaf_hash', 'codesep_pos', 'annex_present',
                 'annex_hash')

    def __init__(self, locktime=0, sequence=0, version=2, weight_left=0):
        self.locktime = locktime
        self.sequence = sequence
        self.version = version
        self.weight_left = weight_left
        self.tapleaf_hash = bytes(32)
        self.codesep_pos = 0xffffffff
        self.annex_present = False
        self.annex_hash = bytes(32)


def fake_ecdsa(sig, pubkey, script_code, sigversion):
    """Rule of the fake checker (same rule is compiled into the C++ harness): a pure function of everything the
    interpreter hands to the checker."""
    if not sig or not pubkey:
        return False
    msg = len(sig).to_bytes(2, 'little') + sig + len(pubkey).to_bytes(2, 'little') + pubkey + bytes([sigversion]) + script_code
    return zlib.crc32(msg) % 3 == 0


def fake_schnorr(sig, pubkey, sigversion, ctx):
    """Returns None if valid, else the error name. Size/hashtype rules as in BIP341; validity by CRC rule."""
    if len(sig) not in (64, 65):
        return 'SCHNORR_SIG_SIZE'
    if len(sig) == 65 and sig[64] not in (1, 2, 3, 0x81, 0x82, 0x83):
        return 'SCHNORR_SIG_HASHTYPE'
    msg = sig + pubkey + bytes([sigversion])
    if sigversion == TAPSCRIPT:
        msg += ctx.tapleaf_hash + ctx.codesep_pos.to_bytes(4, 'little')
    msg += bytes([1 if ctx.annex_present else 0])
    if ctx.annex_present:
        msg += ctx.annex_hash
    return None if zlib.crc32(msg) % 3 == 0 else 'SCHNORR_SIG'


def check_locktime(n, ctx):
    """BIP65."""
    if not ((ctx.locktime < LOCKTIME_THRESHOLD and n < LOCKTIME_THRESHOLD) or
            (ctx.locktime >= LOCKTIME_THRESHOLD and n >= LOCKTIME_THRESHOLD)):
        return False
    if n > ctx.locktime:
        return False
    if ctx.sequence == SEQ_FINAL:
        return False
    return True


def check_sequence(n, ctx):
    """BIP112."""
    if ctx.version < 2:
        return False
    if ctx.sequence & SEQ_DISABLE:
        return False
    mask = SEQ_TYPE | SEQ_MASK
    a = ctx.sequence & mask
    b = n & mask
    if not ((a < SEQ_TYPE and b < SEQ_TYPE) or (a >= SEQ_TYPE and b >= SEQ_TYPE)):
        return False
    return b <= a


def _sha256(b): return hashlib.sha256(b).digest()
def _ripemd160(b): return hashlib.new('ripemd160', b).digest()
def hash160(b): return _ripemd160(_sha256(b))
def hash256(b): return _sha256(_sha256(b))


def compact_size(n):
    if n < 253: return bytes([n])
    if n <= 0xffff: return b'\xfd' + n.to_bytes(2, 'little')
    if n <= 0xffffffff: return b'\xfe' + n.to_bytes(4, 'little')
    return b'\xff' + n.to_bytes(8, 'little')


def tagged_hash(tag, data):
    t = _sha256(tag.encode())
    return _sha256(t + t + data)


# -------------------------------------------------------------------------------------------------- the interpreter
def _checksig_legacy(sig, pubkey, script, codesep, flags, sigversion):
    """CHECKSIG for BASE / WITNESS_V0. Returns bool; raises ScriptFail."""
    script_code = script[codesep:]
    if sigversion == BASE:
        script_code, found = find_and_delete(script_code, push_data(sig))
        if found and flags & F_CONSTSC:
            raise ScriptFail('SIG_FINDANDDELETE')
    check_sig_encoding(sig, flags)
    check_pubkey_encoding(pubkey, flags, sigversion)
    ok = fake_ecdsa(sig, pubkey, script_code, sigversion)
    if not ok and flags & F_NULLFAIL and len(sig):
        raise ScriptFail('SIG_NULLFAIL')
    return ok


def _checksig_tapscript(sig, pubkey, flags, ctx):
    """BIP342 signature opcode rules."""
    ok = len(sig) != 0
    if ok:
        ctx.weight_left -= WEIGHT_PER_SIGOP
        if ctx.weight_left < 0:
            raise ScriptFail('TAPSCRIPT_VALIDATION_WEIGHT')
    if len(pubkey) == 0:
        raise ScriptFail('TAPSCRIPT_EMPTY_PUBKEY')
    if len(pubkey) == 32:
        if ok:
            e = fake_schnorr(sig, pubkey, TAPSCRIPT, ctx)
            if e: raise ScriptFail(e)
    else:
        if flags & F_DPK:
            raise ScriptFail('DISCOURAGE_UPGRADABLE_PUBKEYTYPE')
    return ok


def eval_script(stack, script, flags, sigversion, ctx):
    """Executes `script` on a copy of `stack`. Returns (ok, err, final_stack)."""
    stack = list(stack)
    try:
        _eval(stack, script, flags, sigversion, ctx)
    except ScriptFail as e:
        return False, e.err, stack
    return True, 'OK', stack


def _eval(stack, script, flags, sigversion, ctx):
    legacy = sigversion != TAPSCRIPT
    if legacy and len(script) > MAX_SCRIPT:
        raise ScriptFail('SCRIPT_SIZE')
    n = len(script)
    pc = 0
    alt = []
    cond = []          # one bool per open IF
    nfalse = 0         # number of False entries in cond
    opcount = 0
    codesep = 0
    opcode_pos = 0
    minimal = bool(flags & F_MINIMALDATA)
    ctx.codesep_pos = 0xffffffff
    push = stack.append
    pop = stack.pop

    while pc < n:
        fexec = nfalse == 0
        r = parse_op(script, pc)
        if r is None:
            raise ScriptFail('BAD_OPCODE')
        op, data, pc = r
        if data is not None and len(data) > MAX_ELEMENT:
            raise ScriptFail('PUSH_SIZE')
        if legacy and op > OP_16:
            opcount += 1
            if opcount > MAX_OPS:
                raise ScriptFail('OP_COUNT')
        if op in DISABLED:
            raise ScriptFail('DISABLED_OPCODE')
        if op == OP_CODESEPARATOR and sigversion == BASE and flags & F_CONSTSC:
            raise ScriptFail('OP_CODESEPARATOR')

        if data is not None:
            if fexec:
                if minimal and not minimal_push(op, data):
                    raise ScriptFail('MINIMALDATA')
                push(bytes(data))
        elif fexec or OP_IF <= op <= OP_ENDIF:
            if op == OP_1NEGATE or OP_1 <= op <= OP_16:
                push(_NUM_CACHE[op - 0x50])
            elif op == OP_NOP:
                pass
            elif op == OP_CLTV:
                if flags & F_CLTV:
                    if len(stack) < 1: raise ScriptFail('INVALID_STACK_OPERATION')
                    v = num_decode(stack[-1], minimal, 5)
                    if v < 0: raise ScriptFail('NEGATIVE_LOCKTIME')
                    if not check_locktime(v, ctx): raise ScriptFail('UNSATISFIED_LOCKTIME')
            elif op == OP_CSV:
                if flags & F_CSV:
                    if len(stack) < 1: raise ScriptFail('INVALID_STACK_OPERATION')
                    v = num_decode(stack[-1], minimal, 5)
                    if v < 0: raise ScriptFail('NEGATIVE_LOCKTIME')
                    if not v & SEQ_DISABLE:
                        if not check_sequence(v, ctx): raise ScriptFail('UNSATISFIED_LOCKTIME')
            elif op == OP_NOP1 or OP_NOP4 <= op <= OP_NOP10:
                if flags & F_NOPS: raise ScriptFail('DISCOURAGE_UPGRADABLE_NOPS')
            elif op == OP_IF or op == OP_NOTIF:
                val = False
                if fexec:
                    if len(stack) < 1: raise ScriptFail('INVALID_STACK_OPERATION')
                    top = stack[-1]
                    if sigversion == TAPSCRIPT:
                        if top != b'' and top != b'\x01': raise ScriptFail('TAPSCRIPT_MINIMALIF')
                    if sigversion == WITNESS_V0 and flags & F_MINIMALIF:
                        if top != b'' and top != b'\x01': raise ScriptFail('MINIMALIF')
                    val = as_bool(top)
                    if op == OP_NOTIF: val = not val
                    pop()
                cond.append(val)
                if not val: nfalse += 1
            elif op == OP_ELSE:
                if not cond: raise ScriptFail('UNBALANCED_CONDITIONAL')
                cond[-1] = not cond[-1]
                nfalse += -1 if cond[-1] else 1
            elif op == OP_ENDIF:
                if not cond: raise ScriptFail('UNBALANCED_CONDITIONAL')
                if not cond.pop(): nfalse -= 1
            elif op == OP_VERIFY:
                if len(stack) < 1: raise ScriptFail('INVALID_STACK_OPERATION')
                if not as_bool(stack[-1]): raise ScriptFail('VERIFY')
                pop()
            elif op == OP_RETURN:
                raise ScriptFail('OP_RETURN')
            elif op == OP_TOALTSTACK:
                if len(stack) < 1: raise ScriptFail('INVALID_STACK_OPERATION')
                alt.append(pop())
            elif op == OP_FROMALTSTACK:
                if len(alt) < 1: raise ScriptFail('INVALID_ALTSTACK_OPERATION')
                push(alt.pop())
            elif op == OP_2DROP:
                if len(stack) < 2: raise ScriptFail('INVALID_STACK_OPERATION')
                pop(); pop()
            elif op == OP_2DUP:
                if len(stack) < 2: raise ScriptFail('INVALID_STACK_OPERATION')
                stack.extend(stack[-2:])
            elif op == OP_3DUP:
                if len(stack) < 3: raise ScriptFail('INVALID_STACK_OPERATION')
                stack.extend(stack[-3:])
            elif op == OP_2OVER:
                if len(stack) < 4: raise ScriptFail('INVALID_STACK_OPERATION')
                stack.extend(stack[-4:-2])
            elif op == OP_2ROT:
                if len(stack) < 6: raise ScriptFail('INVALID_STACK_OPERATION')
                a = stack[-6:-4]
                del stack[-6:-4]
                stack.extend(a)
            elif op == OP_2SWAP:
                if len(stack) < 4: raise ScriptFail('INVALID_STACK_OPERATION')
                a = stack[-4:-2]
                del stack[-4:-2]
                stack.extend(a)
            elif op == OP_IFDUP:
                if len(stack) < 1: raise ScriptFail('INVALID_STACK_OPERATION')
                if as_bool(stack[-1]): push(stack[-1])
            elif op == OP_DEPTH:
                push(num_encode(len(stack)))
            elif op == OP_DROP:
                if len(stack) < 1: raise ScriptFail('INVALID_STACK_OPERATION')
                pop()
            elif op == OP_DUP:
                if len(stack) < 1: raise ScriptFail('INVALID_STACK_OPERATION')
                push(stack[-1])
            elif op == OP_NIP:
                if len(stack) < 2: raise ScriptFail('INVALID_STACK_OPERATION')
                del stack[-2]
            elif op == OP_OVER:
                if len(stack) < 2: raise ScriptFail('INVALID_STACK_OPERATION')
                push(stack[-2])
            elif op == OP_PICK or op == OP_ROLL:
                if len(stack) < 2: raise ScriptFail('INVALID_STACK_OPERATION')
                k = num_decode(stack[-1], minimal)
                pop()
                if k < 0 or k >= len(stack): raise ScriptFail('INVALID_STACK_OPERATION')
                x = stack[-k - 1]
                if op == OP_ROLL: del stack[-k - 1]
                push(x)
            elif op == OP_ROT:
                if len(stack) < 3: raise ScriptFail('INVALID_STACK_OPERATION')
                push(stack.pop(-3))
            elif op == OP_SWAP:
                if len(stack) < 2: raise ScriptFail('INVALID_STACK_OPERATION')
                push(stack.pop(-2))
            elif op == OP_TUCK:
                if len(stack) < 2: raise ScriptFail('INVALID_STACK_OPERATION')
                stack.insert(-2, stack[-1])
            elif op == OP_SIZE:
                if len(stack) < 1: raise ScriptFail('INVALID_STACK_OPERATION')
                push(num_encode(len(stack[-1])))
            elif op == OP_EQUAL or op == OP_EQUALVERIFY:
                if len(stack) < 2: raise ScriptFail('INVALID_STACK_OPERATION')
                b = pop(); a = pop()
                if op == OP_EQUAL:
                    push(TRUE if a == b else FALSE)
                elif a != b:
                    push(FALSE)
                    raise ScriptFail('EQUALVERIFY')
            elif OP_1ADD <= op <= OP_0NOTEQUAL:   # 2MUL/2DIV are disabled and were rejected above
                if len(stack) < 1: raise ScriptFail('INVALID_STACK_OPERATION')
                v = num_decode(stack[-1], minimal)
                if op == OP_1ADD: v += 1
                elif op == OP_1SUB: v -= 1
                elif op == OP_NEGATE: v = -v
                elif op == OP_ABS: v = abs(v)
                elif op == OP_NOT: v = 1 if v == 0 else 0
                else: v = 1 if v != 0 else 0
                stack[-1] = num_encode(v)
            elif OP_ADD <= op <= OP_MAX:          # MUL..RSHIFT are disabled and were rejected above
                if len(stack) < 2: raise ScriptFail('INVALID_STACK_OPERATION')
                a = num_decode(stack[-2], minimal)
                b = num_decode(stack[-1], minimal)
                if op == OP_ADD: v = a + b
                elif op == OP_SUB: v = a - b
                elif op == OP_BOOLAND: v = 1 if (a != 0 and b != 0) else 0
                elif op == OP_BOOLOR: v = 1 if (a != 0 or b != 0) else 0
                elif op == OP_NUMEQUAL or op == OP_NUMEQUALVERIFY: v = 1 if a == b else 0
                elif op == OP_NUMNOTEQUAL: v = 1 if a != b else 0
                elif op == OP_LESSTHAN: v = 1 if a < b else 0
                elif op == OP_GREATERTHAN: v = 1 if a > b else 0
                elif op == OP_LESSTHANOREQUAL: v = 1 if a <= b else 0
                elif op == OP_GREATERTHANOREQUAL: v = 1 if a >= b else 0
                elif op == OP_MIN: v = min(a, b)
                else: v = max(a, b)
                pop(); pop()
                if op == OP_NUMEQUALVERIFY:
                    if not v:
                        push(FALSE)
                        raise ScriptFail('NUMEQUALVERIFY')
                else:
                    push(num_encode(v))
            elif op == OP_WITHIN:
                if len(stack) < 3: raise ScriptFail('INVALID_STACK_OPERATION')
                x = num_decode(stack[-3], minimal)
                lo = num_decode(stack[-2], minimal)
                hi = num_decode(stack[-1], minimal)
                pop(); pop(); pop()
                push(TRUE if lo <= x < hi else FALSE)
            elif OP_RIPEMD160 <= op <= OP_HASH256:
                if len(stack) < 1: raise ScriptFail('INVALID_STACK_OPERATION')
                x = stack[-1]
                if op == OP_RIPEMD160: h = _ripemd160(x)
                elif op == OP_SHA1: h = hashlib.sha1(x).digest()
                elif op == OP_SHA256: h = _sha256(x)
                elif op == OP_HASH160: h = hash160(x)
                else: h = hash256(x)
                stack[-1] = h
            elif op == OP_CODESEPARATOR:
                codesep = pc
                ctx.codesep_pos = opcode_pos
            elif op == OP_CHECKSIG or op == OP_CHECKSIGVERIFY:
                if len(stack) < 2: raise ScriptFail('INVALID_STACK_OPERATION')
                if legacy:
                    ok = _checksig_legacy(stack[-2], stack[-1], script, codesep, flags, sigversion)
                else:
                    ok = _checksig_tapscript(stack[-2], stack[-1], flags, ctx)
                pop(); pop()
                if op == OP_CHECKSIG:
                    push(TRUE if ok else FALSE)
                elif not ok:
                    push(FALSE)
                    raise ScriptFail('CHECKSIGVERIFY')
            elif op == OP_CHECKSIGADD:
                if legacy: raise ScriptFail('BAD_OPCODE')
                if len(stack) < 3: raise ScriptFail('INVALID_STACK_OPERATION')
                v = num_decode(stack[-2], minimal)
                ok = _checksig_tapscript(stack[-3], stack[-1], flags, ctx)
                pop(); pop(); pop()
                push(num_encode(v + (1 if ok else 0)))
            elif op == OP_CHECKMULTISIG or op == OP_CHECKMULTISIGVERIFY:
                if not legacy: raise ScriptFail('TAPSCRIPT_CHECKMULTISIG')
                if len(stack) < 1: raise ScriptFail('INVALID_STACK_OPERATION')
                nkeys = num_decode(stack[-1], minimal)
                if nkeys < 0 or nkeys > MAX_PUBKEYS: raise ScriptFail('PUBKEY_COUNT')
                opcount += nkeys
                if opcount > MAX_OPS: raise ScriptFail('OP_COUNT')
                if len(stack) < 2 + nkeys: raise ScriptFail('INVALID_STACK_OPERATION')
                nsigs = num_decode(stack[-2 - nkeys], minimal)
                if nsigs < 0 or nsigs > nkeys: raise ScriptFail('SIG_COUNT')
                total = 3 + nkeys + nsigs          # n, keys, m, sigs, dummy
                if len(stack) < total: raise ScriptFail('INVALID_STACK_OPERATION')
                keys = stack[len(stack) - 1 - nkeys:len(stack) - 1][::-1]                    # evaluation order: top first
                sigs = stack[len(stack) - 2 - nkeys - nsigs:len(stack) - 2 - nkeys][::-1]
                script_code = script[codesep:]
                if sigversion == BASE:
                    for s in sigs:
                        script_code, found = find_and_delete(script_code, push_data(s))
                        if found and flags & F_CONSTSC: raise ScriptFail('SIG_FINDANDDELETE')
                ok = True
                isig = 0
                ikey = 0
                while ok and isig < nsigs:
                    s = sigs[isig]; k = keys[ikey]
                    check_sig_encoding(s, flags)
                    check_pubkey_encoding(k, flags, sigversion)
                    if fake_ecdsa(s, k, script_code, sigversion):
                        isig += 1
                    ikey += 1
                    if nsigs - isig > nkeys - ikey:
                        ok = False
                if not ok and flags & F_NULLFAIL:
                    for s in sigs:
                        if len(s): raise ScriptFail('SIG_NULLFAIL')
                dummy = stack[-total]
                if flags & F_NULLDUMMY and len(dummy): raise ScriptFail('SIG_NULLDUMMY')
                del stack[-total:]
                if op == OP_CHECKMULTISIG:
                    push(TRUE if ok else FALSE)
                elif not ok:
                    push(FALSE)
                    raise ScriptFail('CHECKMULTISIGVERIFY')
            else:
                # OP_RESERVED, OP_VER, OP_VERIF, OP_VERNOTIF, OP_RESERVED1/2, everything above OP_CHECKSIGADD
                raise ScriptFail('BAD_OPCODE')

        if len(stack) + len(alt) > MAX_STACK:
            raise ScriptFail('STACK_SIZE')
        opcode_pos += 1

    if cond:
        raise ScriptFail('UNBALANCED_CONDITIONAL')


# ------------------------------------------------------------------------------------------------- witness programs
def _taproot_commitment_ok(control, program, leaf_hash):
    from test_framework.key import tweak_add_pubkey
    k = leaf_hash
    for i in range((len(control) - 33) // 32):
        node = control[33 + 32 * i:65 + 32 * i]
        k = tagged_hash('TapBranch', k + node if k < node else node + k)
    p = control[1:33]
    t = tagged_hash('TapTweak', p + k)
    r = tweak_add_pubkey(p, t)
    if r is None:
        return False
    q, neg = r
    return q == program and neg == bool(control[0] & 1)


_COMMIT_CACHE = {}


def taproot_commitment_ok(control, program, leaf_hash):
    key = (bytes(control), bytes(program), leaf_hash)
    v = _COMMIT_CACHE.get(key)
    if v is None:
        v = _COMMIT_CACHE[key] = _taproot_commitment_ok(*key)
    return v


def _exec_witness_script(stack, script, flags, sigversion, ctx):
    if sigversion == TAPSCRIPT:
        pc = 0
        while pc < len(script):
            r = parse_op(script, pc)
            if r is None:
                raise ScriptFail('BAD_OPCODE')
            if r[0] in OP_SUCCESS:
                if flags & F_DOS: raise ScriptFail('DISCOURAGE_OP_SUCCESS')
                return
            pc = r[2]
        if len(stack) > MAX_STACK: raise ScriptFail('STACK_SIZE')
    for e in stack:
        if len(e) > MAX_ELEMENT: raise ScriptFail('PUSH_SIZE')
    stack = list(stack)
    _eval(stack, script, flags, sigversion, ctx)
    if len(stack) != 1: raise ScriptFail('CLEANSTACK')
    if not as_bool(stack[-1]): raise ScriptFail('EVAL_FALSE')


def _verify_witness_program(witness, version, program, flags, ctx, is_p2sh_wrapped):
    stack = list(witness)
    if version == 0:
        if len(program) == 32:
            if not stack: raise ScriptFail('WITNESS_PROGRAM_WITNESS_EMPTY')
            script = stack.pop()
            if _sha256(script) != program: raise ScriptFail('WITNESS_PROGRAM_MISMATCH')
            _exec_witness_script(stack, script, flags, WITNESS_V0, ctx)
        elif len(program) == 20:
            if len(stack) != 2: raise ScriptFail('WITNESS_PROGRAM_MISMATCH')
            script = bytes([OP_DUP, OP_HASH160, 20]) + program + bytes([OP_EQUALVERIFY, OP_CHECKSIG])
            _exec_witness_script(stack, script, flags, WITNESS_V0, ctx)
        else:
            raise ScriptFail('WITNESS_PROGRAM_WRONG_LENGTH')
        return
    if version == 1 and len(program) == 32 and not is_p2sh_wrapped:
        if not flags & F_TAPROOT:
            return
        if not stack: raise ScriptFail('WITNESS_PROGRAM_WITNESS_EMPTY')
        if len(stack) >= 2 and len(stack[-1]) > 0 and stack[-1][0] == ANNEX_TAG:
            annex = stack.pop()
            ctx.annex_present = True
            ctx.annex_hash = _sha256(compact_size(len(annex)) + annex)
        else:
            ctx.annex_present = False
        if len(stack) == 1:
            e = fake_schnorr(stack[0], program, TAPROOT, ctx)
            if e: raise ScriptFail(e)
            return
        control = stack.pop()
        script = stack.pop()
        if len(control) < 33 or len(control) > 33 + 32 * 128 or (len(control) - 33) % 32:
            raise ScriptFail('TAPROOT_WRONG_CONTROL_SIZE')
        leaf_ver = control[0] & 0xfe
        leaf_hash = tagged_hash('TapLeaf', bytes([leaf_ver]) + compact_size(len(script)) + script)
        if not taproot_commitment_ok(control, program, leaf_hash):
            raise ScriptFail('WITNESS_PROGRAM_MISMATCH')
        ctx.tapleaf_hash = leaf_hash
        if leaf_ver == 0xc0:
            ctx.weight_left = len(compact_size(len(witness))) + sum(len(compact_size(len(e))) + len(e) for e in witness) + WEIGHT_OFFSET
            _exec_witness_script(stack, script, flags, TAPSCRIPT, ctx)
            return
        if flags & F_DTV: raise ScriptFail('DISCOURAGE_UPGRADABLE_TAPROOT_VERSION')
        return
    if not is_p2sh_wrapped and version == 1 and program == b'\x4e\x73':
        return   # pay-to-anchor
    if flags & F_DWP: raise ScriptFail('DISCOURAGE_UPGRADABLE_WITNESS_PROGRAM')


def verify_script(script_sig, spk, witness, flags, ctx):
    """Full input verification (BIP16 + BIP141 + BIP341 dispatch). witness: list of bytes. Returns (ok, err)."""
    try:
        _verify(script_sig, spk, witness, flags, ctx)
    except ScriptFail as e:
        return False, e.err
    return True, 'OK'


def _verify(script_sig, spk, witness, flags, ctx):
    assert flags_valid(flags)
    if flags & F_SIGPUSHONLY and not is_push_only(script_sig):
        raise ScriptFail('SIG_PUSHONLY')
    stack = []
    _eval(stack, script_sig, flags, BASE, ctx)
    saved = list(stack)
    _eval(stack, spk, flags, BASE, ctx)
    if not stack or not as_bool(stack[-1]):
        raise ScriptFail('EVAL_FALSE')
    had_witness = False
    if flags & F_WITNESS:
        wp = witness_program(spk)
        if wp is not None:
            had_witness = True
            if len(script_sig): raise ScriptFail('WITNESS_MALLEATED')
            _verify_witness_program(witness, wp[0], wp[1], flags, ctx, False)
            del stack[1:]
    if flags & F_P2SH and is_p2sh(spk):
        if not is_push_only(script_sig): raise ScriptFail('SIG_PUSHONLY')
        stack = saved
        redeem = stack.pop()
        _eval(stack, redeem, flags, BASE, ctx)
        if not stack or not as_bool(stack[-1]):
            raise ScriptFail('EVAL_FALSE')
        if flags & F_WITNESS:
            wp = witness_program(redeem)
            if wp is not None:
                had_witness = True
                if script_sig != push_data(redeem): raise ScriptFail('WITNESS_MALLEATED_P2SH')
                _verify_witness_program(witness, wp[0], wp[1], flags, ctx, True)
                del stack[1:]
    if flags & F_CLEANSTACK and len(stack) != 1:
        raise ScriptFail('CLEANSTACK')
    if flags & F_WITNESS and not had_witness and len(witness):
        raise ScriptFail('WITNESS_UNEXPECTED')


# --------------------------------------------------------------------------------------------------- self test
if __name__ == '__main__':
    for v in list(range(-70000, 70000, 7)) + [2**31 - 1, -2**31 + 1, 2**31, -2**31, 2**39 - 1]:
        assert num_decode(num_encode(v), True, 5) == v, v
    assert num_encode(-1) == b'\x81' and num_encode(128) == b'\x80\x00' and num_encode(-128) == b'\x80\x80'
    assert not as_bool(b'\x00\x80') and as_bool(b'\x80\x00')
    ok, err, st = eval_script([], bytes([OP_1, OP_1, OP_ADD, 0x52, OP_EQUAL]), 0, BASE, Ctx())
    assert ok and st == [b'\x01']
    print('ref_script self test ok')
