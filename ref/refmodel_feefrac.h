// refmodel_feefrac.h — reference for property C30 (feerate arithmetic), independent of /repo.
// Everything is stated by its definition over exact integers (__int128): a fee is < 2^63 in magnitude and a size
// < 2^31, so every cross product fits in 96 bits and every doubly cross-multiplied value used below in < 2^127.
#pragma once
#include <cstdint>
#include <utility>
#include <vector>

namespace reffee {

using i128 = __int128;
struct FS { int64_t fee; int32_t size; };

inline int sgn(i128 v) { return v < 0 ? -1 : v > 0 ? 1 : 0; }

// order of the rationals a.fee/a.size and b.fee/b.size (sizes > 0): -1, 0, +1
inline int ratio_cmp(FS a, FS b) { return sgn((i128)a.fee * b.size - (i128)b.fee * a.size); }

// "ByRatio": pure feerate order; a FeeFrac with size 0 is neither below nor above anything.
inline int by_ratio(FS a, FS b) { return (a.size == 0 || b.size == 0) ? 0 : ratio_cmp(a, b); }

// "ByRatioNegSize": feerate first, on equal feerate the larger size sorts first; the empty FeeFrac sorts last.
inline int by_ratio_neg_size(FS a, FS b)
{
    if (a.size == 0 && b.size == 0) return 0;
    if (a.size == 0) return 1;
    if (b.size == 0) return -1;
    if (int c = ratio_cmp(a, b)) return c;
    return a.size > b.size ? -1 : a.size < b.size ? 1 : 0;
}

// Is q == floor(n/d) (down) resp. ceil(n/d) (!down), d > 0?  Stated by the defining inequalities, no division.
inline bool is_rounded_quotient(i128 n, int64_t d, bool down, int64_t q)
{
    i128 lo = (i128)q * d;
    return down ? (lo <= n && n < lo + d) : (lo - d < n && n <= lo);
}
// Does the rounded quotient fit in int64?  (2^63 * d <= 2^94, no overflow)
inline bool quotient_fits(i128 n, int64_t d, bool down)
{
    const i128 mn = -((i128)1 << 63), mx = ((i128)1 << 63) - 1;
    // floor(n/d) >= mn  <=>  n >= mn*d ;  floor(n/d) <= mx  <=>  n < (mx+1)*d
    // ceil(n/d)  >= mn  <=>  n > (mn-1)*d ; ceil(n/d) <= mx  <=>  n <= mx*d
    return down ? (n >= mn * d && n < (mx + 1) * d) : (n > (mn - 1) * d && n <= mx * d);
}

// ---- feerate diagrams ------------------------------------------------------------------------------------
// Diagram of a chunk list: starts at (0,0), one point per chunk at the cumulative (size, fee), straight lines in
// between, horizontal after the last point.  value(x) = num/den exactly, den > 0.
struct Rat { i128 num, den; };
inline Rat diagram_at(const std::vector<FS>& chunks, int64_t x)
{
    int64_t s = 0;
    i128 f = 0;
    for (const FS& c : chunks) {
        if (x <= s + c.size) return {f * c.size + (i128)c.fee * (x - s), c.size}; // on the segment (s,f) -> (s+size, f+fee)
        s += c.size;
        f += c.fee;
    }
    return {f, 1};
}
// 0 equal everywhere, +1: d0 >= d1 everywhere and > somewhere, -1: the reverse, 2: neither (incomparable).
// Both functions are linear between consecutive points of xs when xs contains every breakpoint of both, and
// constant beyond the last breakpoint, so comparing at xs decides the comparison for all real x >= 0.
inline int compare_diagrams(const std::vector<FS>& d0, const std::vector<FS>& d1, const std::vector<int64_t>& xs)
{
    bool better0 = false, better1 = false;
    for (int64_t x : xs) {
        Rat a = diagram_at(d0, x), b = diagram_at(d1, x);
        int c = sgn(a.num * b.den - b.num * a.den);
        if (c > 0) better0 = true;
        if (c < 0) better1 = true;
    }
    if (better0 && better1) return 2;
    return better0 ? 1 : better1 ? -1 : 0;
}
inline std::vector<int64_t> breakpoints(const std::vector<FS>& d0, const std::vector<FS>& d1)
{
    std::vector<int64_t> xs{0};
    for (const auto* d : {&d0, &d1}) {
        int64_t s = 0;
        for (const FS& c : *d) { s += c.size; xs.push_back(s); }
    }
    return xs;
}

} // namespace reffee
