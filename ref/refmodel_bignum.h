// refmodel_bignum.h — small, boring unsigned big integers for the reference models (C07, C54).
// Arbitrary size, 32-bit limbs in a std::vector, schoolbook algorithms only. Independent of /repo.
#pragma once
#include <algorithm>
#include <cstdint>
#include <string>
#include <vector>

namespace refbig {

struct Big {
    std::vector<uint32_t> w; // little endian limbs, no leading zero limbs (zero = empty)

    Big() = default;
    Big(uint64_t v) { while (v) { w.push_back((uint32_t)v); v >>= 32; } }
    void trim() { while (!w.empty() && w.back() == 0) w.pop_back(); }
    bool is_zero() const { return w.empty(); }
    unsigned bits() const
    {
        if (w.empty()) return 0;
        unsigned b = 32 * (w.size() - 1);
        for (uint32_t t = w.back(); t; t >>= 1) b++;
        return b;
    }
    uint64_t low64() const { return (w.size() > 0 ? (uint64_t)w[0] : 0) | (w.size() > 1 ? (uint64_t)w[1] << 32 : 0); }

    static int cmp(const Big& a, const Big& b)
    {
        if (a.w.size() != b.w.size()) return a.w.size() < b.w.size() ? -1 : 1;
        for (size_t i = a.w.size(); i-- > 0;)
            if (a.w[i] != b.w[i]) return a.w[i] < b.w[i] ? -1 : 1;
        return 0;
    }
    friend bool operator==(const Big& a, const Big& b) { return cmp(a, b) == 0; }
    friend bool operator!=(const Big& a, const Big& b) { return cmp(a, b) != 0; }
    friend bool operator<(const Big& a, const Big& b) { return cmp(a, b) < 0; }
    friend bool operator<=(const Big& a, const Big& b) { return cmp(a, b) <= 0; }
    friend bool operator>(const Big& a, const Big& b) { return cmp(a, b) > 0; }
    friend bool operator>=(const Big& a, const Big& b) { return cmp(a, b) >= 0; }

    friend Big operator+(const Big& a, const Big& b)
    {
        Big r;
        uint64_t c = 0;
        for (size_t i = 0; i < std::max(a.w.size(), b.w.size()) || c; i++) {
            c += (i < a.w.size() ? a.w[i] : 0);
            c += (i < b.w.size() ? b.w[i] : 0);
            r.w.push_back((uint32_t)c);
            c >>= 32;
        }
        r.trim();
        return r;
    }
    // a - b, requires a >= b
    friend Big operator-(const Big& a, const Big& b)
    {
        Big r;
        int64_t borrow = 0;
        for (size_t i = 0; i < a.w.size(); i++) {
            int64_t d = (int64_t)a.w[i] - (i < b.w.size() ? b.w[i] : 0) - borrow;
            borrow = d < 0;
            if (d < 0) d += (int64_t)1 << 32;
            r.w.push_back((uint32_t)d);
        }
        r.trim();
        return r;
    }
    friend Big operator*(const Big& a, const Big& b)
    {
        Big r;
        if (a.w.empty() || b.w.empty()) return r;
        r.w.assign(a.w.size() + b.w.size(), 0);
        for (size_t i = 0; i < a.w.size(); i++) {
            uint64_t c = 0;
            for (size_t j = 0; j < b.w.size() || c; j++) {
                uint64_t t = r.w[i + j] + c + (j < b.w.size() ? (uint64_t)a.w[i] * b.w[j] : 0);
                r.w[i + j] = (uint32_t)t;
                c = t >> 32;
            }
        }
        r.trim();
        return r;
    }
    friend Big operator<<(const Big& a, unsigned n)
    {
        Big r;
        if (a.w.empty()) return r;
        r.w.assign(n / 32, 0);
        unsigned s = n % 32;
        uint32_t carry = 0;
        for (uint32_t x : a.w) {
            r.w.push_back(s ? (x << s) | carry : x);
            carry = s ? x >> (32 - s) : 0;
        }
        if (carry) r.w.push_back(carry);
        r.trim();
        return r;
    }
    friend Big operator>>(const Big& a, unsigned n)
    {
        Big r;
        size_t k = n / 32;
        unsigned s = n % 32;
        for (size_t i = k; i < a.w.size(); i++) {
            uint32_t lo = a.w[i] >> s;
            uint32_t hi = (s && i + 1 < a.w.size()) ? a.w[i + 1] << (32 - s) : 0;
            r.w.push_back(lo | hi);
        }
        r.trim();
        return r;
    }
    bool bit(unsigned i) const { return i / 32 < w.size() && ((w[i / 32] >> (i % 32)) & 1); }
    // floor(a / b) by binary long division, b != 0
    static Big div(const Big& a, const Big& b, Big* rem = nullptr)
    {
        Big q, r;
        for (unsigned i = a.bits(); i-- > 0;) {
            r = r << 1;
            if (a.bit(i)) r = r + Big(1);
            if (r >= b) {
                r = r - b;
                if (q.w.size() <= i / 32) q.w.resize(i / 32 + 1, 0);
                q.w[i / 32] |= 1u << (i % 32);
            }
        }
        q.trim();
        if (rem) *rem = r;
        return q;
    }
    // little-endian bytes, exactly n of them (value must fit)
    std::vector<unsigned char> bytes_le(size_t n) const
    {
        std::vector<unsigned char> o(n, 0);
        for (size_t i = 0; i < n && i / 4 < w.size(); i++) o[i] = (unsigned char)(w[i / 4] >> (8 * (i % 4)));
        return o;
    }
    static Big from_bytes_le(const unsigned char* p, size_t n)
    {
        Big r;
        r.w.assign((n + 3) / 4, 0);
        for (size_t i = 0; i < n; i++) r.w[i / 4] |= (uint32_t)p[i] << (8 * (i % 4));
        r.trim();
        return r;
    }
    std::string hex() const
    {
        if (w.empty()) return "0";
        static const char* d = "0123456789abcdef";
        std::string s;
        for (size_t i = w.size(); i-- > 0;)
            for (int k = 28; k >= 0; k -= 4) s += d[(w[i] >> k) & 15];
        size_t p = s.find_first_not_of('0');
        return s.substr(p);
    }
};

// ---- Bitcoin "compact" target encoding, transcribed from its definition --------------------------------------
// nBits = EE MMMMMM: value = (MMMMMM & 0x7fffff) * 256^(EE-3) (for EE < 3 the mantissa is shifted right, losing
// its low bytes); bit 0x800000 is a sign bit (meaningful only if the resulting magnitude is non-zero).
struct Compact {
    Big value;      // magnitude, exact (not reduced mod 2^256)
    bool negative;  // sign bit set on a non-zero mantissa
    bool overflow;  // magnitude does not fit in 256 bits
};
inline Compact decode_compact(uint32_t nbits)
{
    const unsigned e = nbits >> 24;
    uint32_t m = nbits & 0x007fffff;
    Compact c;
    if (e <= 3) {
        m >>= 8 * (3 - e);
        c.value = Big(m);
    } else {
        c.value = Big(m) << (8 * (e - 3));
    }
    c.negative = m != 0 && (nbits & 0x00800000);
    c.overflow = c.value.bits() > 256;
    return c;
}
// canonical (normalised) encoding of a non-negative integer < 2^256: the three most significant bytes, with the
// exponent = length in bytes; if the top mantissa bit would be set (it is the sign bit) one more byte is dropped.
inline uint32_t encode_compact(const Big& v)
{
    unsigned size = (v.bits() + 7) / 8;
    uint32_t m;
    if (size <= 3) m = (uint32_t)(v.low64() << (8 * (3 - size)));
    else m = (uint32_t)(v >> (8 * (size - 3))).low64();
    if (m & 0x00800000) { m >>= 8; size++; }
    return m | (size << 24);
}

} // namespace refbig
