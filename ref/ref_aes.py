"""FIPS-197 AES-256 (encrypt + decrypt) and CBC with PKCS#7 padding, pure Python, written from the standard.

Reference only (slow, not constant time). Independent of src/crypto/ctaes: the S-box is derived from the
GF(2^8) inverse + affine map, not copied from a table. `selftest()` checks FIPS-197 C.3 and SP800-38A F.2.5.
"""


def _xtime(a):
    a <<= 1
    return (a ^ 0x11b) & 0xff if a & 0x100 else a


def _gmul(a, b):
    r = 0
    while b:
        if b & 1:
            r ^= a
        a = _xtime(a)
        b >>= 1
    return r


def _make_sbox():
    # multiplicative inverse by brute force, then the affine transformation of FIPS-197 5.1.1
    inv = [0] * 256
    for a in range(1, 256):
        for b in range(1, 256):
            if _gmul(a, b) == 1:
                inv[a] = b
                break
    sbox = [0] * 256
    for a in range(256):
        x = inv[a]
        y = 0
        for i in range(8):
            bit = ((x >> i) ^ (x >> ((i + 4) % 8)) ^ (x >> ((i + 5) % 8)) ^ (x >> ((i + 6) % 8)) ^ (x >> ((i + 7) % 8)) ^ (0x63 >> i)) & 1
            y |= bit << i
        sbox[a] = y
    return sbox


SBOX = _make_sbox()
INV_SBOX = [0] * 256
for _i, _v in enumerate(SBOX):
    INV_SBOX[_v] = _i
_M2 = [_gmul(i, 2) for i in range(256)]
_M3 = [_gmul(i, 3) for i in range(256)]
_M9 = [_gmul(i, 9) for i in range(256)]
_M11 = [_gmul(i, 11) for i in range(256)]
_M13 = [_gmul(i, 13) for i in range(256)]
_M14 = [_gmul(i, 14) for i in range(256)]


def expand_key_256(key):
    """Key expansion for Nk=8, Nr=14: returns 15 round keys of 16 bytes (column-major words as in FIPS-197)."""
    assert len(key) == 32
    w = [list(key[4 * i:4 * i + 4]) for i in range(8)]
    rcon = 1
    for i in range(8, 60):
        t = list(w[i - 1])
        if i % 8 == 0:
            t = t[1:] + t[:1]
            t = [SBOX[b] for b in t]
            t[0] ^= rcon
            rcon = _xtime(rcon)
        elif i % 8 == 4:
            t = [SBOX[b] for b in t]
        w.append([w[i - 8][j] ^ t[j] for j in range(4)])
    return [sum((w[4 * r + c] for c in range(4)), []) for r in range(15)]


def _add(s, k):
    return [a ^ b for a, b in zip(s, k)]


def _shift_rows(s):
    # state byte index = 4*col + row
    return [s[4 * ((c + r) % 4) + r] for c in range(4) for r in range(4)]


def _inv_shift_rows(s):
    return [s[4 * ((c - r) % 4) + r] for c in range(4) for r in range(4)]


def _mix_columns(s):
    o = []
    for c in range(4):
        a0, a1, a2, a3 = s[4 * c:4 * c + 4]
        o += [_M2[a0] ^ _M3[a1] ^ a2 ^ a3, a0 ^ _M2[a1] ^ _M3[a2] ^ a3, a0 ^ a1 ^ _M2[a2] ^ _M3[a3], _M3[a0] ^ a1 ^ a2 ^ _M2[a3]]
    return o


def _inv_mix_columns(s):
    o = []
    for c in range(4):
        a0, a1, a2, a3 = s[4 * c:4 * c + 4]
        o += [_M14[a0] ^ _M11[a1] ^ _M13[a2] ^ _M9[a3], _M9[a0] ^ _M14[a1] ^ _M11[a2] ^ _M13[a3],
              _M13[a0] ^ _M9[a1] ^ _M14[a2] ^ _M11[a3], _M11[a0] ^ _M13[a1] ^ _M9[a2] ^ _M14[a3]]
    return o


def aes256_encrypt_block(rk, block):
    s = _add(list(block), rk[0])
    for r in range(1, 14):
        s = _add(_mix_columns(_shift_rows([SBOX[b] for b in s])), rk[r])
    s = _add(_shift_rows([SBOX[b] for b in s]), rk[14])
    return bytes(s)


def aes256_decrypt_block(rk, block):
    s = _add(list(block), rk[14])
    for r in range(13, 0, -1):
        s = _inv_mix_columns(_add([INV_SBOX[b] for b in _inv_shift_rows(s)], rk[r]))
    s = _add([INV_SBOX[b] for b in _inv_shift_rows(s)], rk[0])
    return bytes(s)


def aes256_encrypt(key, block):
    return aes256_encrypt_block(expand_key_256(key), block)


def aes256_decrypt(key, block):
    return aes256_decrypt_block(expand_key_256(key), block)


def cbc_encrypt(key, iv, data, pad):
    """AES-256-CBC. With pad: PKCS#7. Without: data must be a multiple of 16, else None."""
    rk = expand_key_256(key)
    if pad:
        n = 16 - len(data) % 16
        data = data + bytes([n]) * n
    elif len(data) % 16:
        return None
    out = b''
    prev = iv
    for i in range(0, len(data), 16):
        prev = aes256_encrypt_block(rk, bytes(a ^ b for a, b in zip(data[i:i + 16], prev)))
        out += prev
    return out


def cbc_decrypt(key, iv, data, pad):
    """Returns the plaintext, or None if the length is not a multiple of 16 / the PKCS#7 padding is malformed."""
    if len(data) % 16 or not data:
        return None
    rk = expand_key_256(key)
    out = b''
    prev = iv
    for i in range(0, len(data), 16):
        blk = data[i:i + 16]
        out += bytes(a ^ b for a, b in zip(aes256_decrypt_block(rk, blk), prev))
        prev = blk
    if pad:
        n = out[-1]
        if n < 1 or n > 16 or out[-n:] != bytes([n]) * n:
            return None
        out = out[:-n]
    return out


def selftest():
    key = bytes(range(32))
    pt = bytes.fromhex('00112233445566778899aabbccddeeff')
    ct = bytes.fromhex('8ea2b7ca516745bfeafc49904b496089')  # FIPS-197 C.3
    assert SBOX[0] == 0x63 and SBOX[0x53] == 0xed
    assert aes256_encrypt(key, pt) == ct and aes256_decrypt(key, ct) == pt
    # NIST SP800-38A F.2.5 CBC-AES256.Encrypt
    k = bytes.fromhex('603deb1015ca71be2b73aef0857d77811f352c073b6108d72d9810a30914dff4')
    iv = bytes(range(16))
    p = bytes.fromhex('6bc1bee22e409f96e93d7e117393172aae2d8a571e03ac9c9eb76fac45af8e51'
                      '30c81c46a35ce411e5fbc1191a0a52eff69f2445df4f9b17ad2b417be66c3710')
    c = bytes.fromhex('f58c4c04d6e5f1ba779eabfb5f7bfbd69cfc4e967edb808d679f777bc6702c7d'
                      '39f23369a9d9bacfa530e26304231461b2eb05e2c39be9fcda6c19078c6a9d1b')
    assert cbc_encrypt(k, iv, p, False) == c and cbc_decrypt(k, iv, c, False) == p
    assert cbc_decrypt(k, iv, cbc_encrypt(k, iv, b'abc', True), True) == b'abc'
    return True


if __name__ == '__main__':
    selftest()
    print('ok')
