// refmodel_coincodec.h — independent reference encoder for the UTXO / undo record format (property C18).
// Plain byte vectors; the only arithmetic helper is the schoolbook bignum (for "is this 65-byte key a point on
// secp256k1"). Transcribed from the format description, not from /repo code.
#pragma once
#include <ref/refmodel_bignum.h>

#include <cstdint>
#include <vector>

namespace refcoin {

using Bytes = std::vector<unsigned char>;

// Variable-length integer of the database format: base-128 digits, most significant first, high bit set on every
// byte but the last, and 1 subtracted from every digit group but the last (so every number has one encoding).
inline void put_varint(Bytes& o, uint64_t n)
{
    Bytes rev{(unsigned char)(n & 0x7f)};
    while (n > 0x7f) {
        n = (n >> 7) - 1;
        rev.push_back((unsigned char)(0x80 | (n & 0x7f)));
    }
    o.insert(o.end(), rev.rbegin(), rev.rend());
}

// Amount compression (from the format comment): 0 -> 0; otherwise strip up to 9 trailing decimal zeros (e of
// them); if e < 9 the last remaining digit d is non-zero: code = 1 + 10*(9*n + d - 1) + e with n the digits before
// d; if e == 9: code = 1 + 10*(n - 1) + 9 with n the remaining number.
inline uint64_t compress_amount(uint64_t a)
{
    if (a == 0) return 0;
    static const uint64_t P10[10] = {1, 10, 100, 1000, 10000, 100000, 1000000, 10000000, 100000000, 1000000000};
    int e = 9;
    while (a % P10[e] != 0) e--; // largest e <= 9 with 10^e | a
    const uint64_t m = a / P10[e];
    if (e < 9) return 1 + 10 * (9 * (m / 10) + (m % 10) - 1) + e;
    return 1 + 10 * (m - 1) + 9;
}

// ---- secp256k1 membership: y^2 = x^3 + 7 over p = 2^256 - 2^32 - 977, coordinates < p -----------------------
using refbig::Big;
inline const Big& field_p()
{
    static const Big p = (Big(1) << 256) - (Big(1) << 32) - Big(977);
    return p;
}
inline Big modp(Big v)
{
    // 2^256 = 2^32 + 977 (mod p): fold the part above 2^256 down until the value fits, then subtract p if needed
    static const Big c = (Big(1) << 32) + Big(977);
    while (v.bits() > 256) {
        const Big hi = v >> 256;
        v = (v - (hi << 256)) + hi * c;
    }
    while (v >= field_p()) v = v - field_p();
    return v;
}
inline Big mulmod(const Big& a, const Big& b) { return modp(a * b); }
inline bool on_curve(const Big& x, const Big& y)
{
    if (x >= field_p() || y >= field_p()) return false;
    return mulmod(y, y) == modp(mulmod(mulmod(x, x), x) + Big(7));
}
inline Big powmod(const Big& b, const Big& e)
{
    Big r(1);
    for (unsigned i = e.bits(); i-- > 0;) {
        r = mulmod(r, r);
        if (e.bit(i)) r = mulmod(r, b);
    }
    return r;
}
// a square root of x^3+7 if it has one (p = 3 mod 4: candidate = v^((p+1)/4)); returns false if x is not on the curve
inline bool lift_x(const Big& x, Big& y)
{
    if (x >= field_p()) return false;
    const Big v = modp(mulmod(mulmod(x, x), x) + Big(7));
    y = powmod(v, (field_p() + Big(1)) >> 2);
    return mulmod(y, y) == v;
}
inline Big big_be(const unsigned char* p, size_t n)
{
    Bytes le(p, p + n);
    std::reverse(le.begin(), le.end());
    return Big::from_bytes_le(le.data(), le.size());
}
inline Bytes be32(const Big& v)
{
    Bytes b = v.bytes_le(32);
    std::reverse(b.begin(), b.end());
    return b;
}

// ---- script compression ----------------------------------------------------------------------------------------
// Special forms (exact byte templates):
//   76 a9 14 <20> 88 ac              -> 00 <20>
//   a9 14 <20> 87                    -> 01 <20>
//   21 <02|03 x32> ac                -> <02|03> x32            (no validity check, it is stored verbatim)
//   41 <04 x32 y32> ac, point valid  -> <04|05 by parity of y> x32
// Anything else: varint(len + 6) followed by the script bytes.
inline bool special_form(const Bytes& s, Bytes& out)
{
    if (s.size() == 25 && s[0] == 0x76 && s[1] == 0xa9 && s[2] == 0x14 && s[23] == 0x88 && s[24] == 0xac) {
        out = {0x00};
        out.insert(out.end(), s.begin() + 3, s.begin() + 23);
        return true;
    }
    if (s.size() == 23 && s[0] == 0xa9 && s[1] == 0x14 && s[22] == 0x87) {
        out = {0x01};
        out.insert(out.end(), s.begin() + 2, s.begin() + 22);
        return true;
    }
    if (s.size() == 35 && s[0] == 0x21 && s[34] == 0xac && (s[1] == 0x02 || s[1] == 0x03)) {
        out.assign(s.begin() + 1, s.begin() + 34);
        return true;
    }
    if (s.size() == 67 && s[0] == 0x41 && s[66] == 0xac && s[1] == 0x04) {
        if (!on_curve(big_be(&s[2], 32), big_be(&s[34], 32))) return false;
        out = {(unsigned char)(0x04 | (s[65] & 1))};
        out.insert(out.end(), s.begin() + 2, s.begin() + 34);
        return true;
    }
    return false;
}
inline void put_script(Bytes& o, const Bytes& s)
{
    Bytes sp;
    if (special_form(s, sp)) { o.insert(o.end(), sp.begin(), sp.end()); return; }
    put_varint(o, s.size() + 6);
    o.insert(o.end(), s.begin(), s.end());
}
inline void put_txout(Bytes& o, uint64_t amount, const Bytes& script)
{
    put_varint(o, compress_amount(amount));
    put_script(o, script);
}
// UTXO database value: varint(height*2 + coinbase), compressed txout
inline Bytes coin_record(uint32_t height, bool coinbase, uint64_t amount, const Bytes& script)
{
    Bytes o;
    put_varint(o, (uint64_t)height * 2 + (coinbase ? 1 : 0));
    put_txout(o, amount, script);
    return o;
}
inline Bytes coin_record_pre(uint32_t height, bool coinbase, uint64_t amount, const Bytes& encoded_script)
{
    Bytes o;
    put_varint(o, (uint64_t)height * 2 + (coinbase ? 1 : 0));
    put_varint(o, compress_amount(amount));
    o.insert(o.end(), encoded_script.begin(), encoded_script.end());
    return o;
}
inline Bytes undo_record_pre(uint32_t height, bool coinbase, uint64_t amount, const Bytes& encoded_script)
{
    Bytes o;
    put_varint(o, (uint64_t)height * 2 + (coinbase ? 1 : 0));
    if (height > 0) o.push_back(0x00);
    put_varint(o, compress_amount(amount));
    o.insert(o.end(), encoded_script.begin(), encoded_script.end());
    return o;
}
// undo record of one spent input: the same, with one zero byte after the code when height > 0
inline Bytes undo_record(uint32_t height, bool coinbase, uint64_t amount, const Bytes& script)
{
    Bytes o;
    put_varint(o, (uint64_t)height * 2 + (coinbase ? 1 : 0));
    if (height > 0) o.push_back(0x00);
    put_txout(o, amount, script);
    return o;
}

} // namespace refcoin
