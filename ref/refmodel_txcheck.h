// refmodel_txcheck.h — reference for property C03 (context-free transaction checks).
// Independent of /repo: plain structs, __int128 sums, the rules transcribed from the property text.
//
// Rules, in the order of the property statement ("the reject reason names the first violated rule in that order"):
//   R1 at least one input                                  bad-txns-vin-empty
//   R2 at least one output                                 bad-txns-vout-empty
//   R3 non-witness size * 4 <= 4,000,000                   bad-txns-oversize
//   R4 every output value in [0, 21e6 BTC] and the sum too bad-txns-vout-negative / -vout-toolarge / -txouttotal-toolarge
//   R5 no outpoint spent twice                             bad-txns-inputs-duplicate
//   R6 coinbase => scriptSig 2..100 bytes                  bad-cb-length
//      not coinbase => no null prevout                     bad-txns-prevout-null
// Rule R4 is one rule with three reasons; which of the three is named is decided by scanning the outputs left to
// right and, per output, testing "negative", then "too large", then "running total out of range" (this is the
// order consensus code has always used; the statement does not split R4 further).
#pragma once
#include <array>
#include <cstdint>
#include <set>
#include <string>
#include <utility>
#include <vector>

namespace reftx {

struct In {
    std::array<unsigned char, 32> hash{};
    uint32_t n = 0;
    uint64_t script_sig_len = 0;
    std::vector<uint64_t> witness_item_lens; // does not count for R3
    bool null_prevout() const
    {
        for (unsigned char c : hash) if (c) return false;
        return n == 0xffffffffu;
    }
};
struct Out {
    int64_t value = 0;
    uint64_t script_len = 0;
};
struct Tx {
    std::vector<In> vin;
    std::vector<Out> vout;
};

inline uint64_t compact_size_len(uint64_t n) { return n < 253 ? 1 : n <= 0xffff ? 3 : n <= 0xffffffffULL ? 5 : 9; }

// size of the serialization without witness data: version, inputs, outputs, locktime
inline uint64_t nonwitness_size(const Tx& t)
{
    uint64_t s = 4 + 4;
    s += compact_size_len(t.vin.size());
    for (const In& i : t.vin) s += 32 + 4 + compact_size_len(i.script_sig_len) + i.script_sig_len + 4;
    s += compact_size_len(t.vout.size());
    for (const Out& o : t.vout) s += 8 + compact_size_len(o.script_len) + o.script_len;
    return s;
}

inline constexpr int64_t kMaxMoney = 2100000000000000LL; // 21,000,000 * 100,000,000

// group: 0 accepted, 1..6 = index of the violated rule R1..R6
struct Verdict {
    bool ok;
    int rule;
    std::string reason;
};

inline Verdict check(const Tx& t)
{
    if (t.vin.empty()) return {false, 1, "bad-txns-vin-empty"};
    if (t.vout.empty()) return {false, 2, "bad-txns-vout-empty"};
    if ((unsigned __int128)nonwitness_size(t) * 4 > 4000000) return {false, 3, "bad-txns-oversize"};
    {
        __int128 total = 0;
        for (const Out& o : t.vout) {
            if (o.value < 0) return {false, 4, "bad-txns-vout-negative"};
            if (o.value > kMaxMoney) return {false, 4, "bad-txns-vout-toolarge"};
            total += o.value;
            if (total > kMaxMoney) return {false, 4, "bad-txns-txouttotal-toolarge"};
        }
    }
    {
        std::set<std::pair<std::array<unsigned char, 32>, uint32_t>> seen;
        for (const In& i : t.vin)
            if (!seen.insert({i.hash, i.n}).second) return {false, 5, "bad-txns-inputs-duplicate"};
    }
    const bool coinbase = t.vin.size() == 1 && t.vin[0].null_prevout();
    if (coinbase) {
        if (t.vin[0].script_sig_len < 2 || t.vin[0].script_sig_len > 100) return {false, 6, "bad-cb-length"};
    } else {
        for (const In& i : t.vin)
            if (i.null_prevout()) return {false, 6, "bad-txns-prevout-null"};
    }
    return {true, 0, ""};
}

// The accept predicate stated without any order (used as a second, order-free oracle for the verdict).
inline bool spec_valid(const Tx& t)
{
    bool ok = !t.vin.empty() && !t.vout.empty();
    ok = ok && (unsigned __int128)nonwitness_size(t) * 4 <= 4000000;
    __int128 total = 0;
    for (const Out& o : t.vout) {
        ok = ok && o.value >= 0 && o.value <= kMaxMoney;
        total += o.value;
    }
    ok = ok && total >= 0 && total <= kMaxMoney;
    for (size_t a = 0; a < t.vin.size(); a++)
        for (size_t b = a + 1; b < t.vin.size(); b++)
            ok = ok && !(t.vin[a].hash == t.vin[b].hash && t.vin[a].n == t.vin[b].n);
    size_t nulls = 0;
    for (const In& i : t.vin) nulls += i.null_prevout();
    const bool coinbase = t.vin.size() == 1 && nulls == 1;
    if (coinbase) ok = ok && t.vin[0].script_sig_len >= 2 && t.vin[0].script_sig_len <= 100;
    else ok = ok && nulls == 0;
    return ok;
}

} // namespace reftx
