# Copyright (c) 2011 Jeff Garzik
#
# Previous copyright, from python-jsonrpc/jsonrpc/proxy.py:
#
# Copyright (c) 2007 Jan-Klaas Kollhof
#
# This file is part of jsonrpc.
#
# jsonrpc is free software; you can redistribute it and/or modify
# it under the terms of the GNU Lesser General Public License as published by
# the Free Software Foundation; either version 2.1 of the License, or
# (at your option) any later version.
#
# This software is distributed in the hope that it will be useful,
# but WITHOUT ANY WARRANTY; without even the implied warranty of
# MERCHANTABILITY or FITNESS FOR A PARTICULAR PURPOSE.  See the
# GNU Lesser General Public License for more details.
#
# You should have received a copy of the GNU Lesser General Public License
# along with this software; if not, write to the Free Software
# Foundation, Inc., 59 Temple Place, Suite 330, Boston, MA  02111-1307  USA
"""HTTP proxy for opening RPC connection to bitcoind.

AuthServiceProxy has the following improvements over python-jsonrpc's
ServiceProxy class:

- HTTP connections persist for the life of the AuthServiceProxy object
  (if server supports HTTP/1.1)
- sends "jsonrpc":"2.0", per JSON-RPC 2.0
- sends proper, incrementing 'id'
- sends Basic HTTP authentication headers
- parses all JSON numbers that look like floats as Decimal
- uses standard Python json lib
"""

import base64
import decimal
from http import HTTPStatus
import http.client
import json
import logging
import pathlib
import socket
import time
import urllib.parse

from .util import JSONRPCException, assert_equal

HTTP_TIMEOUT = 30
USER_AGENT = "AuthServiceProxy/0.1"

log = logging.getLogger("BitcoinRPC")

def serialization_fallback(o):
    if isinstance(o, decimal.Decimal):
        return str(o)
    if isinstance(o, pathlib.Path):
        return str(o)
    raise TypeError(repr(o) + " is not JSON serializable")

class AuthServiceProxy():
    __id_count = 0

    # ensure_ascii: escape unicode as \uXXXX, passed to json.dumps
    def __init__(self, service_url, service_name=None, timeout=HTTP_TIMEOUT, connection=None, ensure_ascii=True):
        self.__service_url = service_url
        self._service_name = service_name
        self.ensure_ascii = ensure_ascii  # can be toggled on the fly by tests
        self.reuse_http_connections = True
        self.__url = urllib.parse.urlparse(service_url)
        user = None if self.__url.username is None else self.__url.username.encode('utf8')
        passwd = None if self.__url.password is None else self.__url.password.encode('utf8')
        authpair = user + b':' + passwd
        self.__auth_header = b'Basic ' + base64.b64encode(authpair)
        # clamp the socket timeout, since larger values can cause an
        # "Invalid argument" exception in Python's HTTP(S) client
        # library on some operating systems (e.g. OpenBSD, FreeBSD)
        self.timeout = min(timeout, 2147483)
        self._set_conn(connection)

    def __getattr__(self, name):
        if name.startswith('__') and name.endswith('__'):
            # Python internal stuff
            raise AttributeError
        if self._service_name is not None:
            name = "%s.%s" % (self._service_name, name)
        if not self.reuse_http_connections:
            self._set_conn()
        return AuthServiceProxy(self.__service_url, name, connection=self.__conn)

    def _request(self, method, path, postdata):
        '''
        Do a HTTP request.
        '''
        headers = {'Host': self.__url.hostname,
                   'User-Agent': USER_AGENT,
                   'Authorization': self.__auth_header,
                   'Content-type': 'application/json'}
        if not self.reuse_http_connections:
            self._set_conn()
        self.__conn.request(method, path, postdata, headers)
        return self._get_response()

    def _json_dumps(self, obj):
        return json.dumps(obj, default=serialization_fallback, ensure_ascii=self.ensure_ascii)

    def get_request(self, *args, **argsn):
        AuthServiceProxy.__id_count += 1

        log.debug("-{}-> {} {} {}".format(
            AuthServiceProxy.__id_count,
            self._service_name,
            self._json_dumps(args),
            self._json_dumps(argsn),
        ))

        if args and argsn:
            params = dict(args=args, **argsn)
        else:
            params = args or argsn
        return {'jsonrpc': '2.0',
                'method': self._service_name,
                'params': params,
                'id': AuthServiceProxy.__id_count}

    def __call__(self, *args, **argsn):
        postdata = self._json_dumps(self.get_request(*args, **argsn))
        response, status = self._request('POST', self.__url.path, postdata.encode('utf-8'))
        # For backwards compatibility tests, accept JSON RPC 1.1 responses
        if 'jsonrpc' not in response:
            if response['error'] is not None:
                raise JSONRPCException(response['error'], status)
            elif 'result' not in response:
                raise JSONRPCException({
                    'code': -343, 'message': 'missing JSON-RPC result'}, status)
            elif status != HTTPStatus.OK:
                raise JSONRPCException({
                    'code': -342, 'message': 'non-200 HTTP status code but no JSON-RPC error'}, status)
            else:
                return response['result']
        else:
            assert_equal(response['jsonrpc'], '2.0')
            if status != HTTPStatus.OK:
                raise JSONRPCException({
                    'code': -342, 'message': 'non-200 HTTP status code'}, status)
            if 'error' in response:
                raise JSONRPCException(response['error'], status)
            elif 'result' not in response:
                raise JSONRPCException({
                    'code': -343, 'message': 'missing JSON-RPC 2.0 result and error'}, status)
            return response['result']

    def batch(self, rpc_call_list):
        postdata = self._json_dumps(list(rpc_call_list))
        log.debug("--> " + postdata)
        response, status = self._request('POST', self.__url.path, postdata.encode('utf-8'))
        if status != HTTPStatus.OK:
            raise JSONRPCException({
                'code': -342, 'message': 'non-200 HTTP status code'}, status)
        return response

    def _get_response(self):
        req_start_time = time.time()
        try:
            http_response = self.__conn.getresponse()
        except socket.timeout:
            raise JSONRPCException({
                'code': -344,
                'message': '%r RPC took longer than %f seconds. Consider '
                           'using larger timeout for calls that take '
                           'longer to return.' % (self._service_name,
                                                  self.__conn.timeout)}) from None
        if http_response is None:
            raise JSONRPCException({
                'code': -342, 'message': 'missing HTTP response from server'})

        # Check for no-content HTTP status code, which can be returned when an
        # RPC client requests a JSON-RPC 2.0 "notification" with no response.
        # Currently this is only possible if clients call the _request() method
        # directly to send a raw request.
        if http_response.status == HTTPStatus.NO_CONTENT:
            if len(http_response.read()) != 0:
                raise JSONRPCException({'code': -342, 'message': 'Content received with NO CONTENT status code'})
            return None, http_response.status

        content_type = http_response.getheader('Content-Type')
        if content_type != 'application/json':
            raise JSONRPCException(
                {'code': -342, 'message': f"non-JSON HTTP response with \'{http_response.status} {http_response.reason}\' from server: {http_response.read().decode()}"},
                http_response.status)

        data = http_response.read()
        try:
            responsedata = data.decode('utf8')
        except UnicodeDecodeError as e:
            raise JSONRPCException({
                'code': -342, 'message': f'Cannot decode response in utf8 format, content: {data}, exception: {e}'})
        response = json.loads(responsedata, parse_float=decimal.Decimal)
        elapsed = time.time() - req_start_time
        if "error" in response and response["error"] is None:
            log.debug("<-%s- [%.6f] %s" % (response["id"], elapsed, self._json_dumps(response["result"])))
        else:
            log.debug("<-- [%.6f] %s" % (elapsed, responsedata))
        return response, http_response.status

    def __truediv__(self, relative_uri):
        return AuthServiceProxy("{}/{}".format(self.__service_url, relative_uri), self._service_name, connection=self.__conn)

    def _set_conn(self, connection=None):
        port = 80 if self.__url.port is None else self.__url.port
        if connection:
            self.__conn = connection
            self.timeout = connection.timeout
        elif self.__url.scheme == 'https':
            self.__conn = http.client.HTTPSConnection(self.__url.hostname, port, timeout=self.timeout)
        else:
            self.__conn = http.client.HTTPConnection(self.__url.hostname, port, timeout=self.timeout)
