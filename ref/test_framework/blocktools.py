#!/usr/bin/env python3
# Copyright (c) 2015-present The Bitcoin Core developers
# Distributed under the MIT software license, see the accompanying
# file COPYING or http://www.opensource.org/licenses/mit-license.php.
"""Utilities for manipulating blocks and transactions."""

import struct
import time
import unittest

from .address import (
    address_to_scriptpubkey,
    key_to_p2sh_p2wpkh,
    key_to_p2wpkh,
    script_to_p2sh_p2wsh,
    script_to_p2wsh,
)
from .messages import (
    CBlock,
    COIN,
    COutPoint,
    CTransaction,
    CTxIn,
    CTxInWitness,
    CTxOut,
    SEQUENCE_FINAL,
    hash256,
    ser_uint256,
    tx_from_hex,
    uint256_from_compact,
    WITNESS_SCALE_FACTOR,
    MAX_SEQUENCE_NONFINAL,
)
from .script import (
    CScript,
    CScriptNum,
    CScriptOp,
    OP_0,
    OP_RETURN,
    OP_TRUE,
)
from .script_util import (
    key_to_p2pk_script,
    key_to_p2wpkh_script,
    keys_to_multisig_script,
    script_to_p2wsh_script,
)
from .util import assert_equal

MAX_BLOCK_SIGOPS = 20000
MAX_BLOCK_SIGOPS_WEIGHT = MAX_BLOCK_SIGOPS * WITNESS_SCALE_FACTOR
MAX_STANDARD_TX_SIGOPS = 4000
MAX_STANDARD_TX_WEIGHT = 400000

# Genesis block time (regtest)
TIME_GENESIS_BLOCK = 1296688602

MAX_FUTURE_BLOCK_TIME = 2 * 60 * 60

# Coinbase transaction outputs can only be spent after this number of new blocks (network rule)
COINBASE_MATURITY = 100

# From BIP141
WITNESS_COMMITMENT_HEADER = b"\xaa\x21\xa9\xed"

NULL_OUTPOINT = COutPoint(0, 0xffffffff)

NORMAL_GBT_REQUEST_PARAMS = {"rules": ["segwit"]}
VERSIONBITS_LAST_OLD_BLOCK_VERSION = 4
MIN_BLOCKS_TO_KEEP = 288

REGTEST_RETARGET_PERIOD = 150

REGTEST_N_BITS = 0x207fffff  # difficulty retargeting is disabled in REGTEST chainparams"
REGTEST_TARGET = 0x7fffff0000000000000000000000000000000000000000000000000000000000
assert_equal(uint256_from_compact(REGTEST_N_BITS), REGTEST_TARGET)

DIFF_1_N_BITS = 0x1d00ffff
DIFF_1_TARGET = 0x00000000ffff0000000000000000000000000000000000000000000000000000
assert_equal(uint256_from_compact(DIFF_1_N_BITS), DIFF_1_TARGET)

DIFF_4_N_BITS = 0x1c3fffc0
DIFF_4_TARGET = int(DIFF_1_TARGET / 4)
assert_equal(uint256_from_compact(DIFF_4_N_BITS), DIFF_4_TARGET)

# From BIP325
SIGNET_HEADER = b"\xec\xc7\xda\xa2"

# Number of blocks to create in temporary blockchain branch for reorg testing
FORK_LENGTH = 10

def nbits_str(nbits):
    return f"{nbits:08x}"

def target_str(target):
    return f"{target:064x}"

def create_block(hashprev=None, coinbase=None, *, ntime=None, height=None, version=None, tmpl=None, txlist=None):
    """Create a block (with regtest difficulty)."""
    block = CBlock()
    if tmpl is None:
        tmpl = {}
    block.nVersion = version or tmpl.get('version') or VERSIONBITS_LAST_OLD_BLOCK_VERSION
    block.nTime = ntime or tmpl.get('curtime') or int(time.time() + 600)
    block.hashPrevBlock = hashprev or int(tmpl['previousblockhash'], 0x10)
    if tmpl and tmpl.get('bits') is not None:
        block.nBits = struct.unpack('>I', bytes.fromhex(tmpl['bits']))[0]
    else:
        block.nBits = REGTEST_N_BITS
    if coinbase is None:
        coinbase = create_coinbase(height=height or tmpl["height"])
    block.vtx.append(coinbase)
    if txlist:
        for tx in txlist:
            if type(tx) is str:
                tx = tx_from_hex(tx)
            block.vtx.append(tx)
    block.hashMerkleRoot = block.calc_merkle_root()
    return block

def create_empty_fork(node, fork_length=FORK_LENGTH):
    '''
        Creates a fork using node's chaintip as the starting point.
        Returns a list of blocks to submit in order.
    '''
    tip = int(node.getbestblockhash(), 16)
    height = node.getblockcount()
    block_time = node.getblock(node.getbestblockhash())['time'] + 1

    blocks = []
    for _ in range(fork_length):
        block = create_block(tip, height=height + 1, ntime=block_time)
        block.solve()
        blocks.append(block)
        tip = block.hash_int
        block_time += 1
        height += 1

    return blocks

def get_witness_script(witness_root, witness_nonce):
    witness_commitment = hash256(ser_uint256(witness_root) + ser_uint256(witness_nonce))
    output_data = WITNESS_COMMITMENT_HEADER + witness_commitment
    return CScript([OP_RETURN, output_data])

def add_witness_commitment(block, nonce=0):
    """Add a witness commitment to the block's coinbase transaction.

    According to BIP141, blocks with witness rules active must commit to the
    hash of all in-block transactions including witness."""
    # First calculate the merkle root of the block's
    # transactions, with witnesses.
    witness_nonce = nonce
    witness_root = block.calc_witness_merkle_root()
    # witness_nonce should go to coinbase witness.
    block.vtx[0].wit.vtxinwit = [CTxInWitness()]
    block.vtx[0].wit.vtxinwit[0].scriptWitness.stack = [ser_uint256(witness_nonce)]

    # witness commitment is the last OP_RETURN output in coinbase
    block.vtx[0].vout.append(CTxOut(0, get_witness_script(witness_root, witness_nonce)))
    block.hashMerkleRoot = block.calc_merkle_root()


def script_BIP34_coinbase_height(height, *, padding=True):
    if height <= 16:
        res = CScriptOp.encode_op_n(height)
        if padding:
            # Append dummy extraNonce to increase scriptSig size to 2 (see bad-cb-length consensus rule)
            return CScript([res, OP_0])
        return CScript([res])
    return CScript([CScriptNum(height)])


def create_coinbase(height, pubkey=None, *, script_pubkey=None, extra_output_script=None, fees=0, nValue=50, halving_period=REGTEST_RETARGET_PERIOD):
    """Create a coinbase transaction.

    If pubkey is passed in, the coinbase output will be a P2PK output;
    otherwise an anyone-can-spend output.

    If extra_output_script is given, make a 0-value output to that
    script. This is useful to pad block weight/sigops as needed. """
    coinbase = CTransaction()
    coinbase.nLockTime = height - 1
    coinbase.vin.append(CTxIn(NULL_OUTPOINT, script_BIP34_coinbase_height(height), MAX_SEQUENCE_NONFINAL))
    coinbaseoutput = CTxOut()
    coinbaseoutput.nValue = nValue * COIN
    if nValue == 50:
        halvings = int(height / halving_period)
        coinbaseoutput.nValue >>= halvings
        coinbaseoutput.nValue += fees
    if pubkey is not None:
        coinbaseoutput.scriptPubKey = key_to_p2pk_script(pubkey)
    elif script_pubkey is not None:
        coinbaseoutput.scriptPubKey = script_pubkey
    else:
        coinbaseoutput.scriptPubKey = CScript([OP_TRUE])
    coinbase.vout = [coinbaseoutput]
    if extra_output_script is not None:
        coinbaseoutput2 = CTxOut()
        coinbaseoutput2.nValue = 0
        coinbaseoutput2.scriptPubKey = extra_output_script
        coinbase.vout.append(coinbaseoutput2)
    return coinbase

def create_tx_with_script(prevtx, n, script_sig=b"", *, amount, output_script=None):
    """Return one-input, one-output transaction object
       spending the prevtx's n-th output with the given amount.

       Can optionally pass scriptPubKey and scriptSig, default is anyone-can-spend output.
    """
    if output_script is None:
        output_script = CScript()
    tx = CTransaction()
    assert n < len(prevtx.vout)
    tx.vin.append(CTxIn(COutPoint(prevtx.txid_int, n), script_sig, SEQUENCE_FINAL))
    tx.vout.append(CTxOut(amount, output_script))
    return tx

def get_legacy_sigopcount_block(block, accurate=True):
    count = 0
    for tx in block.vtx:
        count += get_legacy_sigopcount_tx(tx, accurate)
    return count

def get_legacy_sigopcount_tx(tx, accurate=True):
    count = 0
    for i in tx.vout:
        count += i.scriptPubKey.GetSigOpCount(accurate)
    for j in tx.vin:
        # scriptSig might be of type bytes, so convert to CScript for the moment
        count += CScript(j.scriptSig).GetSigOpCount(accurate)
    return count

def witness_script(use_p2wsh, pubkey):
    """Create a scriptPubKey for a pay-to-witness TxOut.

    This is either a P2WPKH output for the given pubkey, or a P2WSH output of a
    1-of-1 multisig for the given pubkey. Returns the hex encoding of the
    scriptPubKey."""
    if not use_p2wsh:
        # P2WPKH instead
        pkscript = key_to_p2wpkh_script(pubkey)
    else:
        # 1-of-1 multisig
        witness_script = keys_to_multisig_script([pubkey])
        pkscript = script_to_p2wsh_script(witness_script)
    return pkscript.hex()

def create_witness_tx(node, use_p2wsh, utxo, pubkey, encode_p2sh, amount):
    """Return a transaction (in hex) that spends the given utxo to a segwit output.

    Optionally wrap the segwit output using P2SH."""
    if use_p2wsh:
        program = keys_to_multisig_script([pubkey])
        addr = script_to_p2sh_p2wsh(program) if encode_p2sh else script_to_p2wsh(program)
    else:
        addr = key_to_p2sh_p2wpkh(pubkey) if encode_p2sh else key_to_p2wpkh(pubkey)
    if not encode_p2sh:
        assert_equal(address_to_scriptpubkey(addr).hex(), witness_script(use_p2wsh, pubkey))
    return node.createrawtransaction([utxo], {addr: amount})

def send_to_witness(use_p2wsh, node, utxo, pubkey, encode_p2sh, amount, sign=True, insert_redeem_script=""):
    """Create a transaction spending a given utxo to a segwit output.

    The output corresponds to the given pubkey: use_p2wsh determines whether to
    use P2WPKH or P2WSH; encode_p2sh determines whether to wrap in P2SH.
    sign=True will have the given node sign the transaction.
    insert_redeem_script will be added to the scriptSig, if given."""
    tx_to_witness = create_witness_tx(node, use_p2wsh, utxo, pubkey, encode_p2sh, amount)
    if (sign):
        signed = node.signrawtransactionwithwallet(tx_to_witness)
        assert "errors" not in signed
        return node.sendrawtransaction(signed["hex"])
    else:
        if (insert_redeem_script):
            tx = tx_from_hex(tx_to_witness)
            tx.vin[0].scriptSig += CScript([bytes.fromhex(insert_redeem_script)])
            tx_to_witness = tx.serialize().hex()

    return node.sendrawtransaction(tx_to_witness)

class TestFrameworkBlockTools(unittest.TestCase):
    def test_create_block_prefers_explicit_height(self):
        block = create_block(
            hashprev=1,
            tmpl={"height": 100},
            height=200,
        )
        assert_equal(CScriptNum.decode(block.vtx[0].vin[0].scriptSig), 200)

    def test_create_coinbase(self):
        height = 20
        coinbase_tx = create_coinbase(height=height)
        assert_equal(CScriptNum.decode(coinbase_tx.vin[0].scriptSig), height)
