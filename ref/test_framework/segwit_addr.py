#!/usr/bin/env python3
# Copyright (c) 2017 Pieter Wuille
# Distributed under the MIT software license, see the accompanying
# file COPYING or http://www.opensource.org/licenses/mit-license.php.
"""Reference implementation for Bech32/Bech32m and segwit addresses."""
import unittest
from enum import Enum

CHARSET = "qpzry9x8gf2tvdw0s3jn54khce6mua7l"
BECH32_CONST = 1
BECH32M_CONST = 0x2bc830a3

class Encoding(Enum):
    """Enumeration type to list the various supported encodings."""
    BECH32 = 1
    BECH32M = 2


def bech32_polymod(values):
    """Internal function that computes the Bech32 checksum."""
    generator = [0x3b6a57b2, 0x26508e6d, 0x1ea119fa, 0x3d4233dd, 0x2a1462b3]
    chk = 1
    for value in values:
        top = chk >> 25
        chk = (chk & 0x1ffffff) << 5 ^ value
        for i in range(5):
            chk ^= generator[i] if ((top >> i) & 1) else 0
    return chk


def bech32_hrp_expand(hrp):
    """Expand the HRP into values for checksum computation."""
    return [ord(x) >> 5 for x in hrp] + [0] + [ord(x) & 31 for x in hrp]


def bech32_verify_checksum(hrp, data):
    """Verify a checksum given HRP and converted data characters."""
    check = bech32_polymod(bech32_hrp_expand(hrp) + data)
    if check == BECH32_CONST:
        return Encoding.BECH32
    elif check == BECH32M_CONST:
        return Encoding.BECH32M
    else:
        return None

def bech32_create_checksum(encoding, hrp, data):
    """Compute the checksum values given HRP and data."""
    values = bech32_hrp_expand(hrp) + data
    const = BECH32M_CONST if encoding == Encoding.BECH32M else BECH32_CONST
    polymod = bech32_polymod(values + [0, 0, 0, 0, 0, 0]) ^ const
    return [(polymod >> 5 * (5 - i)) & 31 for i in range(6)]


def bech32_encode(encoding, hrp, data):
    """Compute a Bech32 or Bech32m string given HRP and data values."""
    combined = data + bech32_create_checksum(encoding, hrp, data)
    return hrp + '1' + ''.join([CHARSET[d] for d in combined])


def bech32_decode(bech):
    """Validate a Bech32/Bech32m string, and determine HRP and data."""
    if ((any(ord(x) < 33 or ord(x) > 126 for x in bech)) or
            (bech.lower() != bech and bech.upper() != bech)):
        return (None, None, None)
    bech = bech.lower()
    pos = bech.rfind('1')
    if pos < 1 or pos + 7 > len(bech) or len(bech) > 90:
        return (None, None, None)
    if not all(x in CHARSET for x in bech[pos+1:]):
        return (None, None, None)
    hrp = bech[:pos]
    data = [CHARSET.find(x) for x in bech[pos+1:]]
    encoding = bech32_verify_checksum(hrp, data)
    if encoding is None:
        return (None, None, None)
    return (encoding, hrp, data[:-6])


def convertbits(data, frombits, tobits, pad=True):
    """General power-of-2 base conversion."""
    acc = 0
    bits = 0
    ret = []
    maxv = (1 << tobits) - 1
    max_acc = (1 << (frombits + tobits - 1)) - 1
    for value in data:
        if value < 0 or (value >> frombits):
            return None
        acc = ((acc << frombits) | value) & max_acc
        bits += frombits
        while bits >= tobits:
            bits -= tobits
            ret.append((acc >> bits) & maxv)
    if pad:
        if bits:
            ret.append((acc << (tobits - bits)) & maxv)
    elif bits >= frombits or ((acc << (tobits - bits)) & maxv):
        return None
    return ret


def decode_segwit_address(hrp, addr):
    """Decode a segwit address."""
    encoding, hrpgot, data = bech32_decode(addr)
    if hrpgot != hrp:
        return (None, None)
    decoded = convertbits(data[1:], 5, 8, False)
    if decoded is None or len(decoded) < 2 or len(decoded) > 40:
        return (None, None)
    if data[0] > 16:
        return (None, None)
    if data[0] == 0 and len(decoded) != 20 and len(decoded) != 32:
        return (None, None)
    if (data[0] == 0 and encoding != Encoding.BECH32) or (data[0] != 0 and encoding != Encoding.BECH32M):
        return (None, None)
    return (data[0], decoded)


def encode_segwit_address(hrp, witver, witprog):
    """Encode a segwit address."""
    encoding = Encoding.BECH32 if witver == 0 else Encoding.BECH32M
    ret = bech32_encode(encoding, hrp, [witver] + convertbits(witprog, 8, 5))
    if decode_segwit_address(hrp, ret) == (None, None):
        return None
    return ret

class TestFrameworkScript(unittest.TestCase):
    def test_segwit_encode_decode(self):
        def test_python_bech32(addr):
            hrp = addr[:4]
            self.assertEqual(hrp, "bcrt")
            (witver, witprog) = decode_segwit_address(hrp, addr)
            self.assertEqual(encode_segwit_address(hrp, witver, witprog), addr)

        # P2WPKH
        test_python_bech32('bcrt1qthmht0k2qnh3wy7336z05lu2km7emzfpm3wg46')
        # P2WSH
        test_python_bech32('bcrt1qqqqqqqqqqqqqqqqqqqqqqqqqqqqqqqqqqqqqqqqqqqqqqqqqqqqq3xueyj')
        test_python_bech32('bcrt1qft5p2uhsdcdc3l2ua4ap5qqfg4pjaqlp250x7us7a8qqhrxrxfsqseac85')
        # P2TR
        test_python_bech32('bcrt1p0xlxvlhemja6c4dqv22uapctqupfhlxm9h8z3k2e72q4k9hcz7vqc8gma6')
