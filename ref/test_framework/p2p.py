#!/usr/bin/env python3
# Copyright (c) 2010 ArtForz -- public domain half-a-node
# Copyright (c) 2012 Jeff Garzik
# Copyright (c) 2010-present The Bitcoin Core developers
# Distributed under the MIT software license, see the accompanying
# file COPYING or http://www.opensource.org/licenses/mit-license.php.
"""Test objects for interacting with a bitcoind node over the p2p protocol.

The P2PInterface objects interact with the bitcoind nodes under test using the
node's p2p interface. They can be used to send messages to the node, and
callbacks can be registered that execute when messages are received from the
node. Messages are sent to/received from the node on an asyncio event loop.
State held inside the objects must be guarded by the p2p_lock to avoid data
races between the main testing thread and the event loop.

P2PConnection: A low-level connection object to a node's P2P interface
P2PInterface: A high-level interface object for communicating to a node over P2P
P2PDataStore: A p2p interface class that keeps a store of transactions and blocks
              and can respond correctly to getdata and getheaders messages
P2PTxInvStore: A p2p interface class that inherits from P2PDataStore, and keeps
              a count of how many times each txid has been announced."""

import asyncio
from collections import defaultdict
import ipaddress
from io import BytesIO
import logging
import platform
import socket
import struct
import sys
import threading

from test_framework.messages import (
    CBlockHeader,
    MAX_HEADERS_RESULTS,
    msg_addr,
    msg_addrv2,
    msg_block,
    MSG_BLOCK,
    msg_blocktxn,
    msg_cfcheckpt,
    msg_cfheaders,
    msg_cfilter,
    msg_cmpctblock,
    msg_feature,
    msg_feefilter,
    msg_filteradd,
    msg_filterclear,
    msg_filterload,
    msg_getaddr,
    msg_getblocks,
    msg_getblocktxn,
    msg_getcfcheckpt,
    msg_getcfheaders,
    msg_getcfilters,
    msg_getdata,
    msg_getheaders,
    msg_headers,
    msg_inv,
    msg_mempool,
    msg_merkleblock,
    msg_notfound,
    msg_ping,
    msg_pong,
    msg_sendaddrv2,
    msg_sendcmpct,
    msg_sendheaders,
    msg_sendtxrcncl,
    msg_tx,
    MSG_TX,
    MSG_TYPE_MASK,
    msg_verack,
    msg_version,
    MSG_WTX,
    msg_wtxidrelay,
    NODE_NETWORK,
    NODE_WITNESS,
    MAGIC_BYTES,
    sha256,
)
from test_framework.netutil import (
    set_ephemeral_port_range,
)
from test_framework.util import (
    assert_not_equal,
    MAX_NODES,
    p2p_port,
    wait_until_helper_internal,
)
from test_framework.v2_p2p import (
    EncryptedP2PState,
    MSGTYPE_TO_SHORTID,
    SHORTID,
)

logger = logging.getLogger("TestFramework.p2p")

# The minimum P2P version that this test framework supports
MIN_P2P_VERSION_SUPPORTED = 60001
# The P2P version that this test framework implements and sends in its `version` message
# Version 70016 supports wtxid relay
# Version 70017 supports feature
P2P_VERSION = 70017
# The services that this test framework offers in its `version` message
P2P_SERVICES = NODE_NETWORK | NODE_WITNESS
# The P2P user agent string that this test framework sends in its `version` message
P2P_SUBVERSION = "/python-p2p-tester:0.0.3/"
# Value for relay that this test framework sends in its `version` message
P2P_VERSION_RELAY = 1
# Delay after receiving a tx inv before requesting transactions from non-preferred peers, in seconds
NONPREF_PEER_TX_DELAY = 2
# Delay for requesting transactions via txids if we have wtxid-relaying peers, in seconds
TXID_RELAY_DELAY = 2
# Delay for requesting transactions if the peer has MAX_PEER_TX_REQUEST_IN_FLIGHT or more requests
OVERLOADED_PEER_TX_DELAY = 2
# How long to wait before downloading a transaction from an additional peer
GETDATA_TX_INTERVAL = 60

MESSAGEMAP = {
    b"addr": msg_addr,
    b"addrv2": msg_addrv2,
    b"block": msg_block,
    b"blocktxn": msg_blocktxn,
    b"cfcheckpt": msg_cfcheckpt,
    b"cfheaders": msg_cfheaders,
    b"cfilter": msg_cfilter,
    b"cmpctblock": msg_cmpctblock,
    b"feature": msg_feature,
    b"feefilter": msg_feefilter,
    b"filteradd": msg_filteradd,
    b"filterclear": msg_filterclear,
    b"filterload": msg_filterload,
    b"getaddr": msg_getaddr,
    b"getblocks": msg_getblocks,
    b"getblocktxn": msg_getblocktxn,
    b"getcfcheckpt": msg_getcfcheckpt,
    b"getcfheaders": msg_getcfheaders,
    b"getcfilters": msg_getcfilters,
    b"getdata": msg_getdata,
    b"getheaders": msg_getheaders,
    b"headers": msg_headers,
    b"inv": msg_inv,
    b"mempool": msg_mempool,
    b"merkleblock": msg_merkleblock,
    b"notfound": msg_notfound,
    b"ping": msg_ping,
    b"pong": msg_pong,
    b"sendaddrv2": msg_sendaddrv2,
    b"sendcmpct": msg_sendcmpct,
    b"sendheaders": msg_sendheaders,
    b"sendtxrcncl": msg_sendtxrcncl,
    b"tx": msg_tx,
    b"verack": msg_verack,
    b"version": msg_version,
    b"wtxidrelay": msg_wtxidrelay,
}


class P2PConnection(asyncio.Protocol):
    """A low-level connection object to a node's P2P interface.

    This class is responsible for:

    - opening and closing the TCP connection to the node
    - reading bytes from and writing bytes to the socket
    - deserializing and serializing the P2P message header
    - logging messages as they are sent and received

    This class contains no logic for handing the P2P message payloads. It must be
    sub-classed and the on_message() callback overridden."""

    def __init__(self):
        # The underlying transport of the connection.
        # Should only call methods on this from the NetworkThread, c.f. call_soon_threadsafe
        self._transport = None
        # This lock is acquired before sending messages over the socket. There's an implied lock order and
        # p2p_lock must not be acquired after _send_lock as it could result in deadlocks.
        self._send_lock = threading.Lock()
        self.v2_state = None  # EncryptedP2PState object needed for v2 p2p connections
        self.reconnect = False  # set if reconnection needs to happen

    @property
    def is_connected(self):
        return self._transport is not None

    @property
    def supports_v2_p2p(self):
        return self.v2_state is not None

    def peer_connect_helper(self, dstaddr, dstport, net, timeout_factor):
        assert not self.is_connected
        self.timeout_factor = timeout_factor
        self.dstaddr = dstaddr
        self.dstport = dstport
        # The initial message to send after the connection was made:
        self.on_connection_send_msg = None
        self.recvbuf = b""
        self.magic_bytes = MAGIC_BYTES[net]
        self.p2p_connected_to_node = dstport != 0

    def peer_connect(self, dstaddr, dstport, *, net, timeout_factor, supports_v2_p2p):
        self.peer_connect_helper(dstaddr, dstport, net, timeout_factor)
        if supports_v2_p2p:
            self.v2_state = EncryptedP2PState(initiating=True, net=net)

        loop = NetworkThread.network_event_loop
        logger.debug('Connecting to Bitcoin Node: %s:%d' % (self.dstaddr, self.dstport))
        coroutine = loop.create_connection(lambda: self, host=self.dstaddr, port=self.dstport)
        return lambda: loop.call_soon_threadsafe(loop.create_task, coroutine)

    def peer_accept_connection(self, connect_id, connect_cb=lambda: None, *, net, timeout_factor, supports_v2_p2p, reconnect):
        self.peer_connect_helper('0', 0, net, timeout_factor)
        self.reconnect = reconnect
        if supports_v2_p2p:
            self.v2_state = EncryptedP2PState(initiating=False, net=net)

        logger.debug('Listening for Bitcoin Node with id: {}'.format(connect_id))
        return lambda: NetworkThread.listen(self, connect_cb, idx=connect_id)

    def peer_disconnect(self):
        # Connection could have already been closed by other end.
        NetworkThread.network_event_loop.call_soon_threadsafe(lambda: self._transport and self._transport.abort())

    # Connection and disconnection methods

    def connection_made(self, transport):
        """asyncio callback when a connection is opened."""
        assert not self._transport
        info = transport.get_extra_info("socket")
        us = info.getsockname()
        them = info.getpeername()
        logger.debug(f"Connected: us={us[0]}:{us[1]}, them={them[0]}:{them[1]}")
        self.dstaddr = them[0]
        self.dstport = them[1]
        self._transport = transport
        # in an inbound connection to the TestNode with P2PConnection as the initiator, [TestNode <---- P2PConnection]
        # send the initial handshake immediately
        if self.supports_v2_p2p and self.v2_state.initiating and not self.v2_state.tried_v2_handshake:
            send_handshake_bytes = self.v2_state.initiate_v2_handshake()
            logger.debug(f"sending {len(self.v2_state.sent_garbage)} bytes of garbage data")
            self.send_raw_message(send_handshake_bytes)
        # for v1 outbound connections, send version message immediately after opening
        # (for v2 outbound connections, send it after the initial v2 handshake)
        if self.p2p_connected_to_node and not self.supports_v2_p2p:
            self.send_version()
        self.on_open()

    def connection_lost(self, exc):
        """asyncio callback when a connection is closed."""
        # don't display warning if reconnection needs to be attempted using v1 P2P
        if exc and not self.reconnect:
            logger.warning("Connection lost to {}:{} due to {}".format(self.dstaddr, self.dstport, exc))
        else:
            logger.debug("Closed connection to: %s:%d" % (self.dstaddr, self.dstport))
        self._transport = None
        self.recvbuf = b""
        self.on_close()

    # v2 handshake method
    def _on_data_v2_handshake(self):
        """v2 handshake performed before P2P messages are exchanged (see BIP324). P2PConnection is the initiator
        (in inbound connections to TestNode) and the responder (in outbound connections from TestNode).
        Performed by:
            * initiator using `initiate_v2_handshake()`, `complete_handshake()` and `authenticate_handshake()`
            * responder using `respond_v2_handshake()`, `complete_handshake()` and `authenticate_handshake()`

        `initiate_v2_handshake()` is immediately done by the initiator when the connection is established in
        `connection_made()`. The rest of the initial v2 handshake functions are handled here.
        """
        if not self.v2_state.peer:
            if not self.v2_state.initiating and not self.v2_state.sent_garbage:
                # if the responder hasn't sent garbage yet, the responder is still reading ellswift bytes
                # reads ellswift bytes till the first mismatch from 12 bytes V1_PREFIX
                length, send_handshake_bytes = self.v2_state.respond_v2_handshake(BytesIO(self.recvbuf))
                self.recvbuf = self.recvbuf[length:]
                if send_handshake_bytes == -1:
                    self.v2_state = None
                    return
                elif send_handshake_bytes:
                    logger.debug(f"sending {len(self.v2_state.sent_garbage)} bytes of garbage data")
                    self.send_raw_message(send_handshake_bytes)
                elif send_handshake_bytes == b"":
                    return  # only after send_handshake_bytes are sent can `complete_handshake()` be done

            # `complete_handshake()` reads the remaining ellswift bytes from recvbuf
            # and sends response after deriving shared ECDH secret using received ellswift bytes
            length, response = self.v2_state.complete_handshake(BytesIO(self.recvbuf))
            self.recvbuf = self.recvbuf[length:]
            if response:
                self.send_raw_message(response)
            else:
                return  # only after response is sent can `authenticate_handshake()` be done

        # `self.v2_state.peer` is instantiated only after shared ECDH secret/BIP324 derived keys and ciphers
        # is derived in `complete_handshake()`.
        # so `authenticate_handshake()` which uses the BIP324 derived ciphers gets called after `complete_handshake()`.
        assert self.v2_state.peer
        length, is_mac_auth = self.v2_state.authenticate_handshake(self.recvbuf)
        if not is_mac_auth:
            raise ValueError("invalid v2 mac tag in handshake authentication")
        self.recvbuf = self.recvbuf[length:]
        if self.v2_state.tried_v2_handshake:
            # for v2 outbound connections, send version message immediately after v2 handshake
            if self.p2p_connected_to_node:
                self.send_version()
            # process post-v2-handshake data immediately, if available
            if len(self.recvbuf) > 0:
                self._on_data()

    # Socket read methods

    def data_received(self, t):
        """asyncio callback when data is read from the socket."""
        if len(t) > 0:
            self.recvbuf += t
            if self.supports_v2_p2p and not self.v2_state.tried_v2_handshake:
                self._on_data_v2_handshake()
            else:
                self._on_data()

    def _on_data(self):
        """Try to read P2P messages from the recv buffer.

        This method reads data from the buffer in a loop. It deserializes,
        parses and verifies the P2P header, then passes the P2P payload to
        the on_message callback for processing."""
        try:
            while True:
                if self.supports_v2_p2p:
                    # v2 P2P messages are read
                    msglen, msg = self.v2_state.v2_receive_packet(self.recvbuf)
                    if msglen == -1:
                        raise ValueError("invalid v2 mac tag " + repr(self.recvbuf))
                    elif msglen == 0:  # need to receive more bytes in recvbuf
                        return
                    self.recvbuf = self.recvbuf[msglen:]

                    if msg is None:  # ignore decoy messages
                        return
                    assert msg  # application layer messages (which aren't decoy messages) are non-empty
                    shortid = msg[0]  # 1-byte short message type ID
                    if shortid == 0:
                        # next 12 bytes are interpreted as ASCII message type if shortid is b'\x00'
                        if len(msg) < 13:
                            raise IndexError("msg needs minimum required length of 13 bytes")
                        msgtype = msg[1:13].rstrip(b'\x00')
                        msg = msg[13:]  # msg is set to be payload
                    else:
                        # a 1-byte short message type ID
                        msgtype = SHORTID.get(shortid, f"unknown-{shortid}")
                        msg = msg[1:]
                else:
                    # v1 P2P messages are read
                    if len(self.recvbuf) < 4:
                        return
                    if self.recvbuf[:4] != self.magic_bytes:
                        raise ValueError("magic bytes mismatch: {} != {}".format(repr(self.magic_bytes), repr(self.recvbuf)))
                    if len(self.recvbuf) < 4 + 12 + 4 + 4:
                        return
                    msgtype = self.recvbuf[4:4+12].split(b"\x00", 1)[0]
                    msglen = struct.unpack("<i", self.recvbuf[4+12:4+12+4])[0]
                    checksum = self.recvbuf[4+12+4:4+12+4+4]
                    if len(self.recvbuf) < 4 + 12 + 4 + 4 + msglen:
                        return
                    msg = self.recvbuf[4+12+4+4:4+12+4+4+msglen]
                    th = sha256(msg)
                    h = sha256(th)
                    if checksum != h[:4]:
                        raise ValueError("got bad checksum " + repr(self.recvbuf))
                    self.recvbuf = self.recvbuf[4+12+4+4+msglen:]
                if msgtype not in MESSAGEMAP:
                    raise ValueError("Received unknown msgtype from %s:%d: '%s' %s" % (self.dstaddr, self.dstport, msgtype, repr(msg)))
                f = BytesIO(msg)
                t = MESSAGEMAP[msgtype]()
                t.deserialize(f)
                self._log_message("receive", t)
                self.on_message(t)
        except Exception as e:
            if not self.reconnect:
                logger.exception(f"Error reading message: {repr(e)}")
            raise

    def on_message(self, message):
        """Callback for processing a P2P payload. Must be overridden by derived class."""
        raise NotImplementedError

    # Socket write methods

    def send_without_ping(self, message, is_decoy=False):
        """Send a P2P message over the socket.

        This method takes a P2P payload, builds the P2P header and adds
        the message to the send buffer to be sent over the socket.

        When a message does not lead to a disconnect, send_and_ping is usually
        preferred to send a message. This can help to reduce intermittent test
        failures due to a missing sync. Also, it includes a call to
        sync_with_ping, allowing for concise test code.
        """
        with self._send_lock:
            tmsg = self.build_message(message, is_decoy)
            self._log_message("send", message)
            return self.send_raw_message(tmsg)

    def send_raw_message(self, raw_message_bytes):
        if not self.is_connected:
            raise IOError('Not connected')

        def maybe_write():
            if not self._transport:
                return
            if self._transport.is_closing():
                return
            self._transport.write(raw_message_bytes)
        NetworkThread.network_event_loop.call_soon_threadsafe(maybe_write)

    # Class utility methods

    def build_message(self, message, is_decoy=False):
        """Build a serialized P2P message"""
        msgtype = message.msgtype
        data = message.serialize()
        if self.supports_v2_p2p:
            if msgtype in SHORTID.values():
                tmsg = MSGTYPE_TO_SHORTID.get(msgtype).to_bytes(1, 'big')
            else:
                tmsg = b"\x00"
                tmsg += msgtype
                tmsg += b"\x00" * (12 - len(msgtype))
            tmsg += data
            return self.v2_state.v2_enc_packet(tmsg, ignore=is_decoy)
        else:
            tmsg = self.magic_bytes
            tmsg += msgtype
            tmsg += b"\x00" * (12 - len(msgtype))
            tmsg += len(data).to_bytes(4, "little")
            th = sha256(data)
            h = sha256(th)
            tmsg += h[:4]
            tmsg += data
            return tmsg

    def _log_message(self, direction, msg):
        """Logs a message being sent or received over the connection."""
        if direction == "send":
            log_message = "Send message to "
        elif direction == "receive":
            log_message = "Received message from "
        log_message += "%s:%d: %s" % (self.dstaddr, self.dstport, repr(msg)[:500])
        if len(log_message) > 500:
            log_message += "... (msg truncated)"
        logger.debug(log_message)


class P2PInterface(P2PConnection):
    """A high-level P2P interface class for communicating with a Bitcoin node.

    This class provides high-level callbacks for processing P2P message
    payloads, as well as convenience methods for interacting with the
    node over P2P.

    Individual testcases should subclass this and override the on_* methods
    if they want to alter message handling behaviour."""
    def __init__(self, support_addrv2=False, wtxidrelay=True):
        super().__init__()

        # Track number of messages of each type received.
        # Should be read-only in a test.
        self.message_count = defaultdict(int)

        # Track the most recent message of each type.
        # To wait for a message to be received, pop that message from
        # this and use self.wait_until.
        self.last_message = {}

        # A count of the number of ping messages we've sent to the node
        self.ping_counter = 1

        # The network services received from the peer
        self.nServices = 0

        self.support_addrv2 = support_addrv2

        # If the peer supports wtxid-relay
        self.wtxidrelay = wtxidrelay

    def peer_connect_send_version(self, services):
        # Send a version msg
        vt = msg_version()
        vt.nVersion = P2P_VERSION
        vt.strSubVer = P2P_SUBVERSION
        vt.relay = P2P_VERSION_RELAY
        vt.nServices = services
        vt.addrTo.ip = self.dstaddr
        vt.addrTo.port = self.dstport
        vt.addrFrom.ip = "0.0.0.0"
        vt.addrFrom.port = 0
        self.on_connection_send_msg = vt  # Will be sent in connection_made callback

    def peer_connect(self, *, services=P2P_SERVICES, send_version, **kwargs):
        create_conn = super().peer_connect(**kwargs)

        if send_version:
            self.peer_connect_send_version(services)

        return create_conn

    def peer_accept_connection(self, *args, services=P2P_SERVICES, **kwargs):
        create_conn = super().peer_accept_connection(*args, **kwargs)
        self.peer_connect_send_version(services)

        return create_conn

    # Message receiving methods

    def on_message(self, message):
        """Receive message and dispatch message to appropriate callback.

        We keep a count of how many of each message type has been received
        and the most recent message of each type."""
        with p2p_lock:
            try:
                msgtype = message.msgtype.decode('ascii')
                self.message_count[msgtype] += 1
                self.last_message[msgtype] = message
                getattr(self, 'on_' + msgtype)(message)
            except Exception:
                print("ERROR delivering %s (%s)" % (repr(message), sys.exc_info()[0]))
                raise

    # Callback methods. Can be overridden by subclasses in individual test
    # cases to provide custom message handling behaviour.

    def on_open(self):
        pass

    def on_close(self):
        pass

    def on_addr(self, message): pass
    def on_addrv2(self, message): pass
    def on_block(self, message): pass
    def on_blocktxn(self, message): pass
    def on_cfcheckpt(self, message): pass
    def on_cfheaders(self, message): pass
    def on_cfilter(self, message): pass
    def on_cmpctblock(self, message): pass
    def on_feature(self, message): pass
    def on_feefilter(self, message): pass
    def on_filteradd(self, message): pass
    def on_filterclear(self, message): pass
    def on_filterload(self, message): pass
    def on_getaddr(self, message): pass
    def on_getblocks(self, message): pass
    def on_getblocktxn(self, message): pass
    def on_getdata(self, message): pass
    def on_getheaders(self, message): pass
    def on_headers(self, message): pass
    def on_mempool(self, message): pass
    def on_merkleblock(self, message): pass
    def on_notfound(self, message): pass
    def on_pong(self, message): pass
    def on_sendaddrv2(self, message): pass
    def on_sendcmpct(self, message): pass
    def on_sendheaders(self, message): pass
    def on_sendtxrcncl(self, message): pass
    def on_tx(self, message): pass
    def on_wtxidrelay(self, message): pass

    def on_inv(self, message):
        want = msg_getdata()
        for i in message.inv:
            if i.type != 0:
                want.inv.append(i)
        if len(want.inv):
            self.send_without_ping(want)

    def on_ping(self, message):
        self.send_without_ping(msg_pong(message.nonce))

    def on_verack(self, message):
        pass

    def on_version(self, message):
        assert message.nVersion >= MIN_P2P_VERSION_SUPPORTED, "Version {} received. Test framework only supports versions greater than {}".format(message.nVersion, MIN_P2P_VERSION_SUPPORTED)
        # for inbound connections, reply to version with own version message
        # (could be due to v1 reconnect after a failed v2 handshake)
        if not self.p2p_connected_to_node:
            self.send_version()
            self.reconnect = False
        if message.nVersion >= 70016 and self.wtxidrelay:
            self.send_without_ping(msg_wtxidrelay())
        if self.support_addrv2:
            self.send_without_ping(msg_sendaddrv2())
        self.send_without_ping(msg_verack())
        self.nServices = message.nServices
        self.relay = message.relay
        if self.p2p_connected_to_node:
            self.send_without_ping(msg_getaddr())

    # Connection helper methods

    def wait_until(self, test_function_in, *, timeout=60, check_connected=True, check_interval=0.05):
        def test_function():
            if check_connected:
                assert self.is_connected
            return test_function_in()

        wait_until_helper_internal(test_function, timeout=timeout, lock=p2p_lock, timeout_factor=self.timeout_factor, check_interval=check_interval)

    def wait_for_connect(self, *, timeout=60):
        def test_function():
            return self.is_connected

        self.wait_until(test_function, timeout=timeout, check_connected=False)

    def wait_for_disconnect(self, *, timeout=60):
        def test_function():
            return not self.is_connected

        self.wait_until(test_function, timeout=timeout, check_connected=False)

    def wait_for_reconnect(self, *, timeout=60):
        def test_function():
            return self.is_connected and self.last_message.get('version') and not self.supports_v2_p2p
        self.wait_until(test_function, timeout=timeout, check_connected=False)

    # Message receiving helper methods

    def wait_for_tx(self, txid, *, timeout=60):
        def test_function():
            if not self.last_message.get('tx'):
                return False
            return self.last_message['tx'].tx.txid_hex == txid

        self.wait_until(test_function, timeout=timeout)

    def wait_for_block(self, blockhash, *, timeout=60):
        def test_function():
            return self.last_message.get("block") and self.last_message["block"].block.hash_int == blockhash

        self.wait_until(test_function, timeout=timeout)

    def wait_for_header(self, blockhash, *, timeout=60):
        def test_function():
            last_headers = self.last_message.get('headers')
            if not last_headers:
                return False
            return last_headers.headers[0].hash_int == int(blockhash, 16)

        self.wait_until(test_function, timeout=timeout)

    def wait_for_merkleblock(self, blockhash, *, timeout=60):
        def test_function():
            last_filtered_block = self.last_message.get('merkleblock')
            if not last_filtered_block:
                return False
            return last_filtered_block.merkleblock.header.hash_int == int(blockhash, 16)

        self.wait_until(test_function, timeout=timeout)

    def wait_for_getdata(self, hash_list, *, timeout=60):
        """Waits for a getdata message.

        The object hashes in the inventory vector must match the provided hash_list."""
        def test_function():
            last_data = self.last_message.get("getdata")
            if not last_data:
                return False
            return [x.hash for x in last_data.inv] == hash_list

        self.wait_until(test_function, timeout=timeout)

    def wait_for_getheaders(self, block_hash=None, *, timeout=60):
        """Waits for a getheaders message containing a specific block hash.

        If no block hash is provided, checks whether any getheaders message has been received by the node."""
        def test_function():
            last_getheaders = self.last_message.pop("getheaders", None)
            if block_hash is None:
                return last_getheaders
            if last_getheaders is None:
                return False
            return block_hash == last_getheaders.locator.vHave[0]

        self.wait_until(test_function, timeout=timeout)

    def wait_for_inv(self, expected_inv, *, timeout=60):
        """Waits for an INV message and checks that the first inv object in the message was as expected."""
        if len(expected_inv) > 1:
            raise NotImplementedError("wait_for_inv() will only verify the first inv object")

        def test_function():
            return self.last_message.get("inv") and \
                                self.last_message["inv"].inv[0].type == expected_inv[0].type and \
                                self.last_message["inv"].inv[0].hash == expected_inv[0].hash

        self.wait_until(test_function, timeout=timeout)

    def wait_for_verack(self, *, timeout=60):
        def test_function():
            return "verack" in self.last_message

        self.wait_until(test_function, timeout=timeout)

    # Message sending helper functions

    def send_version(self):
        if self.on_connection_send_msg:
            self.send_without_ping(self.on_connection_send_msg)
            self.on_connection_send_msg = None  # Never used again

    def send_and_ping(self, message, *, timeout=60):
        self.send_without_ping(message)
        self.sync_with_ping(timeout=timeout)

    def sync_with_ping(self, *, timeout=60):
        """Ensure ProcessMessages and SendMessages is called on this connection"""
        # Sending two pings back-to-back, requires that the node calls
        # `ProcessMessage` twice, and thus ensures `SendMessages` must have
        # been called at least once
        self.send_without_ping(msg_ping(nonce=0))
        self.send_without_ping(msg_ping(nonce=self.ping_counter))

        def test_function():
            return self.last_message.get("pong") and self.last_message["pong"].nonce == self.ping_counter

        self.wait_until(test_function, timeout=timeout)
        self.ping_counter += 1


# One lock for synchronizing all data access between the network event loop (see
# NetworkThread below) and the thread running the test logic.  For simplicity,
# P2PConnection acquires this lock whenever delivering a message to a P2PInterface.
# This lock should be acquired in the thread running the test logic to synchronize
# access to any data shared with the P2PInterface or P2PConnection.
p2p_lock = threading.Lock()


class NetworkThread(threading.Thread):
    network_event_loop = None

    def __init__(self):
        super().__init__(name="NetworkThread")
        # There is only one event loop and no more than one thread must be created
        assert not self.network_event_loop

        NetworkThread.listeners = {}
        NetworkThread.protos = {}

    def run(self):
        """Start the network thread."""
        NetworkThread.network_event_loop = asyncio.SelectorEventLoop() if platform.system() == "Windows" else asyncio.new_event_loop()
        self.network_event_loop.run_forever()

    def close(self, *, timeout):
        """Close the connections and network event loop."""
        self.network_event_loop.call_soon_threadsafe(self.network_event_loop.stop)
        wait_until_helper_internal(lambda: not self.network_event_loop.is_running(), timeout=timeout)
        self.network_event_loop.close()
        self.join(timeout)
        # Safe to remove event loop.
        NetworkThread.network_event_loop = None

    @classmethod
    def listen(cls, p2p, callback, port=None, addr=None, idx=1):
        """ Ensure a listening server is running on the given port, and run the
        protocol specified by `p2p` on the next connection to it. Once ready
        for connections, call `callback`."""

        if port is None:
            assert 0 < idx <= MAX_NODES
            port = p2p_port(MAX_NODES - idx)
        if addr is None:
            addr = '127.0.0.1'

        def exception_handler(loop, context):
            if not p2p.reconnect:
                loop.default_exception_handler(context)

        cls.network_event_loop.set_exception_handler(exception_handler)
        coroutine = cls.create_listen_server(addr, port, callback, p2p)
        cls.network_event_loop.call_soon_threadsafe(cls.network_event_loop.create_task, coroutine)

    @classmethod
    async def create_listen_server(cls, addr, port, callback, proto):
        def peer_protocol():
            """Returns a function that does the protocol handling for a new
            connection. To allow different connections to have different
            behaviors, the protocol function is first put in the cls.protos
            dict. When the connection is made, the function removes the
            protocol function from that dict, and returns it so the event loop
            can start executing it."""
            response = cls.protos.get((addr, port))
            # remove protocol function from dict only when reconnection doesn't need to happen/already happened
            if not proto.reconnect:
                cls.protos[(addr, port)] = None
            return response

        if port == 0 or (addr, port) not in cls.listeners:
            # When creating a listener on a given (addr, port) we only need to
            # do it once. If we want different behaviors for different
            # connections, we can accomplish this by providing different
            # `proto` functions

            if port == 0:
                # Manually create the socket in order to set the range to be
                # used for the port before the bind() call.
                if ipaddress.ip_address(addr).version == 4:
                    address_family = socket.AF_INET
                else:
                    address_family = socket.AF_INET6
                s = socket.socket(address_family)
                set_ephemeral_port_range(s)
                s.bind((addr, 0))
                s.listen()
                listener = await cls.network_event_loop.create_server(peer_protocol, sock=s)
                port = listener.sockets[0].getsockname()[1]
            else:
                listener = await cls.network_event_loop.create_server(peer_protocol, addr, port)

            logger.debug("Listening server on %s:%d should be started" % (addr, port))
            cls.listeners[(addr, port)] = listener

        cls.protos[(addr, port)] = proto
        callback(addr, port)


class P2PDataStore(P2PInterface):
    """A P2P data store class.

    Keeps a block and transaction store and responds correctly to getdata and getheaders requests."""

    def __init__(self):
        super().__init__()
        # store of blocks. key is block hash, value is a CBlock object
        self.block_store = {}
        self.last_block_hash = ''
        # store of txs. key is txid, value is a CTransaction object
        self.tx_store = {}
        self.getdata_requests = []

    def on_getdata(self, message):
        """Check for the tx/block in our stores and if found, reply with MSG_TX or MSG_BLOCK."""
        for inv in message.inv:
            self.getdata_requests.append(inv.hash)
            invtype = inv.type & MSG_TYPE_MASK
            if (invtype == MSG_TX or invtype == MSG_WTX) and inv.hash in self.tx_store.keys():
                self.send_without_ping(msg_tx(self.tx_store[inv.hash]))
            elif invtype == MSG_BLOCK and inv.hash in self.block_store.keys():
                self.send_without_ping(msg_block(self.block_store[inv.hash]))
            else:
                logger.debug('getdata message type {} received.'.format(hex(inv.type)))

    def on_getheaders(self, message):
        """Search back through our block store for the locator, and reply with a headers message if found."""

        locator, hash_stop = message.locator, message.hashstop

        # Assume that the most recent block added is the tip
        if not self.block_store:
            return

        headers_list = [self.block_store[self.last_block_hash]]
        while headers_list[-1].hash_int not in locator.vHave:
            # Walk back through the block store, adding headers to headers_list
            # as we go.
            prev_block_hash = headers_list[-1].hashPrevBlock
            if prev_block_hash in self.block_store:
                prev_block_header = CBlockHeader(self.block_store[prev_block_hash])
                headers_list.append(prev_block_header)
                if prev_block_header.hash_int == hash_stop:
                    # if this is the hashstop header, stop here
                    break
            else:
                logger.debug('block hash {} not found in block store'.format(hex(prev_block_hash)))
                break

        # Truncate the list if there are too many headers
        headers_list = headers_list[:-MAX_HEADERS_RESULTS - 1:-1]
        response = msg_headers(headers_list)

        if response is not None:
            self.send_without_ping(response)

    def send_blocks_and_test(self, blocks, node, *, success=True, force_send=False, reject_reason=None, expect_disconnect=False, timeout=60, is_decoy=False):
        """Send blocks to test node and test whether the tip advances.

         - add all blocks to our block_store
         - send a headers message for the final block
         - the on_getheaders handler will ensure that any getheaders are responded to
         - if force_send is False: wait for getdata for each of the blocks. The on_getdata handler will
           ensure that any getdata messages are responded to. Otherwise send the full block unsolicited.
         - if success is True: assert that the node's tip is the last block in blocks at the end of the operation.
         - if success is False: assert that the node's tip isn't the last block in blocks at the end of the operation
         - if reject_reason is set: assert that the correct reject message is logged"""

        with p2p_lock:
            for block in blocks:
                self.block_store[block.hash_int] = block
                self.last_block_hash = block.hash_int

        reject_reason = [reject_reason] if reject_reason else []
        with node.assert_debug_log(expected_msgs=reject_reason):
            if is_decoy:  # since decoy messages are ignored by the recipient - no need to wait for response
                force_send = True
            if force_send:
                for b in blocks:
                    self.send_without_ping(msg_block(block=b), is_decoy)
            else:
                self.send_without_ping(msg_headers([CBlockHeader(block) for block in blocks]))
                self.wait_until(
                    lambda: blocks[-1].hash_int in self.getdata_requests,
                    timeout=timeout,
                    check_connected=success,
                )

            if expect_disconnect:
                self.wait_for_disconnect(timeout=timeout)
            else:
                self.sync_with_ping(timeout=timeout)

            if success:
                self.wait_until(lambda: node.getbestblockhash() == blocks[-1].hash_hex, timeout=timeout)
            else:
                assert_not_equal(node.getbestblockhash(), blocks[-1].hash_hex)

    def send_txs_and_test(self, txs, node, *, success=True, reject_reason=None):
        """Send txs to test node and test whether they're accepted to the mempool.

         - add all txs to our tx_store
         - send tx messages for all txs
         - if success is True/False: assert that the txs are/are not accepted to the mempool
         - if reject_reason is set: assert that the correct reject message is logged."""

        with p2p_lock:
            for tx in txs:
                self.tx_store[tx.txid_int] = tx

        reject_reason = [reject_reason] if reject_reason else []
        with node.assert_debug_log(expected_msgs=reject_reason):
            for tx in txs:
                self.send_without_ping(msg_tx(tx))

            self.sync_with_ping()

            raw_mempool = node.getrawmempool()
            if success:
                # Check that all txs are now in the mempool
                for tx in txs:
                    assert tx.txid_hex in raw_mempool, "{} not found in mempool".format(tx.txid_hex)
            else:
                # Check that none of the txs are now in the mempool
                for tx in txs:
                    assert tx.txid_hex not in raw_mempool, "{} tx found in mempool".format(tx.txid_hex)

class P2PTxInvStore(P2PInterface):
    """A P2PInterface which stores a count of how many times each txid has been announced."""
    def __init__(self, **kwargs):
        super().__init__(**kwargs)
        self.tx_invs_received = defaultdict(int)

    def on_inv(self, message):
        super().on_inv(message) # Send getdata in response.
        # Store how many times invs have been received for each tx.
        for i in message.inv:
            if (i.type == MSG_TX) or (i.type == MSG_WTX):
                # save txid
                self.tx_invs_received[i.hash] += 1

    def get_invs(self):
        with p2p_lock:
            return list(self.tx_invs_received.keys())

    def wait_for_broadcast(self, txns, *, timeout=60):
        """Waits for the txns (list of txids) to complete initial broadcast.
        The mempool should mark unbroadcast=False for these transactions.
        """
        # Wait until invs have been received (and getdatas sent) for each txid.
        self.wait_until(lambda: set(self.tx_invs_received.keys()) == set([int(tx, 16) for tx in txns]), timeout=timeout)
        # Flush messages and wait for the getdatas to be processed
        self.sync_with_ping()

def start_p2p_listener(network_thread, listener):
    listen_addr = ""
    listen_port = 0

    def on_listen_done(addr, port):
        nonlocal listen_addr
        nonlocal listen_port
        listen_addr = addr
        listen_port = port

    # Use port=0 to let the OS assign an available port. This
    # avoids "address already in use" errors when tests run
    # concurrently or ports are still in TIME_WAIT state.
    network_thread.listen(
        addr="127.0.0.1",
        port=0,
        p2p=listener,
        callback=on_listen_done)

    # Wait until the callback has been called.
    wait_until_helper_internal(lambda: listen_port != 0)

    return listen_addr, listen_port
