#!/usr/bin/env python3
# Copyright (c) 2024-present The Bitcoin Core developers
# Distributed under the MIT software license, see the accompanying
# file COPYING or http://www.opensource.org/licenses/mit-license.php.
"""Helpful routines for mempool testing."""
import random

from .blocktools import (
    COINBASE_MATURITY,
)
from .messages import (
    COutPoint,
    CTransaction,
    CTxIn,
    CTxInWitness,
    CTxOut,
)
from .script import (
    CScript,
    OP_RETURN,
)
from .util import (
    assert_equal,
    assert_greater_than,
    create_lots_of_big_transactions,
    gen_return_txouts,
)
from .wallet import (
    MiniWallet,
)

# Default for -minrelaytxfee in sat/kvB
DEFAULT_MIN_RELAY_TX_FEE = 100
# Default for -incrementalrelayfee in sat/kvB
DEFAULT_INCREMENTAL_RELAY_FEE = 100
DEFAULT_CLUSTER_LIMIT = 64
DEFAULT_CLUSTER_SIZE_LIMIT_KVB = 101

TRUC_MAX_VSIZE = 10000
TRUC_CHILD_MAX_VSIZE = 1000

def assert_mempool_contents(test_framework, node, expected=None, sync=True):
    """Assert that all transactions in expected are in the mempool,
    and no additional ones exist. 'expected' is an array of
    CTransaction objects
    """
    if sync:
        test_framework.sync_mempools()
    if not expected:
        expected = []
    assert_equal(len(expected), len(set(expected)))
    mempool = node.getrawmempool(verbose=False)
    assert_equal(len(mempool), len(expected))
    for tx in expected:
        assert tx.txid_hex in mempool


def fill_mempool(test_framework, node, *, tx_sync_fun=None):
    """Fill mempool until eviction.

    Allows for simpler testing of scenarios with floating mempoolminfee > minrelay
    Requires -maxmempool=5.
    To avoid unintentional tx dependencies, the mempool filling txs are created with a
    tagged ephemeral miniwallet instance.
    """
    test_framework.log.info("Fill the mempool until eviction is triggered and the mempoolminfee rises")
    txouts = gen_return_txouts()
    minrelayfee = node.getnetworkinfo()['relayfee']

    tx_batch_size = 1
    num_of_batches = 75
    # Generate UTXOs to flood the mempool
    # 1 to create a tx initially that will be evicted from the mempool later
    # 75 transactions each with a fee rate higher than the previous one
    ephemeral_miniwallet = MiniWallet(node, tag_name="fill_mempool_ephemeral_wallet")
    test_framework.generate(ephemeral_miniwallet, 1 + num_of_batches * tx_batch_size)

    # Mine enough blocks so that the UTXOs are allowed to be spent
    test_framework.generate(node, COINBASE_MATURITY - 1)

    # Get all UTXOs up front to ensure none of the transactions spend from each other, as that may
    # change their effective feerate and thus the order in which they are selected for eviction.
    confirmed_utxos = [ephemeral_miniwallet.get_utxo(confirmed_only=True) for _ in range(num_of_batches * tx_batch_size + 1)]
    assert_equal(len(confirmed_utxos), num_of_batches * tx_batch_size + 1)

    test_framework.log.debug("Create a mempool tx that will be evicted")
    tx_to_be_evicted_id = ephemeral_miniwallet.send_self_transfer(
        from_node=node, utxo_to_spend=confirmed_utxos.pop(0), fee_rate=minrelayfee)["txid"]

    def send_batch(fee):
        utxos = confirmed_utxos[:tx_batch_size]
        create_lots_of_big_transactions(ephemeral_miniwallet, node, fee, tx_batch_size, txouts, utxos)
        del confirmed_utxos[:tx_batch_size]

    # Increase the tx fee rate to give the subsequent transactions a higher priority in the mempool
    # The tx has an approx. vsize of 65k, i.e. multiplying the previous fee rate (in sats/kvB)
    # by 130 should result in a fee that corresponds to 2x of that fee rate
    base_fee = minrelayfee * 130
    batch_fees = [(i + 1) * base_fee for i in range(num_of_batches)]

    test_framework.log.debug("Fill up the mempool with txs with higher fee rate")
    for fee in batch_fees[:-3]:
        send_batch(fee)
    tx_sync_fun() if tx_sync_fun else test_framework.sync_mempools()  # sync before any eviction
    assert_equal(node.getmempoolinfo()["mempoolminfee"], minrelayfee)
    for fee in batch_fees[-3:]:
        send_batch(fee)
    tx_sync_fun() if tx_sync_fun else test_framework.sync_mempools()  # sync after all evictions

    test_framework.log.debug("The tx should be evicted by now")
    # The number of transactions created should be greater than the ones present in the mempool
    assert_greater_than(tx_batch_size * num_of_batches, len(node.getrawmempool()))
    # Initial tx created should not be present in the mempool anymore as it had a lower fee rate
    assert tx_to_be_evicted_id not in node.getrawmempool()

    test_framework.log.debug("Check that mempoolminfee is larger than minrelaytxfee")
    assert_equal(node.getmempoolinfo()['minrelaytxfee'], minrelayfee)
    assert_greater_than(node.getmempoolinfo()['mempoolminfee'], minrelayfee)

def tx_in_orphanage(node, tx: CTransaction) -> bool:
    """Returns true if the transaction is in the orphanage."""
    found = [o for o in node.getorphantxs(verbosity=1) if o["txid"] == tx.txid_hex and o["wtxid"] == tx.wtxid_hex]
    return len(found) == 1

def create_large_orphan():
    """Create huge orphan transaction"""
    tx = CTransaction()
    # Nonexistent UTXO
    tx.vin = [CTxIn(COutPoint(random.randrange(1 << 256), random.randrange(1, 100)))]
    tx.wit.vtxinwit = [CTxInWitness()]
    tx.wit.vtxinwit[0].scriptWitness.stack = [CScript(b'X' * 390000)]
    tx.vout = [CTxOut(100, CScript([OP_RETURN, b'a' * 20]))]
    return tx
