#!/usr/bin/env python3
# Copyright (c) 2015-present The Bitcoin Core developers
# Distributed under the MIT software license, see the accompanying
# file COPYING or http://www.opensource.org/licenses/mit-license.php.
"""Utilities for doing coverage analysis on the RPC interface.

Provides a way to track which RPC commands are exercised during
testing.
"""

import os

from .authproxy import AuthServiceProxy
from typing import Optional

REFERENCE_FILENAME = 'rpc_interface.txt'


class AuthServiceProxyWrapper():
    """
    An object that wraps AuthServiceProxy to record specific RPC calls.

    """
    def __init__(self, auth_service_proxy_instance: AuthServiceProxy, rpc_url: str, coverage_logfile: Optional[str]=None):
        """
        Kwargs:
            auth_service_proxy_instance: the instance being wrapped.
            rpc_url: url of the RPC instance being wrapped
            coverage_logfile: if specified, write each service_name
                out to a file when called.

        """
        self.auth_service_proxy_instance = auth_service_proxy_instance
        self.rpc_url = rpc_url
        self.coverage_logfile = coverage_logfile

    def __getattr__(self, name):
        return_val = getattr(self.auth_service_proxy_instance, name)
        if not isinstance(return_val, type(self.auth_service_proxy_instance)):
            # If proxy getattr returned an unwrapped value, do the same here.
            return return_val
        return AuthServiceProxyWrapper(return_val, self.rpc_url, self.coverage_logfile)

    def __call__(self, *args, **kwargs):
        """
        Delegates to AuthServiceProxy, then writes the particular RPC method
        called to a file.

        """
        return_val = self.auth_service_proxy_instance.__call__(*args, **kwargs)
        self._log_call()
        return return_val

    def _log_call(self):
        rpc_method = self.auth_service_proxy_instance._service_name

        if self.coverage_logfile:
            with open(self.coverage_logfile, 'a+') as f:
                f.write("%s\n" % rpc_method)

    def __truediv__(self, relative_uri):
        return AuthServiceProxyWrapper(self.auth_service_proxy_instance / relative_uri,
                                       self.rpc_url,
                                       self.coverage_logfile)

    def get_request(self, *args, **kwargs):
        self._log_call()
        return self.auth_service_proxy_instance.get_request(*args, **kwargs)

def get_filename(dirname, n_node):
    """
    Get a filename unique to the test process ID and node.

    This file will contain a list of RPC commands covered.
    """
    pid = str(os.getpid())
    return os.path.join(
        dirname, "coverage.pid%s.node%s.txt" % (pid, str(n_node)))


def write_all_rpc_commands(dirname: str, node: AuthServiceProxy) -> bool:
    """
    Write out a list of all RPC functions available in `bitcoin-cli` for
    coverage comparison. This will only happen once per coverage
    directory.

    Args:
        dirname: temporary test dir
        node: client

    Returns:
        if the RPC interface file was written.

    """
    filename = os.path.join(dirname, REFERENCE_FILENAME)

    if os.path.isfile(filename):
        return False

    help_output = node.help().split('\n')
    commands = set()

    for line in help_output:
        line = line.strip()

        # Ignore blanks and headers
        if line and not line.startswith('='):
            commands.add("%s\n" % line.split()[0])

    with open(filename, 'w') as f:
        f.writelines(list(commands))

    return True
