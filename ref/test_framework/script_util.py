#!/usr/bin/env python3
# Copyright (c) 2019-present The Bitcoin Core developers
# Distributed under the MIT software license, see the accompanying
# file COPYING or http://www.opensource.org/licenses/mit-license.php.
"""Useful Script constants and utils."""
import unittest

from copy import deepcopy

from test_framework.messages import (
    COutPoint,
    CTransaction,
    CTxIn,
    CTxInWitness,
    CTxOut,
    ser_compact_size,
    sha256,
)
from test_framework.script import (
    CScript,
    OP_0,
    OP_1,
    OP_15,
    OP_16,
    OP_CHECKMULTISIG,
    OP_CHECKSIG,
    OP_DUP,
    OP_ELSE,
    OP_ENDIF,
    OP_EQUAL,
    OP_EQUALVERIFY,
    OP_HASH160,
    OP_IF,
    OP_RETURN,
    OP_TRUE,
    hash160,
)

from test_framework.util import (
    assert_greater_than_or_equal,
    assert_equal,
)

# Maximum number of potentially executed legacy signature operations in validating a transaction.
MAX_STD_LEGACY_SIGOPS = 2_500

# Maximum number of sigops per standard P2SH redeemScript.
MAX_STD_P2SH_SIGOPS = 15

# To prevent a "tx-size-small" policy rule error, a transaction has to have a
# non-witness size of at least 65 bytes (MIN_STANDARD_TX_NONWITNESS_SIZE in
# src/policy/policy.h). Considering a Tx with the smallest possible single
# input (blank, empty scriptSig), and with an output omitting the scriptPubKey,
# we get to a minimum size of 60 bytes:
#
# Tx Skeleton: 4 [Version] + 1 [InCount] + 1 [OutCount] + 4 [LockTime] = 10 bytes
# Blank Input: 32 [PrevTxHash] + 4 [Index] + 1 [scriptSigLen] + 4 [SeqNo] = 41 bytes
# Output:      8 [Amount] + 1 [scriptPubKeyLen] = 9 bytes
#
# Hence, the scriptPubKey of the single output has to have a size of at
# least 5 bytes.
MIN_STANDARD_TX_NONWITNESS_SIZE = 65
MIN_PADDING = MIN_STANDARD_TX_NONWITNESS_SIZE - 10 - 41 - 9
assert_equal(MIN_PADDING, 5)

# This script cannot be spent, allowing dust output values under
# standardness checks
DUMMY_MIN_OP_RETURN_SCRIPT = CScript([OP_RETURN] + ([OP_0] * (MIN_PADDING - 1)))
assert_equal(len(DUMMY_MIN_OP_RETURN_SCRIPT), MIN_PADDING)

PAY_TO_ANCHOR = CScript([OP_1, bytes.fromhex("4e73")])
ANCHOR_ADDRESS = "bcrt1pfeesnyr2tx"

def key_to_p2pk_script(key):
    key = check_key(key)
    return CScript([key, OP_CHECKSIG])


def keys_to_multisig_script(keys, *, k=None):
    n = len(keys)
    if k is None:  # n-of-n multisig by default
        k = n
    assert k <= n
    checked_keys = [check_key(key) for key in keys]
    return CScript([k] + checked_keys + [n, OP_CHECKMULTISIG])


def keyhash_to_p2pkh_script(hash):
    assert_equal(len(hash), 20)
    return CScript([OP_DUP, OP_HASH160, hash, OP_EQUALVERIFY, OP_CHECKSIG])


def scripthash_to_p2sh_script(hash):
    assert_equal(len(hash), 20)
    return CScript([OP_HASH160, hash, OP_EQUAL])


def key_to_p2pkh_script(key):
    key = check_key(key)
    return keyhash_to_p2pkh_script(hash160(key))


def script_to_p2sh_script(script):
    script = check_script(script)
    return scripthash_to_p2sh_script(hash160(script))


def key_to_p2sh_p2wpkh_script(key):
    key = check_key(key)
    p2shscript = CScript([OP_0, hash160(key)])
    return script_to_p2sh_script(p2shscript)


def program_to_witness_script(version, program):
    if isinstance(program, str):
        program = bytes.fromhex(program)
    assert 0 <= version <= 16
    assert 2 <= len(program) <= 40
    assert version > 0 or len(program) in [20, 32]
    return CScript([version, program])


def script_to_p2wsh_script(script):
    script = check_script(script)
    return program_to_witness_script(0, sha256(script))


def key_to_p2wpkh_script(key):
    key = check_key(key)
    return program_to_witness_script(0, hash160(key))


def script_to_p2sh_p2wsh_script(script):
    script = check_script(script)
    p2shscript = CScript([OP_0, sha256(script)])
    return script_to_p2sh_script(p2shscript)

def bulk_vout(tx, target_vsize):
    if target_vsize < tx.get_vsize():
        raise RuntimeError(f"target_vsize {target_vsize} is less than transaction virtual size {tx.get_vsize()}")
    # determine number of needed padding bytes
    dummy_vbytes = target_vsize - tx.get_vsize()
    # compensate for the increase of the compact-size encoded script length
    # (note that the length encoding of the unpadded output script needs one byte)
    dummy_vbytes -= len(ser_compact_size(dummy_vbytes)) - 1
    tx.vout[-1].scriptPubKey = CScript([OP_RETURN] + [OP_1] * dummy_vbytes)
    assert_equal(tx.get_vsize(), target_vsize)

def output_key_to_p2tr_script(key):
    assert_equal(len(key), 32)
    return program_to_witness_script(1, key)


def check_key(key):
    if isinstance(key, str):
        key = bytes.fromhex(key)  # Assuming this is hex string
    if isinstance(key, bytes) and (len(key) == 33 or len(key) == 65):
        return key
    assert False


def check_script(script):
    if isinstance(script, str):
        script = bytes.fromhex(script)  # Assuming this is hex string
    if isinstance(script, bytes) or isinstance(script, CScript):
        return script
    assert False


def build_malleated_tx_package(*, parent: CTransaction, rebalance_parent_output_amount, child_amount):
    """
    Returns a transaction package with valid witness:
    - Parent transaction whose last output contains a script that has two spending conditions
    - Two malleated child transactions with same txid but different wtxids because of different witnesses

    Args:
        parent: Transaction with modifiable outputs. Either unsigned (sign after
        calling this function) or anyone-can-spend (e.g., MiniWallet's OP_TRUE).
    """
    hashlock = hash160(b'Preimage')
    witness_script = CScript([OP_IF, OP_HASH160, hashlock, OP_EQUAL, OP_ELSE, OP_TRUE, OP_ENDIF])
    witness_program = sha256(witness_script)
    script_pubkey = CScript([OP_0, witness_program])

    # Append to the transaction the vout containing the script supporting 2 spending conditions
    assert_greater_than_or_equal(len(parent.vout), 1)
    last_output = parent.vout[len(parent.vout) - 1]
    assert_greater_than_or_equal(last_output.nValue, rebalance_parent_output_amount)
    last_output.nValue -= rebalance_parent_output_amount
    parent.vout.append(CTxOut(rebalance_parent_output_amount, script_pubkey))


    # Create 2 valid children that differ only in witness data.
    # 1. Create a new transaction with witness solving first branch
    child_witness_script = CScript([OP_TRUE])
    child_witness_program = sha256(child_witness_script)
    child_script_pubkey = CScript([OP_0, child_witness_program])
    child_one = CTransaction()

    child_one.vin.append(CTxIn(COutPoint(int(parent.txid_hex, 16), len(parent.vout) - 1), b""))
    child_one.vout.append(CTxOut(child_amount, child_script_pubkey))
    child_one.wit.vtxinwit.append(CTxInWitness())
    child_one.wit.vtxinwit[0].scriptWitness.stack = [b'Preimage', b'\x01', witness_script]
    # 2. Create another identical transaction with witness solving second branch
    child_two = deepcopy(child_one)
    child_two.wit.vtxinwit[0].scriptWitness.stack = [b'', witness_script]
    return parent, child_one, child_two


class TestFrameworkScriptUtil(unittest.TestCase):
    def test_multisig(self):
        fake_pubkey = bytes([0]*33)
        # check correct encoding of P2MS script with n,k <= 16
        normal_ms_script = keys_to_multisig_script([fake_pubkey]*16, k=15)
        self.assertEqual(len(normal_ms_script), 1 + 16*34 + 1 + 1)
        self.assertTrue(normal_ms_script.startswith(bytes([OP_15])))
        self.assertTrue(normal_ms_script.endswith(bytes([OP_16, OP_CHECKMULTISIG])))

        # check correct encoding of P2MS script with n,k > 16
        max_ms_script = keys_to_multisig_script([fake_pubkey]*20, k=19)
        self.assertEqual(len(max_ms_script), 2 + 20*34 + 2 + 1)
        self.assertTrue(max_ms_script.startswith(bytes([1, 19])))  # using OP_PUSH1
        self.assertTrue(max_ms_script.endswith(bytes([1, 20, OP_CHECKMULTISIG])))
