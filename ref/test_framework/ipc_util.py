#!/usr/bin/env python3
# Copyright (c) The Bitcoin Core developers
# Distributed under the MIT software license, see the accompanying
# file COPYING or http://www.opensource.org/licenses/mit-license.php.
"""Shared utilities for IPC (multiprocess) interface tests."""
import asyncio
import inspect
from contextlib import asynccontextmanager
from dataclasses import dataclass
from io import BytesIO
from pathlib import Path
import shutil
from typing import Optional

from test_framework.messages import CBlock
from test_framework.util import (
    assert_equal
)

# Test may be skipped and not have capnp installed
try:
    import capnp  # type: ignore[import] # noqa: F401
except ModuleNotFoundError:
    pass


# Stores the result of getCoinbaseTx()
@dataclass
class CoinbaseTxData:
    version: int
    sequence: int
    scriptSigPrefix: bytes
    witness: Optional[bytes]
    blockRewardRemaining: int
    requiredOutputs: list[bytes]
    lockTime: int


@asynccontextmanager
async def destroying(obj, ctx):
    """Call obj.destroy(ctx) at end of with: block. Similar to contextlib.closing."""
    try:
        yield obj
    finally:
        await obj.destroy(ctx)


async def wait_and_do(wait_fn, do_fn):
    """Call wait_fn, then sleep, then call do_fn in a parallel task. Wait for
    both tasks to complete."""
    wait_started = asyncio.Event()
    result = None

    async def wait():
        nonlocal result
        wait_started.set()
        result = await wait_fn

    async def do():
        await wait_started.wait()
        await asyncio.sleep(0.1)
        # Let do_fn be either a callable or an awaitable object
        if inspect.isawaitable(do_fn):
            await do_fn
        else:
            do_fn()

    await asyncio.gather(wait(), do())
    return result


def load_capnp_modules(config):
    if capnp_bin := shutil.which("capnp"):
        # Add the system cap'nproto path so include/capnp/c++.capnp can be found.
        capnp_dir = Path(capnp_bin).resolve().parent.parent / "include"
    else:
        # If there is no system cap'nproto, the pycapnp module should have its own "bundled"
        # includes at this location. If pycapnp was installed with bundled capnp,
        # capnp/c++.capnp can be found here.
        capnp_dir = Path(capnp.__path__[0]).parent
    src_dir = Path(config['environment']['SRCDIR']) / "src"
    mp_dir = src_dir / "ipc" / "libmultiprocess" / "include"
    # List of import directories. Note: it is important for mp_dir to be
    # listed first, in case there are other libmultiprocess installations on
    # the system, to ensure that `import "/mp/proxy.capnp"` lines load the
    # same file as capnp.load() loads directly below, and there are not
    # "failed: Duplicate ID @0xcc316e3f71a040fb" errors.
    imports = [str(mp_dir), str(capnp_dir), str(src_dir)]
    return {
        "proxy": capnp.load(str(mp_dir / "mp" / "proxy.capnp"), imports=imports),
        "init": capnp.load(str(src_dir / "ipc" / "capnp" / "init.capnp"), imports=imports),
        "echo": capnp.load(str(src_dir / "ipc" / "capnp" / "echo.capnp"), imports=imports),
        "mining": capnp.load(str(src_dir / "ipc" / "capnp" / "mining.capnp"), imports=imports),
    }


async def make_capnp_init_ctx(self, node_index=0):
    node = self.nodes[node_index]
    # Establish a connection, and create Init proxy object.
    connection = await capnp.AsyncIoStream.create_unix_connection(node.ipc_socket_path)
    client = capnp.TwoPartyClient(connection)
    init = client.bootstrap().cast_as(self.capnp_modules['init'].Init)
    # Create a remote thread on the server for the IPC calls to be executed in.
    threadmap = init.construct().threadMap
    thread = threadmap.makeThread("pythread").result
    ctx = self.capnp_modules['proxy'].Context()
    ctx.thread = thread
    # Return both.
    return ctx, init


async def mining_create_block_template(mining, stack, ctx, *args, **kwargs):
    """Call mining.createNewBlock() and return template, then call template.destroy() when stack exits."""
    response = await mining.createNewBlock(ctx, *args, **kwargs)
    if not response._has("result"):
        return None
    return await stack.enter_async_context(destroying(response.result, ctx))


async def mining_wait_next_template(template, stack, ctx, opts):
    """Call template.waitNext() and return template, then call template.destroy() when stack exits."""
    response = await template.waitNext(ctx, opts)
    if not response._has("result"):
        return None
    return await stack.enter_async_context(destroying(response.result, ctx))


async def mining_get_block(block_template, ctx):
    block_data = BytesIO((await block_template.getBlock(ctx)).result)
    block = CBlock()
    block.deserialize(block_data)
    return block


async def mining_get_coinbase_tx(block_template, ctx) -> CoinbaseTxData:
    assert block_template is not None
    # Note: the template_capnp struct will be garbage-collected when this
    # method returns, so it is important to copy any Data fields from it
    # which need to be accessed later using the bytes() cast. Starting with
    # pycapnp v2.2.0, Data fields have type `memoryview` and are ephemeral.
    template_capnp = (await block_template.getCoinbaseTx(ctx)).result
    witness: Optional[bytes] = None
    if template_capnp._has("witness"):
        witness = bytes(template_capnp.witness)
    return CoinbaseTxData(
        version=int(template_capnp.version),
        sequence=int(template_capnp.sequence),
        scriptSigPrefix=bytes(template_capnp.scriptSigPrefix),
        witness=witness,
        blockRewardRemaining=int(template_capnp.blockRewardRemaining),
        requiredOutputs=[bytes(output) for output in template_capnp.requiredOutputs],
        lockTime=int(template_capnp.lockTime),
    )

async def make_mining_ctx(self, node_index=0):
    """Create IPC context and Mining proxy object."""
    ctx, init = await make_capnp_init_ctx(self, node_index)
    self.log.debug("Create Mining proxy object")
    mining = init.makeMining(ctx).result
    return ctx, mining

def assert_capnp_failed(e, description_prefix):
    assert e.description.startswith(description_prefix), f"Expected description starting with '{description_prefix}', got '{e.description}'"
    assert_equal(e.type, "FAILED")


async def assert_create_new_block_fails(ctx, mining, opts, expected_msg):
    """Assert that mining.createNewBlock fails with the expected remote exception."""
    try:
        await mining.createNewBlock(ctx, opts)
        raise AssertionError("createNewBlock unexpectedly succeeded")
    except capnp.lib.capnp.KjException as e:
        assert_capnp_failed(e, f"remote exception: std::exception: {expected_msg}")
