#!/usr/bin/env python3
# Copyright (c) 2020-present The Bitcoin Core developers
# Distributed under the MIT software license, see the accompanying
# file COPYING or http://www.opensource.org/licenses/mit-license.php.
"""A limited-functionality wallet, which may replace a real wallet in tests"""

from copy import deepcopy
from decimal import Decimal
from enum import Enum
from typing import (
    Any,
    Optional,
)
from test_framework.address import (
    address_to_scriptpubkey,
    create_deterministic_address_bcrt1_p2tr_op_true,
    key_to_p2pkh,
    key_to_p2sh_p2wpkh,
    key_to_p2wpkh,
    output_key_to_p2tr,
)
from test_framework.blocktools import COINBASE_MATURITY
from test_framework.descriptors import descsum_create
from test_framework.key import (
    ECKey,
    compute_xonly_pubkey,
)
from test_framework.messages import (
    COIN,
    COutPoint,
    CTransaction,
    CTxIn,
    CTxInWitness,
    CTxOut,
    hash256,
)
from test_framework.script import (
    CScript,
    OP_NOP,
    OP_RETURN,
    OP_TRUE,
    sign_input_legacy,
    taproot_construct,
)
from test_framework.script_util import (
    bulk_vout,
    key_to_p2pk_script,
    key_to_p2pkh_script,
    key_to_p2sh_p2wpkh_script,
    key_to_p2wpkh_script,
)
from test_framework.util import (
    assert_equal,
    assert_greater_than_or_equal,
    get_fee,
)
from test_framework.wallet_util import (
    bytes_to_wif,
    generate_keypair,
)

DEFAULT_FEE = Decimal("0.0001")

class MiniWalletMode(Enum):
    """Determines the transaction type the MiniWallet is creating and spending.

    For most purposes, the default mode ADDRESS_OP_TRUE should be sufficient;
    it simply uses a fixed bech32m P2TR address whose coins are spent with a
    witness stack of OP_TRUE, i.e. following an anyone-can-spend policy.
    However, if the transactions need to be modified by the user (e.g. prepending
    scriptSig for testing opcodes that are activated by a soft-fork), or the txs
    should contain an actual signature, the raw modes RAW_OP_TRUE and RAW_P2PK
    can be useful. In order to avoid mixing of UTXOs between different MiniWallet
    instances, a tag name can be passed to the default mode, to create different
    output scripts. Note that the UTXOs from the pre-generated test chain can
    only be spent if no tag is passed. Summary of modes:

                    |      output       |           |  tx is   | can modify |  needs
         mode       |    description    |  address  | standard | scriptSig  | signing
    ----------------+-------------------+-----------+----------+------------+----------
    ADDRESS_OP_TRUE | anyone-can-spend  |  bech32m  |   yes    |    no      |   no
    RAW_OP_TRUE     | anyone-can-spend  |  - (raw)  |   no     |    yes     |   no
    RAW_P2PK        | pay-to-public-key |  - (raw)  |   yes    |    yes     |   yes
    """
    ADDRESS_OP_TRUE = 1
    RAW_OP_TRUE = 2
    RAW_P2PK = 3


class MiniWallet:
    def __init__(self, test_node, *, mode=MiniWalletMode.ADDRESS_OP_TRUE, tag_name=None):
        self._test_node = test_node
        self._utxos = []
        self._mode = mode

        assert isinstance(mode, MiniWalletMode)
        if mode == MiniWalletMode.RAW_OP_TRUE:
            assert tag_name is None
            self._scriptPubKey = bytes(CScript([OP_TRUE]))
        elif mode == MiniWalletMode.RAW_P2PK:
            # use simple deterministic private key (k=1)
            assert tag_name is None
            self._priv_key = ECKey()
            self._priv_key.set((1).to_bytes(32, 'big'), True)
            pub_key = self._priv_key.get_pubkey()
            self._scriptPubKey = key_to_p2pk_script(pub_key.get_bytes())
        elif mode == MiniWalletMode.ADDRESS_OP_TRUE:
            internal_key = None if tag_name is None else compute_xonly_pubkey(hash256(tag_name.encode()))[0]
            self._address, self._taproot_info = create_deterministic_address_bcrt1_p2tr_op_true(internal_key)
            self._scriptPubKey = address_to_scriptpubkey(self._address)

        # When the pre-mined test framework chain is used, it contains coinbase
        # outputs to the MiniWallet's default address in blocks 76-100
        # (see method BitcoinTestFramework._initialize_chain())
        # The MiniWallet needs to rescan_utxos() in order to account
        # for those mature UTXOs, so that all txs spend confirmed coins
        self.rescan_utxos()

    def _create_utxo(self, *, txid, vout, value, height, coinbase, confirmations):
        return {"txid": txid, "vout": vout, "value": value, "height": height, "coinbase": coinbase, "confirmations": confirmations}

    def _bulk_tx(self, tx, target_vsize):
        """Pad a transaction with extra outputs until it reaches a target vsize.
        returns the tx
        """
        tx.vout.append(CTxOut(nValue=0, scriptPubKey=CScript([OP_RETURN])))
        bulk_vout(tx, target_vsize)


    def get_balance(self):
        return sum(u['value'] for u in self._utxos)

    def rescan_utxos(self, *, include_mempool=True):
        """Drop all utxos and rescan the utxo set"""
        self._utxos = []
        res = self._test_node.scantxoutset(action="start", scanobjects=[self.get_descriptor()])
        assert_equal(True, res['success'])
        for utxo in res['unspents']:
            self._utxos.append(
                self._create_utxo(txid=utxo["txid"],
                                  vout=utxo["vout"],
                                  value=utxo["amount"],
                                  height=utxo["height"],
                                  coinbase=utxo["coinbase"],
                                  confirmations=res["height"] - utxo["height"] + 1))
        if include_mempool:
            mempool = self._test_node.getrawmempool(verbose=True)
            # Sort tx by ancestor count. See BlockAssembler::SortForBlock in src/node/miner.cpp
            sorted_mempool = sorted(mempool.items(), key=lambda item: (item[1]["ancestorcount"], int(item[0], 16)))
            for txid, _ in sorted_mempool:
                self.scan_tx(self._test_node.getrawtransaction(txid=txid, verbose=True))

    def scan_tx(self, tx):
        """Scan the tx and adjust the internal list of owned utxos"""
        for spent in tx["vin"]:
            # Mark spent. This may happen when the caller has ownership of a
            # utxo that remained in this wallet. For example, by passing
            # mark_as_spent=False to get_utxo or by using an utxo returned by a
            # create_self_transfer* call.
            try:
                self.get_utxo(txid=spent["txid"], vout=spent["vout"])
            except StopIteration:
                pass
        for out in tx['vout']:
            if out['scriptPubKey']['hex'] == self._scriptPubKey.hex():
                self._utxos.append(self._create_utxo(txid=tx["txid"], vout=out["n"], value=out["value"], height=0, coinbase=False, confirmations=0))

    def scan_txs(self, txs):
        for tx in txs:
            self.scan_tx(tx)

    def sign_tx(self, tx, fixed_length=True):
        if self._mode == MiniWalletMode.RAW_P2PK:
            # for exact fee calculation, create only signatures with fixed size by default (>49.89% probability):
            # 65 bytes: high-R val (33 bytes) + low-S val (32 bytes)
            # with the DER header/skeleton data of 6 bytes added, plus 2 bytes scriptSig overhead
            # (OP_PUSHn and SIGHASH_ALL), this leads to a scriptSig target size of 73 bytes
            tx.vin[0].scriptSig = b''
            while not len(tx.vin[0].scriptSig) == 73:
                tx.vin[0].scriptSig = b''
                sign_input_legacy(tx, 0, self._scriptPubKey, self._priv_key)
                if not fixed_length:
                    break
        elif self._mode == MiniWalletMode.RAW_OP_TRUE:
            for i in tx.vin:
                i.scriptSig = CScript([OP_NOP] * 43)  # pad to identical size
        elif self._mode == MiniWalletMode.ADDRESS_OP_TRUE:
            tx.wit.vtxinwit = [CTxInWitness()] * len(tx.vin)
            for i in tx.wit.vtxinwit:
                assert_equal(len(self._taproot_info.leaves), 1)
                leaf_info = list(self._taproot_info.leaves.values())[0]
                i.scriptWitness.stack = [
                    leaf_info.script,
                    bytes([leaf_info.version | self._taproot_info.negflag]) + self._taproot_info.internal_pubkey,
                ]
        else:
            assert False

    def generate(self, num_blocks, **kwargs):
        """Generate blocks with coinbase outputs to the internal address, and call rescan_utxos"""
        blocks = self._test_node.generatetodescriptor(num_blocks, self.get_descriptor(), **kwargs)
        # Calling rescan_utxos here makes sure that after a generate the utxo
        # set is in a clean state. For example, the wallet will update
        # - if the caller consumed utxos, but never used them
        # - if the caller sent a transaction that is not mined or got rbf'd
        # - after block re-orgs
        # - the utxo height for mined mempool txs
        # - However, the wallet will not consider remaining mempool txs
        self.rescan_utxos()
        return blocks

    def get_output_script(self):
        return self._scriptPubKey

    def get_descriptor(self):
        return descsum_create(f'raw({self._scriptPubKey.hex()})')

    def get_address(self):
        assert_equal(self._mode, MiniWalletMode.ADDRESS_OP_TRUE)
        return self._address

    def get_utxo(self, *, txid: str = '', vout: Optional[int] = None, mark_as_spent=True, confirmed_only=False) -> dict:
        """
        Returns a utxo and marks it as spent (pops it from the internal list)

        Args:
        txid: get the first utxo we find from a specific transaction
        """
        self._utxos = sorted(self._utxos, key=lambda k: (k['value'], -k['height']))  # Put the largest utxo last
        blocks_height = self._test_node.getblockchaininfo()['blocks']
        mature_coins = list(filter(lambda utxo: not utxo['coinbase'] or COINBASE_MATURITY - 1 <= blocks_height - utxo['height'], self._utxos))
        if txid:
            utxo_filter: Any = filter(lambda utxo: txid == utxo['txid'], self._utxos)
        else:
            utxo_filter = reversed(mature_coins)  # By default the largest utxo
        if vout is not None:
            utxo_filter = filter(lambda utxo: vout == utxo['vout'], utxo_filter)
        if confirmed_only:
            utxo_filter = filter(lambda utxo: utxo['confirmations'] > 0, utxo_filter)
        index = self._utxos.index(next(utxo_filter))
        if mark_as_spent:
            return self._utxos.pop(index)
        else:
            return self._utxos[index]

    def get_utxos(self, *, include_immature_coinbase=False, mark_as_spent=True, confirmed_only=False):
        """Returns the list of all utxos and optionally mark them as spent"""
        if not include_immature_coinbase:
            blocks_height = self._test_node.getblockchaininfo()['blocks']
            utxo_filter = filter(lambda utxo: not utxo['coinbase'] or COINBASE_MATURITY - 1 <= blocks_height - utxo['height'], self._utxos)
        else:
            utxo_filter = self._utxos
        if confirmed_only:
            utxo_filter = filter(lambda utxo: utxo['confirmations'] > 0, utxo_filter)
        utxos = deepcopy(list(utxo_filter))
        if mark_as_spent:
            self._utxos = []
        return utxos

    def send_self_transfer(self, *, from_node, **kwargs):
        """Call create_self_transfer and send the transaction."""
        tx = self.create_self_transfer(**kwargs)
        self.sendrawtransaction(from_node=from_node, tx_hex=tx['hex'])
        return tx

    def send_to(self, *, from_node, scriptPubKey, amount, fee=1000):
        """
        Create and send a tx with an output to a given scriptPubKey/amount,
        plus a change output to our internal address. To keep things simple, a
        fixed fee given in Satoshi is used.

        Note that this method fails if there is no single internal utxo
        available that can cover the cost for the amount and the fixed fee
        (the utxo with the largest value is taken).
        """
        tx = self.create_self_transfer(fee_rate=0)["tx"]
        assert_greater_than_or_equal(tx.vout[0].nValue, amount + fee)
        tx.vout[0].nValue -= (amount + fee)           # change output -> MiniWallet
        tx.vout.append(CTxOut(amount, scriptPubKey))  # arbitrary output -> to be returned
        txid = self.sendrawtransaction(from_node=from_node, tx_hex=tx.serialize().hex())
        return {
            "sent_vout": 1,
            "txid": txid,
            "wtxid": tx.wtxid_hex,
            "hex": tx.serialize().hex(),
            "tx": tx,
        }

    def send_self_transfer_multi(self, *, from_node, **kwargs):
        """Call create_self_transfer_multi and send the transaction."""
        tx = self.create_self_transfer_multi(**kwargs)
        self.sendrawtransaction(from_node=from_node, tx_hex=tx["hex"])
        return tx

    def create_self_transfer_multi(
        self,
        *,
        utxos_to_spend: Optional[list[dict]] = None,
        num_outputs=1,
        amount_per_output=0,
        version=2,
        locktime=0,
        sequence=0,
        fee_per_output=1000,
        target_vsize=0,
        confirmed_only=False,
    ):
        """
        Create and return a transaction that spends the given UTXOs and creates a
        certain number of outputs with equal amounts. The output amounts can be
        set by amount_per_output or automatically calculated with a fee_per_output.
        """
        utxos_to_spend = utxos_to_spend or [self.get_utxo(confirmed_only=confirmed_only)]
        sequence = [sequence] * len(utxos_to_spend) if type(sequence) is int else sequence
        assert_equal(len(utxos_to_spend), len(sequence))

        # calculate output amount
        inputs_value_total = sum([int(COIN * utxo['value']) for utxo in utxos_to_spend])
        outputs_value_total = inputs_value_total - fee_per_output * num_outputs
        amount_per_output = amount_per_output or (outputs_value_total // num_outputs)
        assert amount_per_output > 0
        outputs_value_total = amount_per_output * num_outputs
        fee = Decimal(inputs_value_total - outputs_value_total) / COIN

        # create tx
        tx = CTransaction()
        tx.vin = [CTxIn(COutPoint(int(utxo_to_spend['txid'], 16), utxo_to_spend['vout']), nSequence=seq) for utxo_to_spend, seq in zip(utxos_to_spend, sequence)]
        tx.vout = [CTxOut(amount_per_output, bytearray(self._scriptPubKey)) for _ in range(num_outputs)]
        tx.version = version
        tx.nLockTime = locktime

        self.sign_tx(tx)

        if target_vsize:
            self._bulk_tx(tx, target_vsize)

        txid = tx.txid_hex
        return {
            "new_utxos": [self._create_utxo(
                txid=txid,
                vout=i,
                value=Decimal(tx.vout[i].nValue) / COIN,
                height=0,
                coinbase=False,
                confirmations=0,
            ) for i in range(len(tx.vout))],
            "fee": fee,
            "txid": txid,
            "wtxid": tx.wtxid_hex,
            "hex": tx.serialize().hex(),
            "tx": tx,
        }

    def create_self_transfer(
            self,
            *,
            fee_rate=Decimal("0.003"),
            fee=Decimal("0"),
            utxo_to_spend=None,
            target_vsize=0,
            confirmed_only=False,
            **kwargs,
    ):
        """Create and return a tx with the specified fee. If fee is 0, use fee_rate, where the resulting fee may be exact or at most one satoshi higher than needed."""
        utxo_to_spend = utxo_to_spend or self.get_utxo(confirmed_only=confirmed_only)
        assert fee_rate >= 0
        assert fee >= 0
        # calculate fee
        if self._mode in (MiniWalletMode.RAW_OP_TRUE, MiniWalletMode.ADDRESS_OP_TRUE):
            vsize = Decimal(104)  # anyone-can-spend
        elif self._mode == MiniWalletMode.RAW_P2PK:
            vsize = Decimal(168)  # P2PK (73 bytes scriptSig + 35 bytes scriptPubKey + 60 bytes other)
        else:
            assert False
        if target_vsize and not fee:  # respect fee_rate if target vsize is passed
            fee = get_fee(target_vsize, fee_rate)
        send_value = utxo_to_spend["value"] - (fee or (fee_rate * vsize / 1000))
        if send_value <= 0:
            raise RuntimeError(f"UTXO value {utxo_to_spend['value']} is too small to cover fees {(fee or (fee_rate * vsize / 1000))}")
        # create tx
        tx = self.create_self_transfer_multi(
            utxos_to_spend=[utxo_to_spend],
            amount_per_output=int(COIN * send_value),
            target_vsize=target_vsize,
            **kwargs,
        )
        if not target_vsize:
            assert_equal(tx["tx"].get_vsize(), vsize)
        tx["new_utxo"] = tx.pop("new_utxos")[0]

        return tx

    def sendrawtransaction(self, *, from_node, tx_hex, maxfeerate=0, **kwargs):
        txid = from_node.sendrawtransaction(hexstring=tx_hex, maxfeerate=maxfeerate, **kwargs)
        self.scan_tx(from_node.decoderawtransaction(tx_hex))
        return txid

    def create_self_transfer_chain(self, *, chain_length, utxo_to_spend=None):
        """
        Create a "chain" of chain_length transactions. The nth transaction in
        the chain is a child of the n-1th transaction and parent of the n+1th transaction.
        """
        chaintip_utxo = utxo_to_spend or self.get_utxo()
        chain = []

        for _ in range(chain_length):
            tx = self.create_self_transfer(utxo_to_spend=chaintip_utxo)
            chaintip_utxo = tx["new_utxo"]
            chain.append(tx)

        return chain

    def send_self_transfer_chain(self, *, from_node, **kwargs):
        """Create and send a "chain" of chain_length transactions. The nth transaction in
        the chain is a child of the n-1th transaction and parent of the n+1th transaction.

        Returns a list of objects for each tx (see create_self_transfer_multi).
        """
        chain = self.create_self_transfer_chain(**kwargs)
        for t in chain:
            self.sendrawtransaction(from_node=from_node, tx_hex=t["hex"])
        return chain


class NodeSigner:
    """Simple wallet replacement that delegates signing of existing raw transactions to a node by
       using the `signrawtransactionwithkey` RPC. This can be used for spending from widespread
       output types (P2PKH, P2WPKH, P2SH-P2WPKH, P2TR) without having the wallet compiled in."""
    def __init__(self, node):
        self._node = node
        self._key_entries = []

    def getnewaddress(self, address_type='legacy'):
        (seckey, pubkey), spk, address = getnewdestination(address_type)
        redeem_script = key_to_p2wpkh_script(pubkey) if address_type == 'p2sh-segwit' else None
        self._key_entries.append({"seckey_wif": bytes_to_wif(seckey.get_bytes()), "output_script": spk, "redeem_script": redeem_script})
        return pubkey, spk, address

    def listunspent(self):
        needles = [descsum_create(f'raw({key_entry["output_script"].hex()})') for key_entry in self._key_entries]
        scan_res = self._node.scantxoutset(action="start", scanobjects=needles)
        spend_height = scan_res['height'] + 1  # coins would be spent in the next block
        unspents = []
        for u in scan_res['unspents']:
            if u["coinbase"] and (spend_height - u["height"]) < COINBASE_MATURITY:  # skip immature coins
                continue
            unspent = { "txid": u["txid"], "vout": u["vout"], "scriptPubKey": u["scriptPubKey"], "amount": u["amount"] }
            key_entry = [ke for ke in self._key_entries if ke["output_script"] == bytes.fromhex(u["scriptPubKey"])][0]
            if key_entry["redeem_script"] is not None:
                unspent["redeemScript"] = key_entry["redeem_script"].hex()
            unspents.append(unspent)
        return unspents

    def signrawtransaction(self, tx_hex, inputs):
        output_scripts_to_sign = {i["scriptPubKey"] for i in inputs}
        seckeys_wif = [ke["seckey_wif"] for ke in self._key_entries if ke["output_script"].hex() in output_scripts_to_sign]
        return self._node.signrawtransactionwithkey(tx_hex, seckeys_wif, inputs)


def getnewdestination(address_type='bech32m'):
    """Generate a random destination of the specified type and return the
       corresponding key pair, scriptPubKey and address. Supported types are
       'legacy', 'p2sh-segwit', 'bech32' and 'bech32m'. Can be used when a random
       destination is needed, but no compiled wallet is available (e.g. as
       replacement to the getnewaddress/getaddressinfo RPCs)."""
    key, pubkey = generate_keypair()
    if address_type == 'legacy':
        scriptpubkey = key_to_p2pkh_script(pubkey)
        address = key_to_p2pkh(pubkey)
    elif address_type == 'p2sh-segwit':
        scriptpubkey = key_to_p2sh_p2wpkh_script(pubkey)
        address = key_to_p2sh_p2wpkh(pubkey)
    elif address_type == 'bech32':
        scriptpubkey = key_to_p2wpkh_script(pubkey)
        address = key_to_p2wpkh(pubkey)
    elif address_type == 'bech32m':
        tap = taproot_construct(compute_xonly_pubkey(key.get_bytes())[0])
        pubkey = tap.output_pubkey
        scriptpubkey = tap.scriptPubKey
        address = output_key_to_p2tr(pubkey)
    else:
        assert False
    return (key, pubkey), scriptpubkey, address
