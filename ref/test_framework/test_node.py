#!/usr/bin/env python3
# Copyright (c) 2017-present The Bitcoin Core developers
# Distributed under the MIT software license, see the accompanying
# file COPYING or http://www.opensource.org/licenses/mit-license.php.
"""Class for bitcoind node under test"""

import contextlib
import decimal
import errno
from enum import Enum
import json
import logging
import os
import platform
import re
import subprocess
import tempfile
import time
import urllib.parse
import collections
import sys
from collections.abc import Iterable
from pathlib import Path

from .authproxy import (
    AuthServiceProxy,
    JSONRPCException,
    serialization_fallback,
)
from . import coverage
from .messages import NODE_P2P_V2
from .p2p import P2P_SERVICES, P2P_SUBVERSION
from .util import (
    MAX_NODES,
    assert_equal,
    assert_not_equal,
    append_config,
    delete_cookie_file,
    get_auth_cookie,
    rpc_port,
    wait_until_helper_internal,
    p2p_port,
    tor_port,
)

BITCOIND_PROC_WAIT_TIMEOUT = 60
# The size of the blocks xor key
# from InitBlocksdirXorKey::xor_key.size()
NUM_XOR_BYTES = 8
# Many systems have a 128kB limit for a command size. Depending on the
# platform, this limit may be larger or smaller. Moreover, when using the
# 'bitcoin' command, it may internally insert more args, which must be
# accounted for. There is no need to pick the largest possible value here
# anyway and it should be fine to set it to 1kB in tests.
TEST_CLI_MAX_ARG_SIZE = 1024

# The null blocks key (all 0s)
NULL_BLK_XOR_KEY = bytes([0] * NUM_XOR_BYTES)
BITCOIN_PID_FILENAME_DEFAULT = "bitcoind.pid"

if sys.platform.startswith("linux"):
    UNIX_PATH_MAX = 108          # includes the trailing NUL
elif sys.platform.startswith(("darwin", "freebsd", "netbsd", "openbsd")):
    UNIX_PATH_MAX = 104
else:                            # safest portable value
    UNIX_PATH_MAX = 92


class FailedToStartError(Exception):
    """Raised when a node fails to start correctly."""


class ErrorMatch(Enum):
    FULL_TEXT = 1
    FULL_REGEX = 2
    PARTIAL_REGEX = 3


RPCConnectionType = Enum("RPCConnectionType", ["AUTO", "AUTHPROXY", "CLI"])


class TestNode():
    """A class for representing a bitcoind node under test.

    This class contains:

    - state about the node (whether it's running, etc)
    - a Python subprocess.Popen object representing the running process
    - an RPC connection to the node
    - one or more P2P connections to the node


    To make things easier for the test writer, any unrecognised messages will
    be dispatched to the RPC connection."""

    def __init__(
        self,
        i,
        datadir_path,
        *,
        chain,
        rpchost,
        timewait,
        timeout_factor,
        binaries,
        coverage_dir,
        cwd,
        extra_conf=None,
        extra_args=None,
        use_cli=False,
        version=None,
        v2transport=False,
        uses_wallet=False,
        ipcbind=False,
        use_gui=False,
    ):
        self.index = i
        self.datadir_path = datadir_path
        self.bitcoinconf = self.datadir_path / "bitcoin.conf"
        self.stdout_dir = self.datadir_path / "stdout"
        self.stderr_dir = self.datadir_path / "stderr"
        self.chain = chain
        self.rpchost = rpchost
        self.rpc_timeout = timewait  # Already multiplied by timeout_factor
        self.timeout_factor = timeout_factor
        self.binaries = binaries
        self.coverage_dir = coverage_dir
        self.cwd = cwd
        self.use_gui = use_gui
        self.has_explicit_bind = False
        if extra_conf is not None:
            append_config(self.datadir_path, extra_conf)
            # Remember if there is bind=... in the config file.
            self.has_explicit_bind = any(e.startswith("bind=") for e in extra_conf)
        # Most callers will just need to add extra args to the standard list below.
        # For those callers that need more flexibility, they can just set the args property directly.
        # Note that common args are set in the config file (see initialize_datadir)
        self.extra_args = extra_args
        self.version = version
        # Configuration for logging is set as command-line args rather than in the bitcoin.conf file.
        # This means that starting a bitcoind using the temp dir to debug a failed test won't
        # spam debug.log.
        self.args = self.binaries.node_argv(need_ipc=ipcbind, use_gui=use_gui) + [
            f"-datadir={self.datadir_path}",
            "-logtimemicros",
            "-debug",
            "-debugexclude=leveldb",
            "-debugexclude=rand",
            "-uacomment=testnode%d" % i,  # required for subversion uniqueness across peers
        ]
        if uses_wallet is not None and not uses_wallet:
            self.args.append("-disablewallet")

        self.ipc_tmp_dir = None
        if ipcbind:
            self.ipc_socket_path = self.chain_path / "node.sock"
            if len(os.fsencode(self.ipc_socket_path)) < UNIX_PATH_MAX:
                self.args.append("-ipcbind=unix")
            else:
                # Work around default CI path exceeding maximum socket path length.
                self.ipc_tmp_dir = tempfile.TemporaryDirectory(prefix="test-ipc-")
                self.ipc_socket_path = Path(self.ipc_tmp_dir.name) / "node.sock"
                self.args.append(f"-ipcbind=unix:{self.ipc_socket_path}")

        if self.version_is_at_least(190000):
            self.args.append("-logthreadnames")
        if self.version_is_at_least(219900):
            self.args.append("-logsourcelocations")
        if self.version_is_at_least(239000):
            self.args.append("-loglevel=trace")
        if self.version_is_at_least(290100):
            self.args.append("-nologratelimit")

        # Default behavior from global -v2transport flag is added to args to persist it over restarts.
        # May be overwritten in individual tests, using extra_args.
        self.default_to_v2 = v2transport
        if self.version_is_at_least(260000):
            # 26.0 and later support v2transport
            if v2transport:
                self.args.append("-v2transport=1")
            else:
                self.args.append("-v2transport=0")
        # if v2transport is requested via global flag but not supported for node version, ignore it

        self.cli = None
        self.use_cli = use_cli

        self.running = False
        self.process = None
        self.rpc_connected = False
        self._rpc = None # Should usually not be accessed directly in tests to allow for --usecli mode
        self.reuse_http_connections = True # Must be set before create_new_rpc_connection(), i.e. before restarting node
        self.url = None
        self.log = logging.getLogger('TestFramework.node%d' % i)

        self.p2ps = []

        self.mocktime = None

    AddressKeyPair = collections.namedtuple('AddressKeyPair', ['address', 'key'])
    PRIV_KEYS = [
            # address , privkey
            AddressKeyPair('mjTkW3DjgyZck4KbiRusZsqTgaYTxdSz6z', 'cVpF924EspNh8KjYsfhgY96mmxvT6DgdWiTYMtMjuM74hJaU5psW'),
            AddressKeyPair('msX6jQXvxiNhx3Q62PKeLPrhrqZQdSimTg', 'cUxsWyKyZ9MAQTaAhUQWJmBbSvHMwSmuv59KgxQV7oZQU3PXN3KE'),
            AddressKeyPair('mnonCMyH9TmAsSj3M59DsbH8H63U3RKoFP', 'cTrh7dkEAeJd6b3MRX9bZK8eRmNqVCMH3LSUkE3dSFDyzjU38QxK'),
            AddressKeyPair('mqJupas8Dt2uestQDvV2NH3RU8uZh2dqQR', 'cVuKKa7gbehEQvVq717hYcbE9Dqmq7KEBKqWgWrYBa2CKKrhtRim'),
            AddressKeyPair('msYac7Rvd5ywm6pEmkjyxhbCDKqWsVeYws', 'cQDCBuKcjanpXDpCqacNSjYfxeQj8G6CAtH1Dsk3cXyqLNC4RPuh'),
            AddressKeyPair('n2rnuUnwLgXqf9kk2kjvVm8R5BZK1yxQBi', 'cQakmfPSLSqKHyMFGwAqKHgWUiofJCagVGhiB4KCainaeCSxeyYq'),
            AddressKeyPair('myzuPxRwsf3vvGzEuzPfK9Nf2RfwauwYe6', 'cQMpDLJwA8DBe9NcQbdoSb1BhmFxVjWD5gRyrLZCtpuF9Zi3a9RK'),
            AddressKeyPair('mumwTaMtbxEPUswmLBBN3vM9oGRtGBrys8', 'cSXmRKXVcoouhNNVpcNKFfxsTsToY5pvB9DVsFksF1ENunTzRKsy'),
            AddressKeyPair('mpV7aGShMkJCZgbW7F6iZgrvuPHjZjH9qg', 'cSoXt6tm3pqy43UMabY6eUTmR3eSUYFtB2iNQDGgb3VUnRsQys2k'),
            AddressKeyPair('mq4fBNdckGtvY2mijd9am7DRsbRB4KjUkf', 'cN55daf1HotwBAgAKWVgDcoppmUNDtQSfb7XLutTLeAgVc3u8hik'),
            AddressKeyPair('mpFAHDjX7KregM3rVotdXzQmkbwtbQEnZ6', 'cT7qK7g1wkYEMvKowd2ZrX1E5f6JQ7TM246UfqbCiyF7kZhorpX3'),
            AddressKeyPair('mzRe8QZMfGi58KyWCse2exxEFry2sfF2Y7', 'cPiRWE8KMjTRxH1MWkPerhfoHFn5iHPWVK5aPqjW8NxmdwenFinJ'),
    ]

    def get_deterministic_priv_key(self):
        """Return a deterministic priv key in base58, that only depends on the node's index"""
        assert_equal(len(self.PRIV_KEYS), MAX_NODES)
        return self.PRIV_KEYS[self.index]

    def _node_msg(self, msg: str) -> str:
        """Return a modified msg that identifies this node by its index as a debugging aid."""
        return "[node %d] %s" % (self.index, msg)

    def _raise_assertion_error(self, msg: str):
        """Raise an AssertionError with msg modified to identify this node."""
        raise AssertionError(self._node_msg(msg))

    def __del__(self):
        # Ensure that we don't leave any bitcoind processes lying around after
        # the test ends
        if self.process:
            # Should only happen on test failure
            # Avoid using logger, as that may have already been shutdown when
            # this destructor is called.
            print(self._node_msg("Cleaning up leftover process"), file=sys.stderr)
            self.process.kill()

    def __getattr__(self, name):
        """Dispatches any unrecognised messages to the RPC connection or a CLI instance."""
        if self.use_cli:
            return getattr(self.cli, name)
        else:
            assert self.rpc_connected and self._rpc is not None, self._node_msg("Error: no RPC connection")
            return getattr(self._rpc, name)

    def start(self, extra_args=None, *, cwd=None, stdout=None, stderr=None, env=None, **kwargs):
        """Start the node."""
        if extra_args is None:
            extra_args = self.extra_args

        # If listening and no -bind is given, then bitcoind would bind P2P ports on
        # 0.0.0.0:P and 127.0.0.1:P+1 (for incoming Tor connections), where P is
        # a unique port chosen by the test framework and configured as port=P in
        # bitcoin.conf. To avoid collisions, change it to 127.0.0.1:tor_port().
        will_listen = all(e != "-nolisten" and e != "-listen=0" for e in extra_args)
        has_explicit_bind = self.has_explicit_bind or any(e.startswith("-bind=") for e in extra_args)
        if will_listen and not has_explicit_bind:
            extra_args.append(f"-bind=0.0.0.0:{p2p_port(self.index)}")
            extra_args.append(f"-bind=127.0.0.1:{tor_port(self.index)}=onion")

        self.use_v2transport = "-v2transport=1" in extra_args or (self.default_to_v2 and "-v2transport=0" not in extra_args)

        # Add a new stdout and stderr file each time bitcoind is started
        if stderr is None:
            stderr = tempfile.NamedTemporaryFile(dir=self.stderr_dir, delete=False)
        if stdout is None:
            stdout = tempfile.NamedTemporaryFile(dir=self.stdout_dir, delete=False)
        self.stderr = stderr
        self.stdout = stdout

        if cwd is None:
            cwd = self.cwd

        # Delete any existing cookie file -- if such a file exists (eg due to
        # unclean shutdown), it will get overwritten anyway by bitcoind, and
        # potentially interfere with our attempt to authenticate
        delete_cookie_file(self.datadir_path, self.chain)

        # add environment variable LIBC_FATAL_STDERR_=1 so that libc errors are written to stderr and not the terminal
        subp_env = dict(os.environ, LIBC_FATAL_STDERR_="1")
        if self.use_gui:
            subp_env.setdefault("QT_QPA_PLATFORM", "minimal")
            if platform.system() == "Darwin":
                # QMacStyle assumes a Cocoa platform window, which the minimal platform
                # does not provide. In particular, painting a QGroupBox can make Qt call
                # addSubview: on an invalid native object (QTBUG-49686).
                subp_env.setdefault("QT_STYLE_OVERRIDE", "fusion")
            if platform.system() == "OpenBSD":
                # The system Qt packages are built with GLib support, so Qt uses
                # QEventDispatcherGlib, which pushes/pops the GLib thread-default
                # main context in each thread. On OpenBSD the pop can run during
                # thread exit after GLib's per-thread context stack has already
                # been torn down, so shutdown emits messages like
                #   (process:NNN): GLib-CRITICAL **: g_main_context_pop_thread_default:
                #   assertion 'stack != NULL' failed
                # on stderr, which the test framework treats as a failure.
                # Fall back to Qt's poll-based event dispatcher instead.
                subp_env.setdefault("QT_NO_GLIB", "1")
            subp_env.setdefault("LC_ALL", "nl_NL.UTF-8") # Set language to try to trigger translation bugs
            if sys.platform.startswith("linux") and "XDG_RUNTIME_DIR" not in subp_env:
                # Qt prints warnings to stderr when XDG_RUNTIME_DIR is unset or has wrong
                # permissions (e.g. in CI environments without a desktop session), which
                # would cause tests to fail due to unexpected stderr output. The two
                # warnings are:
                #   "QStandardPaths: XDG_RUNTIME_DIR not set, defaulting to '/tmp/runtime-root'"
                #   "QStandardPaths: wrong permissions on runtime directory /path, 0755 instead of 0700"
                # Use a dedicated subdirectory with the required 0700 permissions.
                xdg_runtime_dir = self.datadir_path / "xdg_runtime"
                xdg_runtime_dir.mkdir(mode=0o700, exist_ok=True)
                subp_env["XDG_RUNTIME_DIR"] = str(xdg_runtime_dir)
        if env is not None:
            subp_env.update(env)

        self.process = subprocess.Popen(self.args + extra_args, env=subp_env, stdout=stdout, stderr=stderr, cwd=cwd, **kwargs)

        self.running = True
        self.log.debug("bitcoind started, waiting for RPC to come up")

    def create_new_rpc_connection(self, *, mode="AUTO", client_timeout=None):
        """Create an additional RPC connection, likely to be used in a new thread."""
        mode = RPCConnectionType[mode]
        if mode == RPCConnectionType.AUTO:
            mode = RPCConnectionType.CLI if self.use_cli else RPCConnectionType.AUTHPROXY
        client_timeout = client_timeout or (self.rpc_timeout // 2)  # Shorter timeout to allow for one retry in case of ETIMEDOUT
        host = "127.0.0.1"
        port = rpc_port(self.index)
        if self.rpchost:
            parts = self.rpchost.split(":")
            if len(parts) == 2:
                host, port = parts
            else:
                host = self.rpchost
        if mode == RPCConnectionType.AUTHPROXY:
            rpc_u, rpc_p = get_auth_cookie(self.datadir_path, self.chain)
            url = f"http://{rpc_u}:{rpc_p}@{host}:{port}"
            proxy = AuthServiceProxy(url, timeout=int(client_timeout))
            coverage_logfile = coverage.get_filename(self.coverage_dir, self.index) if self.coverage_dir else None
            rpc = coverage.AuthServiceProxyWrapper(proxy, url, coverage_logfile)
            rpc.auth_service_proxy_instance.reuse_http_connections = self.reuse_http_connections
            return rpc
        else:  # mode==CLI
            return TestNodeCLI(self.binaries)(
                f"-datadir={self.datadir_path}",
                f"-rpcclienttimeout={client_timeout}",
                f"-rpcconnect={host}",
                f"-rpcport={port}",
            )

    def wait_for_rpc_connection(self, *, wait_for_import=True):
        """Sets up an RPC connection to the bitcoind process. Returns False if unable to connect."""
        # Poll at a rate of four times per second
        poll_per_s = 4

        suppressed_errors = collections.defaultdict(int)
        latest_error = None
        def suppress_error(category: str, e: Exception):
            suppressed_errors[category] += 1
            return (category, repr(e))

        for _ in range(poll_per_s * self.rpc_timeout):
            if self.process.poll() is not None:
                # Attach abrupt shutdown error/s to the exception message
                self.stderr.seek(0)
                str_error = ''.join(line.decode('utf-8') for line in self.stderr)
                str_error += "************************\n" if str_error else ''

                raise FailedToStartError(self._node_msg(
                    f'bitcoind exited with status {self.process.returncode} during initialization. {str_error}'))
            try:
                rpc = self.create_new_rpc_connection(mode="AUTHPROXY")
                rpc.getblockcount()
                # If the call to getblockcount() succeeds then the RPC connection is up
                if self.version_is_at_least(190000) and wait_for_import:
                    # getmempoolinfo.loaded is available since commit
                    # bb8ae2c (version 0.19.0)
                    self.wait_until(lambda: rpc.getmempoolinfo()['loaded'])
                    # Wait for the node to finish reindex, block import, and
                    # loading the mempool. Usually importing happens fast or
                    # even "immediate" when the node is started. However, there
                    # is no guarantee and sometimes ImportBlocks might finish
                    # later. This is going to cause intermittent test failures,
                    # because generally the tests assume the node is fully
                    # ready after being started.
                    #
                    # For example, the node will reject block messages from p2p
                    # when it is still importing with the error "Unexpected
                    # block message received"
                    #
                    # The wait is done here to make tests as robust as possible
                    # and prevent racy tests and intermittent failures as much
                    # as possible. Some tests might not need this, but the
                    # overhead is trivial, and the added guarantees are worth
                    # the minimal performance cost.
                self.log.debug("RPC successfully started")
                # Set rpc_connected even if we are in use_cli mode so that we know we can call self.stop() if needed.
                self.rpc_connected = True
                self.url = rpc.rpc_url
                self.cli = self.create_new_rpc_connection(mode="CLI")
                if self.use_cli:
                    return
                self._rpc = rpc
                return
            except JSONRPCException as e:
                # Suppress these as they are expected during initialization.
                # -28 RPC in warmup
                # -342 Service unavailable, could be starting up or shutting down
                if e.error['code'] not in [-28, -342]:
                    raise  # unknown JSON RPC exception
                latest_error = suppress_error(f"JSONRPCException {e.error['code']}", e)
            except OSError as e:
                error_num = e.errno
                if error_num is None:
                    # Work around issue where socket timeouts don't have errno set.
                    # https://github.com/python/cpython/issues/109601
                    if isinstance(e, TimeoutError):
                        error_num = errno.ETIMEDOUT
                    # http.client.RemoteDisconnected inherits from this type and
                    # doesn't specify errno.
                    elif isinstance(e, ConnectionResetError):
                        error_num = errno.ECONNRESET
                    # Windows can raise this while bitcoind shuts down during startup.
                    elif isinstance(e, ConnectionAbortedError):
                        error_num = errno.ECONNABORTED

                # Suppress similarly to the above JSONRPCException errors.
                if error_num not in [
                    errno.ECONNABORTED, # Treat identical to ECONNRESET
                    errno.ECONNRESET,   # This might happen when the RPC server is in warmup,
                                        # but shut down before the call to getblockcount succeeds.
                    errno.ETIMEDOUT,    # Treat identical to ECONNRESET
                    errno.ECONNREFUSED  # Port not yet open?
                ]:
                    raise  # unknown OS error
                latest_error = suppress_error(f"OSError {errno.errorcode[error_num]}", e)
            except ValueError as e:
                # Suppress if cookie file isn't generated yet and no rpcuser or rpcpassword; bitcoind may be starting.
                if "No RPC credentials" not in str(e):
                    raise
                latest_error = suppress_error("missing_credentials", e)
            time.sleep(1.0 / poll_per_s)
        self._raise_assertion_error(f"Unable to connect to bitcoind after {self.rpc_timeout}s (ignored errors: {dict(suppressed_errors)!s}{'' if latest_error is None else f', latest: {latest_error[0]!r}/{latest_error[1]}'})")

    def wait_for_cookie_credentials(self):
        """Ensures auth cookie credentials can be read, e.g. for testing CLI with -rpcwait before RPC connection is up."""
        self.log.debug("Waiting for cookie credentials")
        # Poll at a rate of four times per second.
        poll_per_s = 4
        for _ in range(poll_per_s * self.rpc_timeout):
            try:
                get_auth_cookie(self.datadir_path, self.chain)
                self.log.debug("Cookie credentials successfully retrieved")
                return
            except ValueError:  # cookie file not found and no rpcuser or rpcpassword; bitcoind is still starting
                pass            # so we continue polling until RPC credentials are retrieved
            time.sleep(1.0 / poll_per_s)
        self._raise_assertion_error("Unable to retrieve cookie credentials after {}s".format(self.rpc_timeout))

    def generate(self, nblocks, maxtries=1000000, **kwargs):
        self.log.debug("TestNode.generate() dispatches `generate` call to `generatetoaddress`")
        return self.generatetoaddress(nblocks=nblocks, address=self.get_deterministic_priv_key().address, maxtries=maxtries, **kwargs)

    def generateblock(self, *args, called_by_framework, **kwargs):
        assert called_by_framework, "Direct call of this mining RPC is discouraged. Please use one of the self.generate* methods on the test framework, which sync the nodes to avoid intermittent test issues. You may use sync_fun=self.no_op to disable the sync explicitly."
        return self.__getattr__('generateblock')(*args, **kwargs)

    def generatetoaddress(self, *args, called_by_framework, **kwargs):
        assert called_by_framework, "Direct call of this mining RPC is discouraged. Please use one of the self.generate* methods on the test framework, which sync the nodes to avoid intermittent test issues. You may use sync_fun=self.no_op to disable the sync explicitly."
        return self.__getattr__('generatetoaddress')(*args, **kwargs)

    def generatetodescriptor(self, *args, called_by_framework, **kwargs):
        assert called_by_framework, "Direct call of this mining RPC is discouraged. Please use one of the self.generate* methods on the test framework, which sync the nodes to avoid intermittent test issues. You may use sync_fun=self.no_op to disable the sync explicitly."
        return self.__getattr__('generatetodescriptor')(*args, **kwargs)

    def setmocktime(self, timestamp):
        """Wrapper for setmocktime RPC, sets self.mocktime"""
        if timestamp == 0:
            # setmocktime(0) resets to system time.
            self.mocktime = None
        else:
            self.mocktime = timestamp
        return self.__getattr__('setmocktime')(timestamp)

    def get_wallet_rpc(self, wallet_name):
        if self.use_cli:
            return self.cli("-rpcwallet={}".format(wallet_name))
        else:
            assert self.rpc_connected and self._rpc, self._node_msg("RPC not connected")
            wallet_path = "wallet/{}".format(urllib.parse.quote(wallet_name))
            return self._rpc / wallet_path

    def version_is_at_least(self, ver):
        return self.version is None or self.version >= ver

    def stop_node(self, expected_stderr='', *, wait=0, wait_until_stopped=True):
        """Stop the node."""
        if not self.running:
            return
        assert self.rpc_connected, self._node_msg(
            "Should only call stop_node() on a running node after wait_for_rpc_connection() succeeded. "
            f"Did you forget to call the latter after start()? Not connected to process: {self.process.pid}")
        self.log.debug("Stopping node")
        # Do not use wait argument when testing older nodes, e.g. in wallet_backwards_compatibility.py
        if self.version_is_at_least(180000):
            self.stop(wait=wait)
        else:
            self.stop()

        del self.p2ps[:]

        assert (not expected_stderr) or wait_until_stopped  # Must wait to check stderr
        if wait_until_stopped:
            self.wait_until_stopped(expected_stderr=expected_stderr)

    def is_node_stopped(self, *, expected_stderr="", expected_ret_code=0):
        """Checks whether the node has stopped.

        Returns True if the node has stopped. False otherwise.

        If the process has exited, asserts that the exit code matches
        `expected_ret_code` (which may be a single value or an iterable of values),
        and that stderr matches `expected_stderr` exactly or, if a regex pattern is
        provided, contains the pattern.

        This method is responsible for freeing resources (self.process)."""
        if not self.running:
            return True
        return_code = self.process.poll()
        if return_code is None:
            return False

        # process has stopped. Assert that it didn't return an error code.
        if not isinstance(expected_ret_code, Iterable):
            expected_ret_code = (expected_ret_code,)
        assert return_code in expected_ret_code, self._node_msg(
            f"Node returned unexpected exit code ({return_code}) vs ({expected_ret_code}) when stopping")
        # Check that stderr is as expected
        self.stderr.seek(0)
        stderr = self.stderr.read().decode('utf-8').strip()
        if isinstance(expected_stderr, re.Pattern):
            if not expected_stderr.search(stderr):
                raise AssertionError(f"Unexpected stderr {stderr!r} does not contain {expected_stderr.pattern!r}")
        elif stderr != expected_stderr:
            raise AssertionError("Unexpected stderr {} != {}".format(stderr, expected_stderr))

        self.stdout.close()
        self.stderr.close()

        self.running = False
        self.process = None
        self.rpc_connected = False
        self._rpc = None
        self.log.debug("Node stopped")
        return True

    def wait_until_stopped(self, *, timeout=BITCOIND_PROC_WAIT_TIMEOUT, expect_error=False, **kwargs):
        if "expected_ret_code" not in kwargs:
            kwargs["expected_ret_code"] = 1 if expect_error else 0  # Whether node shutdown return EXIT_FAILURE or EXIT_SUCCESS
        self.wait_until(lambda: self.is_node_stopped(**kwargs), timeout=timeout)

    def kill_process(self):
        self.process.kill()
        self.wait_until_stopped(expected_ret_code=1 if platform.system() == "Windows" else -9)
        assert self.is_node_stopped()

    def replace_in_config(self, replacements):
        """
        Perform replacements in the configuration file.
        The substitutions are passed as a list of search-replace-tuples, e.g.
            [("old", "new"), ("foo", "bar"), ...]
        """
        with open(self.bitcoinconf, 'r') as conf:
            conf_data = conf.read()
        for replacement in replacements:
            assert_equal(len(replacement), 2)
            old, new = replacement[0], replacement[1]
            conf_data = conf_data.replace(old, new)
        with open(self.bitcoinconf, 'w') as conf:
            conf.write(conf_data)

    @property
    def chain_path(self) -> Path:
        return self.datadir_path / self.chain

    @property
    def debug_log_path(self) -> Path:
        return self.chain_path / 'debug.log'

    @property
    def blocks_path(self) -> Path:
        return self.chain_path / "blocks"

    @property
    def blocks_key_path(self) -> Path:
        return self.blocks_path / "xor.dat"

    def read_xor_key(self) -> bytes:
        with open(self.blocks_key_path, "rb") as xor_f:
            return xor_f.read(NUM_XOR_BYTES)

    @property
    def wallets_path(self) -> Path:
        return self.chain_path / "wallets"

    def debug_log_size(self, **kwargs) -> int:
        with open(self.debug_log_path, **kwargs) as dl:
            dl.seek(0, 2)
            return dl.tell()

    @contextlib.contextmanager
    def assert_debug_log(self, expected_msgs, unexpected_msgs=None, *, timeout=0):
        if unexpected_msgs is None:
            unexpected_msgs = []
        assert_equal(type(expected_msgs), list)
        assert_equal(type(unexpected_msgs), list)
        remaining_expected = list(expected_msgs)

        time_end = time.time() + timeout * self.timeout_factor
        prev_size = self.debug_log_size(encoding="utf-8")  # Must use same encoding that is used to read() below

        def join_log(log):
            return " - " + "\n - ".join(log.splitlines())

        yield

        while True:
            with open(self.debug_log_path, encoding="utf-8", errors="replace") as dl:
                dl.seek(prev_size)
                log = dl.read()
            for unexpected_msg in unexpected_msgs:
                if unexpected_msg in log:
                    self._raise_assertion_error(f'Unexpected message "{unexpected_msg}" '
                                                f'found in log:\n\n{join_log(log)}\n\n')
            while remaining_expected and remaining_expected[-1] in log:
                remaining_expected.pop()
            if not remaining_expected:
                return
            if time.time() >= time_end:
                break
            time.sleep(0.05)
        remaining_expected = [e for e in remaining_expected if e not in log]
        self._raise_assertion_error(f'Expected message(s) {remaining_expected!s} '
                                    f'not found in log:\n\n{join_log(log)}\n\n')

    @contextlib.contextmanager
    def busy_wait_for_debug_log(self, expected_msgs, timeout=60):
        """
        Block until we see a particular debug log message fragment or until we exceed the timeout.
        """
        time_end = time.time() + timeout * self.timeout_factor
        prev_size = self.debug_log_size(mode="rb")  # Must use same mode that is used to read() below
        remaining_expected = list(expected_msgs)

        yield

        while True:
            with open(self.debug_log_path, "rb") as dl:
                dl.seek(prev_size)
                log = dl.read()

            while remaining_expected and remaining_expected[-1] in log:
                remaining_expected.pop()
            if not remaining_expected:
                return

            if time.time() >= time_end:
                print_log = " - " + "\n - ".join(log.decode("utf8", errors="replace").splitlines())
                break

            # No sleep here because we want to detect the message fragment as fast as
            # possible.

        remaining_expected = [e for e in remaining_expected if e not in log]
        self._raise_assertion_error(f'Expected message(s) {remaining_expected!s} '
                                    f'not found in log:\n\n{print_log}\n\n')

    @contextlib.contextmanager
    def wait_for_new_peer(self, timeout=5):
        """
        Wait until the node is connected to at least one new peer. We detect this
        by watching for an increased highest peer id, using the `getpeerinfo` RPC call.
        Note that the simpler approach of only accounting for the number of peers
        suffers from race conditions, as disconnects from unrelated previous peers
        could happen anytime in-between.
        """
        def get_highest_peer_id():
            peer_info = self.getpeerinfo()
            return peer_info[-1]["id"] if peer_info else -1

        initial_peer_id = get_highest_peer_id()
        yield
        self.wait_until(lambda: get_highest_peer_id() > initial_peer_id, timeout=timeout)

    def assert_start_raises_init_error(self, extra_args=None, expected_msg=None, match=ErrorMatch.FULL_TEXT, *args, **kwargs):
        """Attempt to start the node and expect it to raise an error.

        extra_args: extra arguments to pass through to bitcoind
        expected_msg: regex that stderr should match when bitcoind fails

        Will raise if bitcoind starts without an error.
        Will raise if an expected_msg is provided and it does not match bitcoind's stdout."""
        assert not self.running
        with tempfile.NamedTemporaryFile(dir=self.stderr_dir, delete=False) as log_stderr, \
             tempfile.NamedTemporaryFile(dir=self.stdout_dir, delete=False) as log_stdout:
            assert_msg = None
            try:
                self.start(extra_args, stdout=log_stdout, stderr=log_stderr, *args, **kwargs)
                ret = self.process.wait(timeout=self.rpc_timeout)
                self.log.debug(self._node_msg(f'bitcoind exited with status {ret} during initialization'))
                assert_not_equal(ret, 0) # Exit code must indicate failure
                self.running = False
                self.process = None
                # Check stderr for expected message
                if expected_msg is not None:
                    log_stderr.seek(0)
                    stderr = log_stderr.read().decode('utf-8').strip()
                    if match == ErrorMatch.PARTIAL_REGEX:
                        if re.search(expected_msg, stderr, flags=re.MULTILINE) is None:
                            self._raise_assertion_error(
                                'Expected message "{}" does not partially match stderr:\n"{}"'.format(expected_msg, stderr))
                    elif match == ErrorMatch.FULL_REGEX:
                        if re.fullmatch(expected_msg, stderr) is None:
                            self._raise_assertion_error(
                                'Expected message "{}" does not fully match stderr:\n"{}"'.format(expected_msg, stderr))
                    elif match == ErrorMatch.FULL_TEXT:
                        if expected_msg != stderr:
                            self._raise_assertion_error(
                                'Expected message "{}" does not fully match stderr:\n"{}"'.format(expected_msg, stderr))
            except subprocess.TimeoutExpired as e:
                self.process.kill()
                self.running = False
                self.process = None
                assert_msg = f'bitcoind should have exited within {self.rpc_timeout}s '
                if expected_msg is None:
                    assert_msg += "with an error"
                else:
                    assert_msg += "with expected error " + expected_msg
                assert_msg += f" (cmd: {e.cmd})"

            # Raise assertion outside of except-block above in order for it not to be treated as a knock-on exception.
            if assert_msg:
                self._raise_assertion_error(assert_msg)

    def add_p2p_connection(self, p2p_conn, *, wait_for_verack=True, send_version=True, supports_v2_p2p=None, wait_for_v2_handshake=True, expect_success=True, **kwargs):
        """Add an inbound p2p connection to the node.

        This method adds the p2p connection to the self.p2ps list and also
        returns the connection to the caller.

        When self.use_v2transport is True, TestNode advertises NODE_P2P_V2 service flag

        An inbound connection is made from TestNode <------ P2PConnection
        - if TestNode doesn't advertise NODE_P2P_V2 service, P2PConnection sends version message and v1 P2P is followed
        - if TestNode advertises NODE_P2P_V2 service, (and if P2PConnections supports v2 P2P)
                P2PConnection sends ellswift bytes and v2 P2P is followed
        """
        if 'dstport' not in kwargs:
            kwargs['dstport'] = p2p_port(self.index)
        if 'dstaddr' not in kwargs:
            kwargs['dstaddr'] = '127.0.0.1'
        if supports_v2_p2p is None:
            supports_v2_p2p = self.use_v2transport

        if self.use_v2transport:
            kwargs['services'] = kwargs.get('services', P2P_SERVICES) | NODE_P2P_V2
        supports_v2_p2p = self.use_v2transport and supports_v2_p2p
        p2p_conn.peer_connect(**kwargs, send_version=send_version, net=self.chain, timeout_factor=self.timeout_factor, supports_v2_p2p=supports_v2_p2p)()

        self.p2ps.append(p2p_conn)
        if not expect_success:
            return p2p_conn
        p2p_conn.wait_until(lambda: p2p_conn.is_connected, check_connected=False)
        if supports_v2_p2p and wait_for_v2_handshake:
            p2p_conn.wait_until(lambda: p2p_conn.v2_state.tried_v2_handshake)
        if send_version:
            p2p_conn.wait_until(lambda: not p2p_conn.on_connection_send_msg)
        if wait_for_verack:
            # Wait for the node to send us the version and verack
            p2p_conn.wait_for_verack()
            # At this point we have sent our version message and received the version and verack, however the full node
            # has not yet received the verack from us (in reply to their version). So, the connection is not yet fully
            # established (fSuccessfullyConnected).
            #
            # This shouldn't lead to any issues when sending messages, since the verack will be in-flight before the
            # message we send. However, it might lead to races where we are expecting to receive a message. E.g. a
            # transaction that will be added to the mempool as soon as we return here.
            #
            # So syncing here is redundant when we only want to send a message, but the cost is low (a few milliseconds)
            # in comparison to the upside of making tests less fragile and unexpected intermittent errors less likely.
            p2p_conn.sync_with_ping()

            # Consistency check that the node received our user agent string.
            # Find our connection in getpeerinfo by our address:port and theirs, as this combination is unique.
            sockname = p2p_conn._transport.get_extra_info("socket").getsockname()
            our_addr_and_port = f"{sockname[0]}:{sockname[1]}"
            dst_addr_and_port = f"{p2p_conn.dstaddr}:{p2p_conn.dstport}"
            info = [peer for peer in self.getpeerinfo() if peer["addr"] == our_addr_and_port and peer["addrbind"] == dst_addr_and_port]
            assert_equal(len(info), 1)
            assert_equal(info[0]["subver"], P2P_SUBVERSION)

        return p2p_conn

    def add_outbound_p2p_connection(self, p2p_conn, *, wait_for_verack=True, wait_for_disconnect=False, p2p_idx, connection_type="outbound-full-relay", supports_v2_p2p=None, advertise_v2_p2p=None, **kwargs):
        """Add an outbound p2p connection from node. Must be an
        "outbound-full-relay", "block-relay-only", "addr-fetch" or "feeler" connection.

        This method adds the p2p connection to the self.p2ps list and returns
        the connection to the caller.

        p2p_idx must be different for simultaneously connected peers. When reusing it for the next peer
        after disconnecting the previous one, it is necessary to wait for the disconnect to finish to avoid
        a race condition.

        Parameters:
            supports_v2_p2p: whether p2p_conn supports v2 P2P or not
            advertise_v2_p2p: whether p2p_conn is advertised to support v2 P2P or not

        An outbound connection is made from TestNode -------> P2PConnection
            - if P2PConnection doesn't advertise_v2_p2p, TestNode sends version message and v1 P2P is followed
            - if P2PConnection both supports_v2_p2p and advertise_v2_p2p, TestNode sends ellswift bytes and v2 P2P is followed
            - if P2PConnection doesn't supports_v2_p2p but advertise_v2_p2p,
                TestNode sends ellswift bytes and P2PConnection disconnects,
                TestNode reconnects by sending version message and v1 P2P is followed
        """

        def addconnection_callback(address, port):
            self.log.debug("Connecting to %s:%d %s" % (address, port, connection_type))
            self.addconnection('%s:%d' % (address, port), connection_type, advertise_v2_p2p)

        if supports_v2_p2p is None:
            supports_v2_p2p = self.use_v2transport
        if advertise_v2_p2p is None:
            advertise_v2_p2p = self.use_v2transport

        if advertise_v2_p2p:
            kwargs['services'] = kwargs.get('services', P2P_SERVICES) | NODE_P2P_V2
            assert self.use_v2transport  # only a v2 TestNode could make a v2 outbound connection

        # if P2PConnection is advertised to support v2 P2P when it doesn't actually support v2 P2P,
        # reconnection needs to be attempted using v1 P2P by sending version message
        reconnect = advertise_v2_p2p and not supports_v2_p2p
        # P2PConnection needs to be advertised to support v2 P2P so that ellswift bytes are sent instead of msg_version
        supports_v2_p2p = supports_v2_p2p and advertise_v2_p2p
        p2p_conn.peer_accept_connection(connect_cb=addconnection_callback, connect_id=p2p_idx + 1, net=self.chain, timeout_factor=self.timeout_factor, supports_v2_p2p=supports_v2_p2p, reconnect=reconnect, **kwargs)()

        if reconnect:
            p2p_conn.wait_for_reconnect()

        if connection_type == "feeler" or wait_for_disconnect:
            # feeler connections are closed as soon as the node receives a `version` message
            p2p_conn.wait_until(lambda: p2p_conn.message_count["version"] == 1, check_connected=False)
            p2p_conn.wait_until(lambda: not p2p_conn.is_connected, check_connected=False)
        else:
            p2p_conn.wait_for_connect()
            self.p2ps.append(p2p_conn)

            if supports_v2_p2p:
                p2p_conn.wait_until(lambda: p2p_conn.v2_state.tried_v2_handshake)
            p2p_conn.wait_until(lambda: not p2p_conn.on_connection_send_msg)
            if wait_for_verack:
                p2p_conn.wait_for_verack()
                p2p_conn.sync_with_ping()

        return p2p_conn

    def num_test_p2p_connections(self):
        """Return number of test framework p2p connections to the node."""
        return len([peer for peer in self.getpeerinfo() if peer['subver'] == P2P_SUBVERSION])

    def disconnect_p2ps(self):
        """Close all p2p connections to the node.
        The state of the peers (such as txrequests) may not be fully cleared
        yet, even after this method returns."""
        for p in self.p2ps:
            p.peer_disconnect()
        del self.p2ps[:]

        self.wait_until(lambda: self.num_test_p2p_connections() == 0)

    def is_connected_to(self, other):
        assert isinstance(other, TestNode)
        other_subver = other.getnetworkinfo()["subversion"]
        return any(peer["subver"] == other_subver for peer in self.getpeerinfo())

    def bumpmocktime(self, seconds):
        """Fast forward using setmocktime to self.mocktime + seconds. Requires setmocktime to have
        been called at some point in the past."""
        assert self.mocktime
        self.mocktime += seconds
        self.setmocktime(self.mocktime)

    def wait_until(self, test_function, timeout=60, check_interval=0.05):
        return wait_until_helper_internal(test_function, timeout=timeout, timeout_factor=self.timeout_factor, check_interval=check_interval)

class TestNodeCLIAttr:
    def __init__(self, cli, command):
        self.cli = cli
        self.command = command

    def __call__(self, *args, **kwargs):
        return self.cli.send_cli(self.command, *args, **kwargs)

    def get_request(self, *args, **kwargs):
        return lambda: self(*args, **kwargs)


def arg_to_cli(arg):
    if isinstance(arg, bool):
        return str(arg).lower()
    elif arg is None:
        return 'null'
    elif isinstance(arg, dict) or isinstance(arg, list) or isinstance(arg, tuple):
        return json.dumps(arg, default=serialization_fallback)
    else:
        return str(arg)


class TestNodeCLI():
    """Interface to bitcoin-cli for an individual node"""
    def __init__(self, binaries):
        self.options = []
        self.binaries = binaries
        self.input = None
        self.log = logging.getLogger('TestFramework.bitcoincli')

    def __call__(self, *options, input=None):
        # TestNodeCLI is callable with bitcoin-cli command-line options
        cli = TestNodeCLI(self.binaries)
        cli.options = self.options + [str(o) for o in options]
        cli.input = input
        return cli

    def __getattr__(self, command):
        return TestNodeCLIAttr(self, command)

    def batch(self, requests):
        results = []
        for request in requests:
            try:
                results.append(dict(result=request()))
            except JSONRPCException as e:
                results.append(dict(error=e))
        return results

    def send_cli(self, clicommand=None, *args, **kwargs):
        """Run bitcoin-cli command. Deserializes returned string as python object."""
        pos_args = [arg_to_cli(arg) for arg in args]
        named_args = [key + "=" + arg_to_cli(value) for (key, value) in kwargs.items() if value is not None]
        p_args = self.binaries.rpc_argv() + self.options
        if named_args:
            p_args += ["-named"]
        base_arg_pos = len(p_args)
        if clicommand is not None:
            p_args += [clicommand]
        p_args += pos_args + named_args

        # TEST_CLI_MAX_ARG_SIZE is set low enough that checking the string
        # length is enough and encoding to bytes is not needed before
        # calculating the sum.
        sum_arg_size = sum(len(arg) for arg in p_args)
        stdin_data = self.input
        if sum_arg_size >= TEST_CLI_MAX_ARG_SIZE:
            self.log.debug(f"Cli: Command size {sum_arg_size} too large, using stdin")
            rpc_args = "\n".join([arg for arg in p_args[base_arg_pos:]])
            if stdin_data is not None:
                stdin_data += "\n" + rpc_args
            else:
                stdin_data = rpc_args
            p_args = p_args[:base_arg_pos] + ['-stdin']

        self.log.debug("Running bitcoin-cli {}".format(p_args[2:]))
        process = subprocess.Popen(p_args, stdin=subprocess.PIPE, stdout=subprocess.PIPE, stderr=subprocess.PIPE, text=True)
        cli_stdout, cli_stderr = process.communicate(input=stdin_data)
        returncode = process.poll()
        if returncode:
            match = re.match(r'error code: ([-0-9]+)\nerror message:\n(.*)', cli_stderr)
            if match:
                code, message = match.groups()
                raise JSONRPCException(dict(code=int(code), message=message))
            match = re.match(r'error: Server response: (.*)\n?$', cli_stderr)
            if match:
                message = match.group(1)
                raise JSONRPCException(dict(
                    code=-342,
                    message=f"non-JSON HTTP response with '503 Service Unavailable' from server: {message}",
                ), http_status=503)
            # Ignore cli_stdout, raise with cli_stderr
            raise subprocess.CalledProcessError(returncode, p_args, output=cli_stderr)
        try:
            if not cli_stdout.strip():
                return None
            return json.loads(cli_stdout, parse_float=decimal.Decimal)
        except (json.JSONDecodeError, decimal.InvalidOperation):
            return cli_stdout.rstrip("\n")
