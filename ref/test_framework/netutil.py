#!/usr/bin/env python3
# Copyright (c) 2014-present The Bitcoin Core developers
# Distributed under the MIT software license, see the accompanying
# file COPYING or http://www.opensource.org/licenses/mit-license.php.
"""Linux, macOS, BSD and illumos network utilities.

Roughly based on https://web.archive.org/web/20190424172231/http://voorloopnul.com/blog/a-python-netstat-in-less-than-100-lines-of-code/ by Ricardo Pascal
"""

import http.client
import sys
import socket
import struct
import array
import os

# Easily unreachable address. Attempts to connect to it will stay within the machine.
# Used to avoid non-loopback traffic or DNS queries.
UNREACHABLE_PROXY_ARG = '-proxy=127.0.0.1:1'

# STATE_ESTABLISHED = '01'
# STATE_SYN_SENT  = '02'
# STATE_SYN_RECV = '03'
# STATE_FIN_WAIT1 = '04'
# STATE_FIN_WAIT2 = '05'
# STATE_TIME_WAIT = '06'
# STATE_CLOSE = '07'
# STATE_CLOSE_WAIT = '08'
# STATE_LAST_ACK = '09'
STATE_LISTEN = '0A'
# STATE_CLOSING = '0B'

# Address manager size constants as defined in addrman_impl.h
ADDRMAN_NEW_BUCKET_COUNT = 1 << 10
ADDRMAN_TRIED_BUCKET_COUNT = 1 << 8
ADDRMAN_BUCKET_SIZE = 1 << 6

# When a test expects a server disconnection, any of these errors are
# acceptable. The specific event is determined by race condition and platform OS.
NETWORK_ERRORS = (
    BrokenPipeError,                 # write to a closed socket/pipe
    ConnectionResetError,            # connection forcibly closed by peer
    ConnectionAbortedError,          # connection aborted locally or by network stack
    http.client.ResponseNotReady,    # server response not ready or connection out of sync
)

def get_socket_inodes(pid):
    '''
    Get list of socket inodes for process pid.
    '''
    base = '/proc/%i/fd' % pid
    inodes = []
    for item in os.listdir(base):
        try:
            target = os.readlink(os.path.join(base, item))
            if target.startswith('socket:'):
                inodes.append(int(target[8:-1]))
        except FileNotFoundError:
            pass
    return inodes

def _remove_empty(array):
    return [x for x in array if x !='']

def _convert_ip_port(array):
    host,port = array.split(':')
    # convert host from mangled-per-four-bytes form as used by kernel
    host = bytes.fromhex(host)
    host_out = ''
    for x in range(0, len(host) // 4):
        (val,) = struct.unpack('=I', host[x*4:(x+1)*4])
        host_out += '%08x' % val

    return host_out,int(port,16)

def netstat(typ='tcp'):
    '''
    Function to return a list with status of tcp connections at linux systems
    To get pid of all network process running on system, you must run this script
    as superuser
    '''
    with open('/proc/net/'+typ,'r') as f:
        content = f.readlines()
        content.pop(0)
    result = []
    for line in content:
        line_array = _remove_empty(line.split(' '))     # Split lines and remove empty spaces.
        tcp_id = line_array[0]
        l_addr = _convert_ip_port(line_array[1])
        r_addr = _convert_ip_port(line_array[2])
        state = line_array[3]
        inode = int(line_array[9])                      # Need the inode to match with process pid.
        nline = [tcp_id, l_addr, r_addr, state, inode]
        result.append(nline)
    return result

def get_bind_addrs(pid):
    '''
    Get bind addresses as (host,port) tuples for process pid.
    '''
    if sys.platform == 'linux':
        inodes = get_socket_inodes(pid)
        bind_addrs = []
        for conn in netstat('tcp') + netstat('tcp6'):
            if conn[3] == STATE_LISTEN and conn[4] in inodes:
                bind_addrs.append(conn[1])
        return bind_addrs
    # OpenBSD is not included, as it does not ship the lsof utility.
    elif sys.platform.startswith(("darwin", "freebsd", "netbsd", "sunos5")):
        import re
        import subprocess
        output = subprocess.check_output(["lsof",
            *(["-Di"] if sys.platform.startswith(("freebsd", "netbsd", "sunos5")) else []), # Ignore device cache to avoid stderr warnings.
            *(["-w"] if sys.platform.startswith("netbsd") else []), # Ignore point release mismatch warnings.
            "-nP",          # Keep hosts and ports numeric.
            "-a",           # Require all filters to match.
            "-p", str(pid), # Limit results to the target pid.
            "-iTCP",        # Only inspect TCP sockets.
            "-sTCP:LISTEN", # Only keep listening sockets.
            "-Ftn",         # Emit machine-readable type and name fields.
        ], text=True)
        return [
            (addr_to_hex(("::" if sock_type == "IPv6" else "0.0.0.0") if host == "*" else host.strip("[]")), int(port))
            for sock_type, host, port in re.findall(r"t(IPv[46])\nn(\*|\[.+?]|[^:]+):(\d+)", output)
        ]
    else:
        raise NotImplementedError(f"get_bind_addrs is not supported on {sys.platform}")

def all_interfaces():
    '''
    Return all IPv4 interfaces that are up.
    '''
    if sys.platform == 'linux':
        import fcntl  # Linux only, so only import when required

        is_64bits = sys.maxsize > 2**32
        struct_size = 40 if is_64bits else 32
        s = socket.socket(socket.AF_INET, socket.SOCK_DGRAM)
        max_possible = 8 # initial value
        while True:
            bytes = max_possible * struct_size
            names = array.array('B', b'\0' * bytes)
            outbytes = struct.unpack('iL', fcntl.ioctl(
                s.fileno(),
                0x8912,  # SIOCGIFCONF
                struct.pack('iL', bytes, names.buffer_info()[0])
            ))[0]
            if outbytes == bytes:
                max_possible *= 2
            else:
                break
        namestr = names.tobytes()
        return [(namestr[i:i+16].split(b'\0', 1)[0],
                 socket.inet_ntoa(namestr[i+20:i+24]))
                for i in range(0, outbytes, struct_size)]
    elif sys.platform.startswith(("darwin", "freebsd", "netbsd", "openbsd", "sunos5")):
        import re
        import subprocess
        output = subprocess.check_output(["ifconfig", "-au"], text=True)
        return [
            (m["iface"].encode(), ip)
            for m in re.finditer(r"(?m)^(?P<iface>\S+):(?P<block>[^\n]*(?:\n[ \t]+[^\n]*)*)", output)
            for ip in re.findall(r"inet ([^\s/]+)", m["block"])
        ]
    else:
        raise NotImplementedError(f"all_interfaces is not supported on {sys.platform}")

def addr_to_hex(addr):
    '''
    Convert string IPv4 or IPv6 address to binary address as returned by
    get_bind_addrs.
    Very naive implementation that certainly doesn't work for all IPv6 variants.
    '''
    if '.' in addr: # IPv4
        addr = [int(x) for x in addr.split('.')]
    elif ':' in addr: # IPv6
        sub = [[], []] # prefix, suffix
        x = 0
        addr = addr.split(':')
        for i,comp in enumerate(addr):
            if comp == '':
                if i == 0 or i == (len(addr)-1): # skip empty component at beginning or end
                    continue
                x += 1 # :: skips to suffix
                assert x < 2
            else: # two bytes per component
                val = int(comp, 16)
                sub[x].append(val >> 8)
                sub[x].append(val & 0xff)
        nullbytes = 16 - len(sub[0]) - len(sub[1])
        assert (x == 0 and nullbytes == 0) or (x == 1 and nullbytes > 0)
        addr = sub[0] + ([0] * nullbytes) + sub[1]
    else:
        raise ValueError('Could not parse address %s' % addr)
    return bytearray(addr).hex()

def test_ipv6_local():
    '''
    Check for (local) IPv6 support.
    '''
    # By using SOCK_DGRAM this will not actually make a connection, but it will
    # fail if there is no route to IPv6 localhost.
    have_ipv6 = True
    try:
        s = socket.socket(socket.AF_INET6, socket.SOCK_DGRAM)
        s.connect(('::1', 1))
    except socket.error:
        have_ipv6 = False
    return have_ipv6

def test_unix_socket():
    '''Return True if UNIX sockets are available on this platform.'''
    try:
        socket.AF_UNIX
    except AttributeError:
        return False
    else:
        return True

def format_addr_port(addr, port):
    '''Return either "addr:port" or "[addr]:port" based on whether addr looks like an IPv6 address.'''
    if ":" in addr:
        return f"[{addr}]:{port}"
    else:
        return f"{addr}:{port}"

def format_sock(sock, *, local):
    '''
    Format either local or remote side of a socket to a human readable string, e.g.
    1.2.3.4:8333 or
    [11:22::33]:8333 or
    /path/to/socket or
    @abstract-socket
    '''
    try:
        if local:
            name = sock.getsockname()
        else:
            name = sock.getpeername()
    except Exception:
        return "n/a"

    if sock.family == socket.AF_INET:
        return f"{name[0]}:{name[1]}"

    if sock.family == socket.AF_INET6:
        return f"[{name[0]}]:{name[1]}"

    if sock.family == socket.AF_UNIX:
        if isinstance(name, bytes):
            name = name.decode(errors="backslashreplace")
        if name.startswith("\0"):
            return f"@{name[1:]}"
        return name

    return str(name)


def set_ephemeral_port_range(sock):
    '''On FreeBSD, set socket to use the high ephemeral port range (49152-65535).

    FreeBSD's default ephemeral port range (10000-65535) overlaps with the test
    framework's static port range starting at TEST_RUNNER_PORT_MIN (default=11000).
    Using IP_PORTRANGE_HIGH avoids this overlap when binding to port 0 for dynamic
    port allocation.
    '''
    if sys.platform.startswith('freebsd'):
        # Constants from FreeBSD's netinet/in.h and netinet6/in6.h
        IP_PORTRANGE = 19
        IPV6_PORTRANGE = 14
        IP_PORTRANGE_HIGH = 1  # Same value for both IPv4 and IPv6
        if sock.family == socket.AF_INET6:
            sock.setsockopt(socket.IPPROTO_IPV6, IPV6_PORTRANGE, IP_PORTRANGE_HIGH)
        else:
            sock.setsockopt(socket.IPPROTO_IP, IP_PORTRANGE, IP_PORTRANGE_HIGH)
