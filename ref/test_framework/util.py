#!/usr/bin/env python3
# Copyright (c) 2014-present The Bitcoin Core developers
# Distributed under the MIT software license, see the accompanying
# file COPYING or http://www.opensource.org/licenses/mit-license.php.
"""Helpful routines for regression testing."""

from base64 import b64encode
from copy import copy
from decimal import Decimal
from subprocess import CalledProcessError
import hashlib
import inspect
import json
import logging
import os
import pathlib
import platform
import random
import re
import shlex
import time
import types

from .descriptors import descsum_create
from collections.abc import Callable
from typing import Optional, Union

SATOSHI_PRECISION = Decimal('0.00000001')

logger = logging.getLogger("TestFramework.utils")

class JSONRPCException(Exception):
    def __init__(self, rpc_error, http_status=None):
        self.error = rpc_error
        self.http_status = http_status

        # throw KeyError if any required fields are missing
        copied_error = copy(rpc_error)
        message = copied_error.pop("message")
        code = copied_error.pop("code")
        extra = f'{copied_error}' if copied_error else ''
        super().__init__(f"{message} ({code}) {extra} [http_status={http_status}]")

# Assert functions
##################


def assert_approx(v, vexp, vspan=0.00001):
    """Assert that `v` is within `vspan` of `vexp`"""
    if isinstance(v, Decimal) or isinstance(vexp, Decimal):
        v=Decimal(v)
        vexp=Decimal(vexp)
        vspan=Decimal(vspan)
    if v < vexp - vspan:
        raise AssertionError("%s < [%s..%s]" % (str(v), str(vexp - vspan), str(vexp + vspan)))
    if v > vexp + vspan:
        raise AssertionError("%s > [%s..%s]" % (str(v), str(vexp - vspan), str(vexp + vspan)))


def assert_fee_amount(fee, tx_size, feerate_BTC_kvB):
    """Assert the fee is in range."""
    assert isinstance(tx_size, int)
    target_fee = get_fee(tx_size, feerate_BTC_kvB)
    if fee < target_fee:
        raise AssertionError("Fee of %s BTC too low! (Should be %s BTC)" % (str(fee), str(target_fee)))
    # allow the wallet's estimation to be at most 2 bytes off
    high_fee = get_fee(tx_size + 2, feerate_BTC_kvB)
    if fee > high_fee:
        raise AssertionError("Fee of %s BTC too high! (Should be %s BTC)" % (str(fee), str(target_fee)))


def summarise_dict_differences(thing1, thing2):
    if not isinstance(thing1, dict) or not isinstance(thing2, dict):
        return thing1, thing2
    d1, d2 = {}, {}
    for k in sorted(thing1.keys()):
        if k not in thing2:
            d1[k] = thing1[k]
        elif thing1[k] != thing2[k]:
            d1[k], d2[k] = summarise_dict_differences(thing1[k], thing2[k])
    for k in sorted(thing2.keys()):
        if k not in thing1:
            d2[k] = thing2[k]
    return d1, d2

def assert_equal(thing1, thing2, *args):
    if thing1 != thing2 and not args and isinstance(thing1, dict) and isinstance(thing2, dict):
        d1,d2 = summarise_dict_differences(thing1, thing2)
        if d1 != thing1 or d2 != thing2:
            raise AssertionError(f"not({thing1!s} == {thing2!s})\n  in particular not({d1!s} == {d2!s})")
        else:
            raise AssertionError(f"not({thing1!s} == {thing2!s})")
    if thing1 != thing2 or any(thing1 != arg for arg in args):
        raise AssertionError("not(%s)" % " == ".join(str(arg) for arg in (thing1, thing2) + args))

def assert_not_equal(thing1, thing2, *, error_message=""):
    if thing1 == thing2:
        raise AssertionError(f"Both values are {thing1}{f', {error_message}' if error_message else ''}")


def assert_greater_than(thing1, thing2):
    if thing1 <= thing2:
        raise AssertionError("%s <= %s" % (str(thing1), str(thing2)))


def assert_greater_than_or_equal(thing1, thing2):
    if thing1 < thing2:
        raise AssertionError("%s < %s" % (str(thing1), str(thing2)))


def assert_raises(exc, fun, *args, **kwds):
    assert_raises_message(exc, None, fun, *args, **kwds)


def assert_raises_message(exc, message, fun, *args, **kwds):
    try:
        fun(*args, **kwds)
    except JSONRPCException:
        raise AssertionError("Use assert_raises_rpc_error() to test RPC failures")
    except exc as e:
        if message is not None and message not in str(e):
            raise AssertionError("Expected substring not found in exception:\n"
                                 f"substring: '{message}'\nexception: {e!r}.")
    except Exception as e:
        raise AssertionError("Unexpected exception raised: " + type(e).__name__)
    else:
        raise AssertionError("No exception raised")


def assert_raises_process_error(returncode: int, output: str, fun: Callable, *args, **kwds):
    """Execute a process and asserts the process return code and output.

    Calls function `fun` with arguments `args` and `kwds`. Catches a CalledProcessError
    and verifies that the return code and output are as expected. Throws AssertionError if
    no CalledProcessError was raised or if the return code and output are not as expected.

    Args:
        returncode: the process return code.
        output: [a substring of] the process output.
        fun: the function to call. This should execute a process.
        args*: positional arguments for the function.
        kwds**: named arguments for the function.
    """
    try:
        fun(*args, **kwds)
    except CalledProcessError as e:
        if returncode != e.returncode:
            raise AssertionError("Unexpected returncode %i" % e.returncode)
        if output not in e.output:
            raise AssertionError(f"Expected substring not found in: {e.output!r}")
    else:
        raise AssertionError("No exception raised")


def assert_raises_rpc_error(code: Optional[int], message: Optional[str], fun: Callable, *args, **kwds):
    """Run an RPC and verify that a specific JSONRPC exception code and message is raised.

    Calls function `fun` with arguments `args` and `kwds`. Catches a JSONRPCException
    and verifies that the error code and message are as expected. Throws AssertionError if
    no JSONRPCException was raised or if the error code/message are not as expected.

    Args:
        code: the error code returned by the RPC call (defined in src/rpc/protocol.h).
            Set to None if checking the error code is not required.
        message: [a substring of] the error string returned by the RPC call.
            Set to None if checking the error string is not required.
        fun: the function to call. This should be the name of an RPC.
        args*: positional arguments for the function.
        kwds**: named arguments for the function.
    """
    assert try_rpc(code, message, fun, *args, **kwds), "No exception raised"


def try_rpc(code, message, fun, *args, **kwds):
    """Tries to run an rpc command.

    Test against error code and message if the rpc fails.
    Returns whether a JSONRPCException was raised."""
    try:
        fun(*args, **kwds)
    except JSONRPCException as e:
        # JSONRPCException was thrown as expected. Check the message and code values are correct.
        if (message is not None) and (message not in e.error['message']):
            raise AssertionError(
                "Expected substring not found in error message:\nsubstring: '{}'\nerror message: '{}'.".format(
                    message, e.error['message']))
        if (code is not None) and (code != e.error["code"]):
            raise AssertionError("Unexpected JSONRPC error code %i" % e.error["code"])
        return True
    except Exception as e:
        raise AssertionError("Unexpected exception raised: " + type(e).__name__)
    else:
        return False


def assert_is_hex_string(string):
    try:
        int(string, 16)
    except Exception as e:
        raise AssertionError("Couldn't interpret %r as hexadecimal; raised: %s" % (string, e))


def assert_is_hash_string(string, length=64):
    if not isinstance(string, str):
        raise AssertionError("Expected a string, got type %r" % type(string))
    elif length and len(string) != length:
        raise AssertionError("String of length %d expected; got %d" % (length, len(string)))
    elif not re.match('[abcdef0-9]+$', string):
        raise AssertionError("String %r contains invalid characters for a hash." % string)


def assert_array_result(object_array, to_match, expected, should_not_find=False):
    """
        Pass in array of JSON objects, a dictionary with key/value pairs
        to match against, and another dictionary with expected key/value
        pairs.
        If the should_not_find flag is true, to_match should not be found
        in object_array
        """
    if should_not_find:
        assert_equal(expected, {})
    num_matched = 0
    for item in object_array:
        all_match = True
        for key, value in to_match.items():
            if item[key] != value:
                all_match = False
        if not all_match:
            continue
        elif should_not_find:
            num_matched = num_matched + 1
        for key, value in expected.items():
            if item[key] != value:
                raise AssertionError("%s : expected %s=%s" % (str(item), str(key), str(value)))
            num_matched = num_matched + 1
    if num_matched == 0 and not should_not_find:
        raise AssertionError("No objects matched %s" % (str(to_match)))
    if num_matched > 0 and should_not_find:
        raise AssertionError("Objects were found %s" % (str(to_match)))


# Utility functions
###################


def check_json_precision():
    """Make sure json library being used does not lose precision converting BTC values"""
    n = Decimal("20000000.00000003")
    satoshis = int(json.loads(json.dumps(float(n))) * 1.0e8)
    if satoshis != 2000000000000003:
        raise RuntimeError("JSON encode/decode loses precision")


class Binaries:
    """Helper class to provide information about bitcoin binaries

    Attributes:
        paths: Object returned from get_binary_paths() containing information
            which binaries and command lines to use from environment variables and
            the config file.
        bin_dir: An optional string containing a directory path to look for
            binaries, which takes precedence over the paths above, if specified.
            This is used by tests calling binaries from previous releases.
    """
    def __init__(self, paths, bin_dir, *, use_valgrind=False):
        self.paths = paths
        self.bin_dir = bin_dir
        suppressions_file = pathlib.Path(__file__).resolve().parents[3] / "test" / "sanitizer_suppressions" / "valgrind.supp"
        self.valgrind_cmd = [
            "valgrind",
            f"--suppressions={suppressions_file}",
            "--gen-suppressions=all",
            "--trace-children=yes",  # Needed for 'bitcoin' wrapper
            "--exit-on-first-error=yes",
            "--error-exitcode=1",
            "--quiet",
        ] if use_valgrind else []

    def node_argv(self, **kwargs):
        "Return argv array that should be used to invoke bitcoind"
        return self._argv("node", self.paths.bitcoind, **kwargs)

    def rpc_argv(self):
        "Return argv array that should be used to invoke bitcoin-cli"
        # Add -nonamed because "bitcoin rpc" enables -named by default, but bitcoin-cli doesn't
        return self._argv("rpc", self.paths.bitcoincli) + ["-nonamed"]

    def bench_argv(self):
        "Return argv array that should be used to invoke bench_bitcoin"
        return self._argv("bench", self.paths.bitcoin_bench)

    def tx_argv(self):
        "Return argv array that should be used to invoke bitcoin-tx"
        return self._argv("tx", self.paths.bitcointx)

    def util_argv(self):
        "Return argv array that should be used to invoke bitcoin-util"
        return self._argv("util", self.paths.bitcoinutil)

    def wallet_argv(self):
        "Return argv array that should be used to invoke bitcoin-wallet"
        return self._argv("wallet", self.paths.bitcoinwallet)

    def chainstate_argv(self):
        "Return argv array that should be used to invoke bitcoin-chainstate"
        return self._argv("chainstate", self.paths.bitcoinchainstate)

    def _argv(self, command, bin_path, *, need_ipc=False, use_gui=False):
        """Return argv array that should be used to invoke the command.

        It either uses the bitcoin wrapper executable (if BITCOIN_CMD, need_ipc,
        or use_gui are set), or the direct binary path (bitcoind, etc). When
        bin_dir is set (by tests calling binaries from previous releases) it
        always uses the direct path.

        The returned args include valgrind, except when bin_dir is set
        (previous releases). Also, valgrind will only apply to the bitcoin
        wrapper executable directly, not to the commands that `bitcoin` calls.
        """
        if self.bin_dir is not None:
            return [os.path.join(self.bin_dir, os.path.basename(bin_path))]
        elif self.paths.bitcoin_cmd is not None or need_ipc or use_gui:
            # If the current test needs IPC or GUI functionality, use the
            # bitcoin wrapper binary and add appropriate options.
            bitcoin_cmd = self.paths.bitcoin_cmd or [self.paths.bitcoin_bin]
            subcommand = "gui" if use_gui and command == "node" else command
            return self.valgrind_cmd + bitcoin_cmd + (["-m"] if need_ipc else []) + [subcommand]
        else:
            return self.valgrind_cmd + [bin_path]


def get_binary_paths(config):
    """Get paths of all binaries from environment variables or their default values"""

    paths = types.SimpleNamespace()
    binaries = {
        "bitcoin": "BITCOIN_BIN",
        "bitcoind": "BITCOIND",
        "bench_bitcoin": "BITCOIN_BENCH",
        "bitcoin-cli": "BITCOINCLI",
        "bitcoin-util": "BITCOINUTIL",
        "bitcoin-tx": "BITCOINTX",
        "bitcoin-chainstate": "BITCOINCHAINSTATE",
        "bitcoin-wallet": "BITCOINWALLET",
    }
    # Set paths to bitcoin core binaries allowing overrides with environment
    # variables.
    for binary, env_variable_name in binaries.items():
        default_filename = os.path.join(
            config["environment"]["BUILDDIR"],
            "bin",
            binary + config["environment"]["EXEEXT"],
        )
        setattr(paths, env_variable_name.lower(), os.getenv(env_variable_name, default=default_filename))
    # BITCOIN_CMD environment variable can be specified to invoke bitcoin
    # wrapper binary instead of other executables.
    paths.bitcoin_cmd = shlex.split(os.getenv("BITCOIN_CMD", "")) or None
    return paths


def export_env_build_path(config):
    os.environ["PATH"] = os.pathsep.join([
        os.path.join(config["environment"]["BUILDDIR"], "bin"),
        os.environ["PATH"],
    ])


def count_bytes(hex_string):
    return len(bytearray.fromhex(hex_string))


def str_to_b64str(string):
    return b64encode(string.encode('utf-8')).decode('ascii')


def ceildiv(a, b):
    """
    Divide 2 ints and round up to next int rather than round down
    Implementation requires python integers, which have a // operator that does floor division.
    Other types like decimal.Decimal whose // operator truncates towards 0 will not work.
    """
    assert isinstance(a, int)
    assert isinstance(b, int)
    return -(-a // b)


def random_bitflip(data):
    data = list(data)
    data[random.randrange(len(data))] ^= (1 << (random.randrange(8)))
    return bytes(data)


def get_fee(tx_size, feerate_btc_kvb):
    """Calculate the fee in BTC given a feerate is BTC/kvB. Reflects CFeeRate::GetFee"""
    feerate_sat_kvb = int(feerate_btc_kvb * Decimal(1e8)) # Fee in sat/kvb as an int to avoid float precision errors
    target_fee_sat = ceildiv(feerate_sat_kvb * tx_size, 1000) # Round calculated fee up to nearest sat
    return target_fee_sat / Decimal(1e8) # Return result in  BTC


def satoshi_round(amount: Union[int, float, str], *, rounding: str) -> Decimal:
    """Rounds a Decimal amount to the nearest satoshi using the specified rounding mode."""
    return Decimal(amount).quantize(SATOSHI_PRECISION, rounding=rounding)


def ensure_for(*, duration, f, check_interval=0.2):
    """Check if the predicate keeps returning True for duration.

    check_interval can be used to configure the wait time between checks.
    Setting check_interval to 0 will allow to have two checks: one in the
    beginning and one after duration.
    """
    # If check_interval is 0 or negative or larger than duration, we fall back
    # to checking once in the beginning and once at the end of duration
    if check_interval <= 0 or check_interval > duration:
        check_interval = duration
    time_end = time.time() + duration
    predicate_source = "''''\n" + inspect.getsource(f) + "'''"
    while True:
        if not f():
            raise AssertionError(f"Predicate {predicate_source} became false within {duration} seconds")
        if time.time() > time_end:
            return
        time.sleep(check_interval)


def wait_until_helper_internal(predicate, *, timeout=60, lock=None, timeout_factor=1.0, check_interval=0.05):
    """Sleep until the predicate resolves to be True.

    Warning: Note that this method is not recommended to be used in tests as it is
    not aware of the context of the test framework. Using the `wait_until()` members
    from `BitcoinTestFramework` or `P2PInterface` class ensures the timeout is
    properly scaled. Furthermore, `wait_until()` from `P2PInterface` class in
    `p2p.py` has a preset lock.
    """
    timeout = timeout * timeout_factor
    time_end = time.time() + timeout

    while time.time() < time_end:
        if lock:
            with lock:
                if predicate():
                    return
        else:
            if predicate():
                return
        time.sleep(check_interval)

    # Print the cause of the timeout
    predicate_source = "''''\n" + inspect.getsource(predicate) + "'''"
    logger.error("wait_until() failed. Predicate: {}".format(predicate_source))
    raise AssertionError("Predicate {} not true after {} seconds".format(predicate_source, timeout))


def bpf_cflags():
    return [
        "-Wno-error=implicit-function-declaration",
        "-Wno-duplicate-decl-specifier",  # https://github.com/bitcoin/bitcoin/issues/32322
    ]


def sha256sum_file(filename):
    h = hashlib.sha256()
    with open(filename, 'rb') as f:
        d = f.read(4096)
        while len(d) > 0:
            h.update(d)
            d = f.read(4096)
    return h.digest()


def util_xor(data, key, *, offset):
    data = bytearray(data)
    for i in range(len(data)):
        data[i] ^= key[(i + offset) % len(key)]
    return bytes(data)


# RPC/P2P connection constants and functions
############################################

# The maximum number of nodes a single test can spawn
MAX_NODES = 12
# Don't assign p2p, rpc or tor ports lower than this
PORT_MIN = int(os.getenv('TEST_RUNNER_PORT_MIN', default=11000))
# The number of ports to "reserve" for p2p, rpc and tor, each
PORT_RANGE = 5000


class PortSeed:
    # Must be initialized with a unique integer for each process
    n = None

def p2p_port(n):
    assert n <= MAX_NODES
    return PORT_MIN + n + (MAX_NODES * PortSeed.n) % (PORT_RANGE - 1 - MAX_NODES)


def rpc_port(n):
    return p2p_port(n) + PORT_RANGE


def tor_port(n):
    return p2p_port(n) + PORT_RANGE * 2


# Node functions
################


def initialize_datadir(dirname, n, chain, disable_autoconnect=True):
    datadir = get_datadir_path(dirname, n)
    if not os.path.isdir(datadir):
        os.makedirs(datadir)
    write_config(os.path.join(datadir, "bitcoin.conf"), n=n, chain=chain, disable_autoconnect=disable_autoconnect)
    os.makedirs(os.path.join(datadir, 'stderr'), exist_ok=True)
    os.makedirs(os.path.join(datadir, 'stdout'), exist_ok=True)
    return datadir


def write_config(config_path, *, n, chain, extra_config="", disable_autoconnect=True):
    # Translate chain subdirectory name to config name
    if chain == 'testnet3':
        chain_name_conf_arg = 'testnet'
        chain_name_conf_section = 'test'
    else:
        chain_name_conf_arg = chain
        chain_name_conf_section = chain
    with open(config_path, 'w') as f:
        if chain_name_conf_arg:
            f.write("{}=1\n".format(chain_name_conf_arg))
        if chain_name_conf_section:
            f.write("[{}]\n".format(chain_name_conf_section))
        f.write("port=" + str(p2p_port(n)) + "\n")
        f.write("rpcport=" + str(rpc_port(n)) + "\n")
        # Disable server-side timeouts to avoid intermittent issues
        f.write("rpcservertimeout=99000\n")
        f.write("rpcdoccheck=1\n")
        f.write("rpcthreads=2\n")
        f.write("fallbackfee=0.0002\n")
        f.write("server=1\n")
        f.write("keypool=1\n")
        f.write("discover=0\n")
        f.write("dnsseed=0\n")
        f.write("fixedseeds=0\n")
        f.write("listenonion=0\n")
        # Increase peertimeout to avoid disconnects while using mocktime.
        # peertimeout is measured in mock time, so setting it large enough to
        # cover any duration in mock time is sufficient. It can be overridden
        # in tests.
        f.write("peertimeout=999999999\n")
        f.write("printtoconsole=0\n")
        f.write("natpmp=0\n") # Avoid non-loopback network traffic during tests.
        f.write("shrinkdebugfile=0\n")
        # To improve SQLite wallet performance so that the tests don't timeout, use -unsafesqlitesync
        f.write("unsafesqlitesync=1\n")
        if disable_autoconnect:
            f.write("connect=0\n")
        # Limit max connections to mitigate test failures on some systems caused by the warning:
        # "Warning: Reducing -maxconnections from <...> to <...> due to system limitations".
        # The value is calculated as follows:
        #  available_fds = 256          // Same as FD_SETSIZE on NetBSD.
        #  MIN_CORE_FDS = 151           // Number of file descriptors required for core functionality.
        #  MAX_ADDNODE_CONNECTIONS = 8  // Maximum number of -addnode outgoing nodes.
        #  nBind == 3                   // Maximum number of bound interfaces used in a test.
        #
        #  min_required_fds = MIN_CORE_FDS + MAX_ADDNODE_CONNECTIONS + nBind = 151 + 8 + 3 = 162;
        #  nMaxConnections = available_fds - min_required_fds = 256 - 161 = 94;
        f.write("maxconnections=94\n")
        f.write("par=" + str(min(2, os.cpu_count())) + "\n")
        # Use a single prevoutfetch worker thread to keep per-node resource usage low.
        f.write("prevoutfetchthreads=1\n")
        f.write(extra_config)


def get_datadir_path(dirname, n):
    return pathlib.Path(dirname) / f"node{n}"


def get_temp_default_datadir(temp_dir: pathlib.Path) -> tuple[dict, pathlib.Path]:
    """Return os-specific environment variables that can be set to make the
    GetDefaultDataDir() function return a datadir path under the provided
    temp_dir, as well as the complete path it would return."""
    if platform.system() == "Windows":
        env = dict(APPDATA=str(temp_dir))
        datadir = temp_dir / "Bitcoin"
    else:
        env = dict(HOME=str(temp_dir))
        if platform.system() == "Darwin":
            datadir = temp_dir / "Library/Application Support/Bitcoin"
        else:
            datadir = temp_dir / ".bitcoin"
    return env, datadir


def append_config(datadir, options):
    with open(os.path.join(datadir, "bitcoin.conf"), 'a') as f:
        for option in options:
            f.write(option + "\n")


def get_auth_cookie(datadir, chain):
    user = None
    password = None
    if os.path.isfile(os.path.join(datadir, "bitcoin.conf")):
        with open(os.path.join(datadir, "bitcoin.conf"), 'r') as f:
            for line in f:
                if line.startswith("rpcuser="):
                    assert user is None  # Ensure that there is only one rpcuser line
                    user = line.split("=")[1].strip("\n")
                if line.startswith("rpcpassword="):
                    assert password is None  # Ensure that there is only one rpcpassword line
                    password = line.split("=")[1].strip("\n")
    try:
        with open(os.path.join(datadir, chain, ".cookie"), 'r') as f:
            userpass = f.read()
            split_userpass = userpass.split(':')
            user = split_userpass[0]
            password = split_userpass[1]
    except OSError:
        pass
    if user is None or password is None:
        raise ValueError("No RPC credentials")
    return user, password


# If a cookie file exists in the given datadir, delete it.
def delete_cookie_file(datadir, chain):
    if os.path.isfile(os.path.join(datadir, chain, ".cookie")):
        logger.debug("Deleting leftover cookie file")
        os.remove(os.path.join(datadir, chain, ".cookie"))


def softfork_active(node, key):
    """Return whether a softfork is active."""
    return node.getdeploymentinfo()['deployments'][key]['active']


def set_node_times(nodes, t):
    for node in nodes:
        node.setmocktime(t)


def check_node_connections(*, node, num_in, num_out):
    info = node.getnetworkinfo()
    assert_equal(info["connections_in"], num_in)
    assert_equal(info["connections_out"], num_out)


# Transaction/Block functions
#############################


# Create large OP_RETURN txouts that can be appended to a transaction
# to make it large (helper for constructing large transactions). The
# total serialized size of the txouts is about 66k vbytes.
def gen_return_txouts():
    from .messages import CTxOut
    from .script import CScript, OP_RETURN
    txouts = [CTxOut(nValue=0, scriptPubKey=CScript([OP_RETURN, b'\x01'*67437]))]
    assert_equal(sum([len(txout.serialize()) for txout in txouts]), 67456)
    return txouts


# Create a spend of each passed-in utxo, splicing in "txouts" to each raw
# transaction to make it large.  See gen_return_txouts() above.
def create_lots_of_big_transactions(mini_wallet, node, fee, tx_batch_size, txouts, utxos=None):
    txids = []
    use_internal_utxos = utxos is None
    for _ in range(tx_batch_size):
        tx = mini_wallet.create_self_transfer(
            utxo_to_spend=None if use_internal_utxos else utxos.pop(),
            fee=fee,
        )["tx"]
        tx.vout.extend(txouts)
        res = node.testmempoolaccept([tx.serialize().hex()])[0]
        assert_equal(res['fees']['base'], fee)
        txids.append(node.sendrawtransaction(tx.serialize().hex()))
    return txids


def mine_large_block(test_framework, mini_wallet, node):
    # generate a 66k transaction,
    # and 14 of them is close to the 1MB block limit
    txouts = gen_return_txouts()
    fee = 100 * node.getnetworkinfo()["relayfee"]
    create_lots_of_big_transactions(mini_wallet, node, fee, 14, txouts)
    test_framework.generate(node, 1)


def find_vout_for_address(node, txid, addr):
    """
    Locate the vout index of the given transaction sending to the
    given address. Raises runtime error exception if not found.
    """
    tx = node.getrawtransaction(txid, True)
    for i in range(len(tx["vout"])):
        if addr == tx["vout"][i]["scriptPubKey"]["address"]:
            return i
    raise RuntimeError("Vout not found for address: txid=%s, addr=%s" % (txid, addr))


def dumb_sync_blocks(*, src, dst, height=None):
    """Sync blocks between `src` and `dst` nodes via RPC submitblock up to height."""
    height = height or src.getblockcount()
    for i in range(dst.getblockcount() + 1, height + 1):
        block_hash = src.getblockhash(i)
        # Use boolean verbosity for v0.14.x compatibility.
        block = src.getblock(blockhash=block_hash, verbose=False)
        dst.submitblock(block)
    assert_equal(dst.getblockcount(), height)


def sync_txindex(test_framework, node):
    test_framework.log.debug("Waiting for node txindex to sync")
    sync_start = int(time.time())
    test_framework.wait_until(lambda: node.getindexinfo("txindex")["txindex"]["synced"])
    test_framework.log.debug(f"Synced in {time.time() - sync_start} seconds")

def wallet_importprivkey(wallet_rpc, privkey, timestamp, *, label=""):
    desc = descsum_create("combo(" + privkey + ")")
    req = [{
        "desc": desc,
        "timestamp": timestamp,
        "label": label,
    }]
    import_res = wallet_rpc.importdescriptors(req)
    assert_equal(import_res[0]["success"], True)

def is_dir_writable(dir_path: pathlib.Path) -> bool:
    """Return True if we can create a file in the directory, False otherwise"""
    try:
        tmp = dir_path / f".tmp_{random.randrange(1 << 32)}"
        tmp.touch()
        tmp.unlink()
        return True
    except OSError:
        return False

def bitflipper(input):
    assert isinstance(input, bytes)
    return (int.from_bytes(input, "little") ^ (1 << random.randrange(len(input) * 8))).to_bytes(len(input), "little")
