#!/usr/bin/env python3
# Copyright (c) 2022-present The Bitcoin Core developers
# Distributed under the MIT software license, see the accompanying
# file COPYING or http://www.opensource.org/licenses/mit-license.php.

import base64
import struct

from io import BytesIO

from .util import assert_equal
from .messages import (
    CTransaction,
    deser_string,
    deser_compact_size,
    from_binary,
    ser_compact_size,
)


# global types
PSBT_GLOBAL_UNSIGNED_TX = 0x00
PSBT_GLOBAL_XPUB = 0x01
PSBT_GLOBAL_TX_VERSION = 0x02
PSBT_GLOBAL_FALLBACK_LOCKTIME = 0x03
PSBT_GLOBAL_INPUT_COUNT = 0x04
PSBT_GLOBAL_OUTPUT_COUNT = 0x05
PSBT_GLOBAL_TX_MODIFIABLE = 0x06
PSBT_GLOBAL_VERSION = 0xfb
PSBT_GLOBAL_PROPRIETARY = 0xfc

# per-input types
PSBT_IN_NON_WITNESS_UTXO = 0x00
PSBT_IN_WITNESS_UTXO = 0x01
PSBT_IN_PARTIAL_SIG = 0x02
PSBT_IN_SIGHASH_TYPE = 0x03
PSBT_IN_REDEEM_SCRIPT = 0x04
PSBT_IN_WITNESS_SCRIPT = 0x05
PSBT_IN_BIP32_DERIVATION = 0x06
PSBT_IN_FINAL_SCRIPTSIG = 0x07
PSBT_IN_FINAL_SCRIPTWITNESS = 0x08
PSBT_IN_POR_COMMITMENT = 0x09
PSBT_IN_RIPEMD160 = 0x0a
PSBT_IN_SHA256 = 0x0b
PSBT_IN_HASH160 = 0x0c
PSBT_IN_HASH256 = 0x0d
PSBT_IN_PREVIOUS_TXID = 0x0e
PSBT_IN_OUTPUT_INDEX = 0x0f
PSBT_IN_SEQUENCE = 0x10
PSBT_IN_REQUIRED_TIME_LOCKTIME = 0x11
PSBT_IN_REQUIRED_HEIGHT_LOCKTIME = 0x12
PSBT_IN_TAP_KEY_SIG = 0x13
PSBT_IN_TAP_SCRIPT_SIG = 0x14
PSBT_IN_TAP_LEAF_SCRIPT = 0x15
PSBT_IN_TAP_BIP32_DERIVATION = 0x16
PSBT_IN_TAP_INTERNAL_KEY = 0x17
PSBT_IN_TAP_MERKLE_ROOT = 0x18
PSBT_IN_MUSIG2_PARTICIPANT_PUBKEYS = 0x1a
PSBT_IN_MUSIG2_PUB_NONCE = 0x1b
PSBT_IN_MUSIG2_PARTIAL_SIG = 0x1c
PSBT_IN_PROPRIETARY = 0xfc

# per-output types
PSBT_OUT_REDEEM_SCRIPT = 0x00
PSBT_OUT_WITNESS_SCRIPT = 0x01
PSBT_OUT_BIP32_DERIVATION = 0x02
PSBT_OUT_AMOUNT = 0x03
PSBT_OUT_SCRIPT = 0x04
PSBT_OUT_TAP_INTERNAL_KEY = 0x05
PSBT_OUT_TAP_TREE = 0x06
PSBT_OUT_TAP_BIP32_DERIVATION = 0x07
PSBT_OUT_MUSIG2_PARTICIPANT_PUBKEYS = 0x08
PSBT_OUT_PROPRIETARY = 0xfc


class PSBTMap:
    """Class for serializing and deserializing PSBT maps"""

    def __init__(self, map=None):
        self.map = map if map is not None else {}

    def deserialize(self, f):
        m = {}
        while True:
            k = deser_string(f)
            if len(k) == 0:
                break
            v = deser_string(f)
            if len(k) == 1:
                k = k[0]
            assert k not in m
            m[k] = v
        self.map = m

    def serialize(self):
        m = b""
        for k,v in self.map.items():
            if isinstance(k, int) and 0 <= k and k <= 255:
                k = bytes([k])
            if isinstance(v, list):
                assert all(type(elem) is bytes for elem in v)
                v = b"".join(v)  # simply concatenate the byte-strings w/o size prefixes
            m += ser_compact_size(len(k)) + k
            m += ser_compact_size(len(v)) + v
        m += b"\x00"
        return m

class PSBT:
    """Class for serializing and deserializing PSBTs"""

    def __init__(self, *, g=None, i=None, o=None):
        self.g = g if g is not None else PSBTMap()
        self.i = i if i is not None else []
        self.o = o if o is not None else []
        self.version = None

    def deserialize(self, f):
        assert_equal(f.read(5), b"psbt\xff")
        self.g = from_binary(PSBTMap, f)

        self.version = 0
        if PSBT_GLOBAL_VERSION in self.g.map:
            self.version = struct.unpack("<I", self.g.map[PSBT_GLOBAL_VERSION])[0]
            assert self.version in [0, 2]
        if self.version == 2:
            assert PSBT_GLOBAL_INPUT_COUNT in self.g.map
            assert PSBT_GLOBAL_OUTPUT_COUNT in self.g.map
            in_count = deser_compact_size(BytesIO(self.g.map[PSBT_GLOBAL_INPUT_COUNT]))
            out_count = deser_compact_size(BytesIO(self.g.map[PSBT_GLOBAL_OUTPUT_COUNT]))
        else:
            assert PSBT_GLOBAL_UNSIGNED_TX in self.g.map
            tx = from_binary(CTransaction, self.g.map[PSBT_GLOBAL_UNSIGNED_TX])
            in_count = len(tx.vin)
            out_count = len(tx.vout)

        self.i = [from_binary(PSBTMap, f) for _ in range(in_count)]
        self.o = [from_binary(PSBTMap, f) for _ in range(out_count)]
        return self

    def serialize(self):
        assert isinstance(self.g, PSBTMap)
        assert isinstance(self.i, list) and all(isinstance(x, PSBTMap) for x in self.i)
        assert isinstance(self.o, list) and all(isinstance(x, PSBTMap) for x in self.o)
        if self.version is not None and self.version == 2:
            self.g.map[PSBT_GLOBAL_INPUT_COUNT] = ser_compact_size(len(self.i))
            self.g.map[PSBT_GLOBAL_OUTPUT_COUNT] = ser_compact_size(len(self.o))
        if self.version is None or (self.version is not None and self.version == 0):
            assert PSBT_GLOBAL_UNSIGNED_TX in self.g.map
            tx = from_binary(CTransaction, self.g.map[PSBT_GLOBAL_UNSIGNED_TX])
            assert_equal(len(tx.vin), len(self.i))
            assert_equal(len(tx.vout), len(self.o))

        psbt = [x.serialize() for x in [self.g] + self.i + self.o]
        return b"psbt\xff" + b"".join(psbt)

    def make_blank(self):
        """
        Remove all fields except for required fields depending on version
        """
        if self.version == 0:
            for m in self.i + self.o:
                m.map.clear()

            self.g = PSBTMap(map={PSBT_GLOBAL_UNSIGNED_TX: self.g.map[PSBT_GLOBAL_UNSIGNED_TX]})
        elif self.version == 2:
            self.g = PSBTMap(map={
                PSBT_GLOBAL_TX_VERSION: self.g.map[PSBT_GLOBAL_TX_VERSION],
                PSBT_GLOBAL_INPUT_COUNT: self.g.map[PSBT_GLOBAL_INPUT_COUNT],
                PSBT_GLOBAL_OUTPUT_COUNT: self.g.map[PSBT_GLOBAL_OUTPUT_COUNT],
                PSBT_GLOBAL_VERSION: self.g.map[PSBT_GLOBAL_VERSION],
                PSBT_GLOBAL_FALLBACK_LOCKTIME: self.g.map[PSBT_GLOBAL_FALLBACK_LOCKTIME],
            })

            new_i = []
            for m in self.i:
                new_i.append(PSBTMap(map={
                    PSBT_IN_PREVIOUS_TXID: m.map[PSBT_IN_PREVIOUS_TXID],
                    PSBT_IN_OUTPUT_INDEX: m.map[PSBT_IN_OUTPUT_INDEX],
                }))
            self.i = new_i

            new_o = []
            for m in self.o:
                new_o.append(PSBTMap(map={
                    PSBT_OUT_SCRIPT: m.map[PSBT_OUT_SCRIPT],
                    PSBT_OUT_AMOUNT: m.map[PSBT_OUT_AMOUNT],
                }))
            self.o = new_o
        else:
            assert False

    def to_base64(self):
        return base64.b64encode(self.serialize()).decode("utf8")

    @classmethod
    def from_base64(cls, b64psbt):
        return from_binary(cls, base64.b64decode(b64psbt))
