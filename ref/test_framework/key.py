# Copyright (c) 2019-2020 Pieter Wuille
# Distributed under the MIT software license, see the accompanying
# file COPYING or http://www.opensource.org/licenses/mit-license.php.
"""Test-only secp256k1 elliptic curve protocols implementation

WARNING: This code is slow, uses bad randomness, does not properly protect
keys, and is trivially vulnerable to side channel attacks. Do not use for
anything but tests."""
import csv
import hashlib
import hmac
import os
import random
import unittest

from test_framework.crypto import secp256k1
from test_framework.util import assert_equal, assert_not_equal, random_bitflip

# Point with no known discrete log.
H_POINT = "50929b74c1a04954b78b4b6035e97a5e078a5a0f28ec96d547bfee9ace803ac0"

# Order of the secp256k1 curve
ORDER = secp256k1.GE.ORDER

def TaggedHash(tag, data):
    ss = hashlib.sha256(tag.encode('utf-8')).digest()
    ss += ss
    ss += data
    return hashlib.sha256(ss).digest()


class ECPubKey:
    """A secp256k1 public key"""

    def __init__(self):
        """Construct an uninitialized public key"""
        self.p = None

    def set(self, data):
        """Construct a public key from a serialization in compressed or uncompressed format"""
        self.p = secp256k1.GE.from_bytes(data)
        self.compressed = len(data) == 33

    @property
    def is_compressed(self):
        return self.compressed

    @property
    def is_valid(self):
        return self.p is not None

    def get_bytes(self):
        assert self.is_valid
        if self.compressed:
            return self.p.to_bytes_compressed()
        else:
            return self.p.to_bytes_uncompressed()

    def verify_ecdsa(self, sig, msg, low_s=True):
        """Verify a strictly DER-encoded ECDSA signature against this pubkey.

        See https://en.wikipedia.org/wiki/Elliptic_Curve_Digital_Signature_Algorithm for the
        ECDSA verifier algorithm"""
        assert self.is_valid

        # Extract r and s from the DER formatted signature. Return false for
        # any DER encoding errors.
        if (sig[1] + 2 != len(sig)):
            return False
        if (len(sig) < 4):
            return False
        if (sig[0] != 0x30):
            return False
        if (sig[2] != 0x02):
            return False
        rlen = sig[3]
        if (len(sig) < 6 + rlen):
            return False
        if rlen < 1 or rlen > 33:
            return False
        if sig[4] >= 0x80:
            return False
        if (rlen > 1 and (sig[4] == 0) and not (sig[5] & 0x80)):
            return False
        r = int.from_bytes(sig[4:4+rlen], 'big')
        if (sig[4+rlen] != 0x02):
            return False
        slen = sig[5+rlen]
        if slen < 1 or slen > 33:
            return False
        if (len(sig) != 6 + rlen + slen):
            return False
        if sig[6+rlen] >= 0x80:
            return False
        if (slen > 1 and (sig[6+rlen] == 0) and not (sig[7+rlen] & 0x80)):
            return False
        s = int.from_bytes(sig[6+rlen:6+rlen+slen], 'big')

        # Verify that r and s are within the group order
        if r < 1 or s < 1 or r >= ORDER or s >= ORDER:
            return False
        if low_s and s >= secp256k1.GE.ORDER_HALF:
            return False
        z = int.from_bytes(msg, 'big')

        # Run verifier algorithm on r, s
        w = pow(s, -1, ORDER)
        R = secp256k1.GE.mul((z * w, secp256k1.G), (r * w, self.p))
        if R.infinity or (int(R.x) % ORDER) != r:
            return False
        return True

def generate_privkey():
    """Generate a valid random 32-byte private key."""
    return random.randrange(1, ORDER).to_bytes(32, 'big')

def rfc6979_nonce(key):
    """Compute signing nonce using RFC6979."""
    v = bytes([1] * 32)
    k = bytes([0] * 32)
    k = hmac.new(k, v + b"\x00" + key, 'sha256').digest()
    v = hmac.new(k, v, 'sha256').digest()
    k = hmac.new(k, v + b"\x01" + key, 'sha256').digest()
    v = hmac.new(k, v, 'sha256').digest()
    return hmac.new(k, v, 'sha256').digest()

class ECKey:
    """A secp256k1 private key"""

    def __init__(self):
        self.valid = False

    def set(self, secret, compressed):
        """Construct a private key object with given 32-byte secret and compressed flag."""
        assert_equal(len(secret), 32)
        secret = int.from_bytes(secret, 'big')
        self.valid = (secret > 0 and secret < ORDER)
        if self.valid:
            self.secret = secret
            self.compressed = compressed

    def generate(self, compressed=True):
        """Generate a random private key (compressed or uncompressed)."""
        self.set(generate_privkey(), compressed)

    def get_bytes(self):
        """Retrieve the 32-byte representation of this key."""
        assert self.valid
        return self.secret.to_bytes(32, 'big')

    @property
    def is_valid(self):
        return self.valid

    @property
    def is_compressed(self):
        return self.compressed

    def get_pubkey(self):
        """Compute an ECPubKey object for this secret key."""
        assert self.valid
        ret = ECPubKey()
        ret.p = self.secret * secp256k1.G
        ret.compressed = self.compressed
        return ret

    def sign_ecdsa(self, msg, low_s=True, rfc6979=False):
        """Construct a DER-encoded ECDSA signature with this key.

        See https://en.wikipedia.org/wiki/Elliptic_Curve_Digital_Signature_Algorithm for the
        ECDSA signer algorithm."""
        assert self.valid
        z = int.from_bytes(msg, 'big')
        # Note: no RFC6979 by default, but a simple random nonce (some tests rely on distinct transactions for the same operation)
        if rfc6979:
            k = int.from_bytes(rfc6979_nonce(self.secret.to_bytes(32, 'big') + msg), 'big')
        else:
            k = random.randrange(1, ORDER)
        R = k * secp256k1.G
        r = int(R.x) % ORDER
        s = (pow(k, -1, ORDER) * (z + self.secret * r)) % ORDER
        if low_s and s > secp256k1.GE.ORDER_HALF:
            s = ORDER - s
        # Represent in DER format. The byte representations of r and s have
        # length rounded up (255 bits becomes 32 bytes and 256 bits becomes 33
        # bytes).
        rb = r.to_bytes((r.bit_length() + 8) // 8, 'big')
        sb = s.to_bytes((s.bit_length() + 8) // 8, 'big')
        return b'\x30' + bytes([4 + len(rb) + len(sb), 2, len(rb)]) + rb + bytes([2, len(sb)]) + sb

def compute_xonly_pubkey(key):
    """Compute an x-only (32 byte) public key from a (32 byte) private key.

    This also returns whether the resulting public key was negated.
    """

    assert_equal(len(key), 32)
    x = int.from_bytes(key, 'big')
    if x == 0 or x >= ORDER:
        return (None, None)
    P = x * secp256k1.G
    return (P.to_bytes_xonly(), not P.y.is_even())

def tweak_add_privkey(key, tweak):
    """Tweak a private key (after negating it if needed)."""

    assert_equal(len(key), 32)
    assert_equal(len(tweak), 32)

    x = int.from_bytes(key, 'big')
    if x == 0 or x >= ORDER:
        return None
    if not (x * secp256k1.G).y.is_even():
       x = ORDER - x
    t = int.from_bytes(tweak, 'big')
    if t >= ORDER:
        return None
    x = (x + t) % ORDER
    if x == 0:
        return None
    return x.to_bytes(32, 'big')

def tweak_add_pubkey(key, tweak):
    """Tweak a public key and return whether the result had to be negated."""

    assert_equal(len(key), 32)
    assert_equal(len(tweak), 32)

    P = secp256k1.GE.from_bytes_xonly(key)
    if P is None:
        return None
    t = int.from_bytes(tweak, 'big')
    if t >= ORDER:
        return None
    Q = t * secp256k1.G + P
    if Q.infinity:
        return None
    return (Q.to_bytes_xonly(), not Q.y.is_even())

def verify_schnorr(key, sig, msg):
    """Verify a Schnorr signature (see BIP 340).

    - key is a 32-byte xonly pubkey (computed using compute_xonly_pubkey).
    - sig is a 64-byte Schnorr signature
    - msg is a variable-length message
    """
    assert_equal(len(key), 32)
    assert_equal(len(sig), 64)

    P = secp256k1.GE.from_bytes_xonly(key)
    if P is None:
        return False
    r = int.from_bytes(sig[0:32], 'big')
    if r >= secp256k1.FE.SIZE:
        return False
    s = int.from_bytes(sig[32:64], 'big')
    if s >= ORDER:
        return False
    e = int.from_bytes(TaggedHash("BIP0340/challenge", sig[0:32] + key + msg), 'big') % ORDER
    R = secp256k1.GE.mul((s, secp256k1.G), (-e, P))
    if R.infinity or not R.y.is_even():
        return False
    if r != R.x:
        return False
    return True

def sign_schnorr(key, msg, aux=None, flip_p=False, flip_r=False):
    """Create a Schnorr signature (see BIP 340)."""

    if aux is None:
        aux = bytes(32)

    assert_equal(len(key), 32)
    assert_equal(len(aux), 32)

    sec = int.from_bytes(key, 'big')
    if sec == 0 or sec >= ORDER:
        return None
    P = sec * secp256k1.G
    if P.y.is_even() == flip_p:
        sec = ORDER - sec
    t = (sec ^ int.from_bytes(TaggedHash("BIP0340/aux", aux), 'big')).to_bytes(32, 'big')
    kp = int.from_bytes(TaggedHash("BIP0340/nonce", t + P.to_bytes_xonly() + msg), 'big') % ORDER
    assert_not_equal(kp, 0)
    R = kp * secp256k1.G
    k = kp if R.y.is_even() != flip_r else ORDER - kp
    e = int.from_bytes(TaggedHash("BIP0340/challenge", R.to_bytes_xonly() + P.to_bytes_xonly() + msg), 'big') % ORDER
    return R.to_bytes_xonly() + ((k + e * sec) % ORDER).to_bytes(32, 'big')


class TestFrameworkKey(unittest.TestCase):
    def test_ecdsa_and_schnorr(self):
        """Test the Python ECDSA and Schnorr implementations."""
        byte_arrays = [generate_privkey() for _ in range(3)] + [v.to_bytes(32, 'big') for v in [0, ORDER - 1, ORDER, 2**256 - 1]]
        keys = {}
        for privkey_bytes in byte_arrays:  # build array of key/pubkey pairs
            privkey = ECKey()
            privkey.set(privkey_bytes, compressed=True)
            if privkey.is_valid:
                keys[privkey] = privkey.get_pubkey()
        for msg in byte_arrays:  # test every combination of message, signing key, verification key
            for sign_privkey, _ in keys.items():
                sig_ecdsa = sign_privkey.sign_ecdsa(msg)
                sig_schnorr = sign_schnorr(sign_privkey.get_bytes(), msg)
                for verify_privkey, verify_pubkey in keys.items():
                    verify_xonly_pubkey = verify_pubkey.get_bytes()[1:]
                    if verify_privkey == sign_privkey:
                        self.assertTrue(verify_pubkey.verify_ecdsa(sig_ecdsa, msg))
                        self.assertTrue(verify_schnorr(verify_xonly_pubkey, sig_schnorr, msg))
                        sig_ecdsa = random_bitflip(sig_ecdsa)  # damaging signature should break things
                        sig_schnorr = random_bitflip(sig_schnorr)
                    self.assertFalse(verify_pubkey.verify_ecdsa(sig_ecdsa, msg))
                    self.assertFalse(verify_schnorr(verify_xonly_pubkey, sig_schnorr, msg))

    def test_schnorr_testvectors(self):
        """Implement the BIP340 test vectors (read from bip340_test_vectors.csv)."""
        num_tests = 0
        vectors_file = os.path.join(os.path.dirname(os.path.realpath(__file__)), 'bip340_test_vectors.csv')
        with open(vectors_file, newline='') as csvfile:
            reader = csv.reader(csvfile)
            next(reader)
            for row in reader:
                (i_str, seckey_hex, pubkey_hex, aux_rand_hex, msg_hex, sig_hex, result_str, comment) = row
                i = int(i_str)
                pubkey = bytes.fromhex(pubkey_hex)
                msg = bytes.fromhex(msg_hex)
                sig = bytes.fromhex(sig_hex)
                result = result_str == 'TRUE'
                if seckey_hex != '':
                    seckey = bytes.fromhex(seckey_hex)
                    pubkey_actual = compute_xonly_pubkey(seckey)[0]
                    self.assertEqual(pubkey.hex(), pubkey_actual.hex(), "BIP340 test vector %i (%s): pubkey mismatch" % (i, comment))
                    aux_rand = bytes.fromhex(aux_rand_hex)
                    try:
                        sig_actual = sign_schnorr(seckey, msg, aux_rand)
                        self.assertEqual(sig.hex(), sig_actual.hex(), "BIP340 test vector %i (%s): sig mismatch" % (i, comment))
                    except RuntimeError as e:
                        self.fail("BIP340 test vector %i (%s): signing raised exception %s" % (i, comment, e))
                result_actual = verify_schnorr(pubkey, sig, msg)
                if result:
                    self.assertEqual(result, result_actual, "BIP340 test vector %i (%s): verification failed" % (i, comment))
                else:
                    self.assertEqual(result, result_actual, "BIP340 test vector %i (%s): verification succeeded unexpectedly" % (i, comment))
                num_tests += 1
        self.assertTrue(num_tests >= 15) # expect at least 15 test vectors
