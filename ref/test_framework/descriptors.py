#!/usr/bin/env python3
# Copyright (c) 2019 Pieter Wuille
# Distributed under the MIT software license, see the accompanying
# file COPYING or http://www.opensource.org/licenses/mit-license.php.
"""Utility functions related to output descriptors"""

import re

INPUT_CHARSET = "0123456789()[],'/*abcdefgh@:$%{}IJKLMNOPQRSTUVWXYZ&+-.;<=>?!^_|~ijklmnopqrstuvwxyzABCDEFGH`#\"\\ "
CHECKSUM_CHARSET = "qpzry9x8gf2tvdw0s3jn54khce6mua7l"
GENERATOR = [0xf5dee51989, 0xa9fdca3312, 0x1bab10e32d, 0x3706b1677a, 0x644d626ffd]

def descsum_polymod(symbols):
    """Internal function that computes the descriptor checksum."""
    chk = 1
    for value in symbols:
        top = chk >> 35
        chk = (chk & 0x7ffffffff) << 5 ^ value
        for i in range(5):
            chk ^= GENERATOR[i] if ((top >> i) & 1) else 0
    return chk

def descsum_expand(s):
    """Internal function that does the character to symbol expansion"""
    groups = []
    symbols = []
    for c in s:
        if c not in INPUT_CHARSET:
            return None
        v = INPUT_CHARSET.find(c)
        symbols.append(v & 31)
        groups.append(v >> 5)
        if len(groups) == 3:
            symbols.append(groups[0] * 9 + groups[1] * 3 + groups[2])
            groups = []
    if len(groups) == 1:
        symbols.append(groups[0])
    elif len(groups) == 2:
        symbols.append(groups[0] * 3 + groups[1])
    return symbols

def descsum_create(s):
    """Add a checksum to a descriptor without"""
    symbols = descsum_expand(s) + [0, 0, 0, 0, 0, 0, 0, 0]
    checksum = descsum_polymod(symbols) ^ 1
    return s + '#' + ''.join(CHECKSUM_CHARSET[(checksum >> (5 * (7 - i))) & 31] for i in range(8))

def descsum_check(s, require=True):
    """Verify that the checksum is correct in a descriptor"""
    if '#' not in s:
        return not require
    if s[-9] != '#':
        return False
    if not all(x in CHECKSUM_CHARSET for x in s[-8:]):
        return False
    symbols = descsum_expand(s[:-9]) + [CHECKSUM_CHARSET.find(x) for x in s[-8:]]
    return descsum_polymod(symbols) == 1

def drop_origins(s):
    '''Drop the key origins from a descriptor'''
    desc = re.sub(r'\[.+?\]', '', s)
    if '#' in s:
        desc = desc[:desc.index('#')]
    return descsum_create(desc)
