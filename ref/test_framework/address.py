#!/usr/bin/env python3
# Copyright (c) 2016-present The Bitcoin Core developers
# Distributed under the MIT software license, see the accompanying
# file COPYING or http://www.opensource.org/licenses/mit-license.php.
"""Encode and decode Bitcoin addresses.

- base58 P2PKH and P2SH addresses.
- bech32 segwit v0 P2WPKH and P2WSH addresses.
- bech32m segwit v1 P2TR addresses."""

import unittest

from .script import (
    CScript,
    OP_0,
    OP_TRUE,
    hash160,
    hash256,
    sha256,
    taproot_construct,
)
from .util import assert_equal
from test_framework.script_util import (
    keyhash_to_p2pkh_script,
    program_to_witness_script,
    scripthash_to_p2sh_script,
)
from test_framework.segwit_addr import (
    decode_segwit_address,
    encode_segwit_address,
)


ADDRESS_BCRT1_UNSPENDABLE = 'bcrt1qqqqqqqqqqqqqqqqqqqqqqqqqqqqqqqqqqqqqqqqqqqqqqqqqqqqq3xueyj'
ADDRESS_BCRT1_UNSPENDABLE_DESCRIPTOR = 'addr(bcrt1qqqqqqqqqqqqqqqqqqqqqqqqqqqqqqqqqqqqqqqqqqqqqqqqqqqqq3xueyj)#juyq9d97'
# Coins sent to this address can be spent with a witness stack of just OP_TRUE
ADDRESS_BCRT1_P2WSH_OP_TRUE = 'bcrt1qft5p2uhsdcdc3l2ua4ap5qqfg4pjaqlp250x7us7a8qqhrxrxfsqseac85'

b58chars = '123456789ABCDEFGHJKLMNPQRSTUVWXYZabcdefghijkmnopqrstuvwxyz'


def create_deterministic_address_bcrt1_p2tr_op_true(explicit_internal_key=None):
    """
    Generates a deterministic bech32m address (segwit v1 output) that
    can be spent with a witness stack of OP_TRUE and the control block
    with internal public key (script-path spending).

    Returns a tuple with the generated address and the TaprootInfo object.
    """
    internal_key = explicit_internal_key or (1).to_bytes(32, 'big')
    taproot_info = taproot_construct(internal_key, [("only-path", CScript([OP_TRUE]))])
    address = output_key_to_p2tr(taproot_info.output_pubkey)
    if explicit_internal_key is None:
        assert_equal(address, 'bcrt1p9yfmy5h72durp7zrhlw9lf7jpwjgvwdg0jr0lqmmjtgg83266lqsekaqka')
    return (address, taproot_info)


def byte_to_base58(b, version):
    if isinstance(version, int):
        version = bytes([version])
    b = version + b # prepend version
    b += hash256(b)[:4]       # append checksum
    value = int.from_bytes(b, 'big')
    result = ''
    while value > 0:
        result = b58chars[value % 58] + result
        value //= 58
    while b[0] == 0:
        result = b58chars[0] + result
        b = b[1:]
    return result


def base58_to_byte(s):
    """Converts a base58-encoded string to its data and version.

    Throws if the base58 checksum is invalid."""
    if not s:
        return b''
    n = 0
    for c in s:
        n *= 58
        assert c in b58chars
        digit = b58chars.index(c)
        n += digit
    h = '%x' % n
    if len(h) % 2:
        h = '0' + h
    res = n.to_bytes((n.bit_length() + 7) // 8, 'big')
    pad = 0
    for c in s:
        if c == b58chars[0]:
            pad += 1
        else:
            break
    res = b'\x00' * pad + res

    if hash256(res[:-4])[:4] != res[-4:]:
        raise ValueError('Invalid Base58Check checksum')

    return res[1:-4], int(res[0])


def keyhash_to_p2pkh(hash, main=False):
    assert_equal(len(hash), 20)
    version = 0 if main else 111
    return byte_to_base58(hash, version)

def scripthash_to_p2sh(hash, main=False):
    assert_equal(len(hash), 20)
    version = 5 if main else 196
    return byte_to_base58(hash, version)

def key_to_p2pkh(key, main=False):
    key = check_key(key)
    return keyhash_to_p2pkh(hash160(key), main)

def script_to_p2sh(script, main=False):
    script = check_script(script)
    return scripthash_to_p2sh(hash160(script), main)

def key_to_p2sh_p2wpkh(key, main=False):
    key = check_key(key)
    p2shscript = CScript([OP_0, hash160(key)])
    return script_to_p2sh(p2shscript, main)

def program_to_witness(version, program, main=False):
    if (type(program) is str):
        program = bytes.fromhex(program)
    assert 0 <= version <= 16
    assert 2 <= len(program) <= 40
    assert version > 0 or len(program) in [20, 32]
    return encode_segwit_address("bc" if main else "bcrt", version, program)

def script_to_p2wsh(script, main=False):
    script = check_script(script)
    return program_to_witness(0, sha256(script), main)

def key_to_p2wpkh(key, main=False):
    key = check_key(key)
    return program_to_witness(0, hash160(key), main)

def script_to_p2sh_p2wsh(script, main=False):
    script = check_script(script)
    p2shscript = CScript([OP_0, sha256(script)])
    return script_to_p2sh(p2shscript, main)

def output_key_to_p2tr(key, main=False):
    assert_equal(len(key), 32)
    return program_to_witness(1, key, main)

def p2a(main=False):
    return program_to_witness(1, "4e73", main)

def check_key(key):
    if (type(key) is str):
        key = bytes.fromhex(key)  # Assuming this is hex string
    if (type(key) is bytes and (len(key) == 33 or len(key) == 65)):
        return key
    assert False

def check_script(script):
    if (type(script) is str):
        script = bytes.fromhex(script)  # Assuming this is hex string
    if (type(script) is bytes or type(script) is CScript):
        return script
    assert False


def bech32_to_bytes(address):
    hrp = address.split('1')[0]
    if hrp not in ['bc', 'tb', 'bcrt']:
        return (None, None)
    version, payload = decode_segwit_address(hrp, address)
    if version is None:
        return (None, None)
    return version, bytearray(payload)


def address_to_scriptpubkey(address):
    """Converts a given address to the corresponding output script (scriptPubKey)."""
    version, payload = bech32_to_bytes(address)
    if version is not None:
        return program_to_witness_script(version, payload) # testnet segwit scriptpubkey
    payload, version = base58_to_byte(address)
    if version == 111:  # testnet pubkey hash
        return keyhash_to_p2pkh_script(payload)
    elif version == 196:  # testnet script hash
        return scripthash_to_p2sh_script(payload)
    raise ValueError(f"Unsupported address type: {address}")


class TestFrameworkScript(unittest.TestCase):
    def test_base58encodedecode(self):
        def check_base58(data, version):
            self.assertEqual(base58_to_byte(byte_to_base58(data, version)), (data, version))

        check_base58(bytes.fromhex('1f8ea1702a7bd4941bca0941b852c4bbfedb2e05'), 111)
        check_base58(bytes.fromhex('3a0b05f4d7f66c3ba7009f453530296c845cc9cf'), 111)
        check_base58(bytes.fromhex('41c1eaf111802559bad61b60d62b1f897c63928a'), 111)
        check_base58(bytes.fromhex('0041c1eaf111802559bad61b60d62b1f897c63928a'), 111)
        check_base58(bytes.fromhex('000041c1eaf111802559bad61b60d62b1f897c63928a'), 111)
        check_base58(bytes.fromhex('00000041c1eaf111802559bad61b60d62b1f897c63928a'), 111)
        check_base58(bytes.fromhex('1f8ea1702a7bd4941bca0941b852c4bbfedb2e05'), 0)
        check_base58(bytes.fromhex('3a0b05f4d7f66c3ba7009f453530296c845cc9cf'), 0)
        check_base58(bytes.fromhex('41c1eaf111802559bad61b60d62b1f897c63928a'), 0)
        check_base58(bytes.fromhex('0041c1eaf111802559bad61b60d62b1f897c63928a'), 0)
        check_base58(bytes.fromhex('000041c1eaf111802559bad61b60d62b1f897c63928a'), 0)
        check_base58(bytes.fromhex('00000041c1eaf111802559bad61b60d62b1f897c63928a'), 0)


    def test_bech32_decode(self):
        def check_bech32_decode(payload, version):
            hrp = "tb"
            self.assertEqual(bech32_to_bytes(encode_segwit_address(hrp, version, payload)), (version, payload))

        check_bech32_decode(bytes.fromhex('36e3e2a33f328de12e4b43c515a75fba2632ecc3'), 0)
        check_bech32_decode(bytes.fromhex('823e9790fc1d1782321140d4f4aa61aabd5e045b'), 0)
        check_bech32_decode(bytes.fromhex('79be667ef9dcbbac55a06295ce870b07029bfcdb2dce28d959f2815b16f81798'), 1)
        check_bech32_decode(bytes.fromhex('39cf8ebd95134f431c39db0220770bd127f5dd3cc103c988b7dcd577ae34e354'), 1)
        check_bech32_decode(bytes.fromhex('708244006d27c757f6f1fc6f853b6ec26268b727866f7ce632886e34eb5839a3'), 1)
        check_bech32_decode(bytes.fromhex('616211ab00dffe0adcb6ce258d6d3fd8cbd901e2'), 0)
        check_bech32_decode(bytes.fromhex('b6a7c98b482d7fb21c9fa8e65692a0890410ff22'), 0)
        check_bech32_decode(bytes.fromhex('f0c2109cb1008cfa7b5a09cc56f7267cd8e50929'), 0)
