#!/usr/bin/env python3
# Copyright (c) 2014-present The Bitcoin Core developers
# Distributed under the MIT software license, see the accompanying
# file COPYING or http://www.opensource.org/licenses/mit-license.php.
"""Base class for RPC testing."""

import configparser
from enum import Enum
import argparse
from datetime import datetime, timezone
from importlib.util import find_spec
import logging
import os
from pathlib import Path
import platform
import pdb
import random
import re
import shutil
import subprocess
import sys
import tempfile
import time

from .address import create_deterministic_address_bcrt1_p2tr_op_true
from . import coverage
from .messages import CAddress
from .p2p import NetworkThread
from .test_node import TestNode
from .util import (
    Binaries,
    MAX_NODES,
    PortSeed,
    assert_equal,
    check_json_precision,
    export_env_build_path,
    find_vout_for_address,
    get_binary_paths,
    get_datadir_path,
    initialize_datadir,
    p2p_port,
    wait_until_helper_internal,
    wallet_importprivkey,
    JSONRPCException,
)


class TestStatus(Enum):
    PASSED = 1
    FAILED = 2
    SKIPPED = 3

TEST_EXIT_PASSED = 0
TEST_EXIT_FAILED = 1
TEST_EXIT_SKIPPED = 77

TMPDIR_PREFIX = "bitcoin_func_test_"


class SkipTest(Exception):
    """This exception is raised to skip a test"""

    def __init__(self, message):
        self.message = message


class BitcoinTestMetaClass(type):
    """Metaclass for BitcoinTestFramework.

    Ensures that any attempt to register a subclass of `BitcoinTestFramework`
    adheres to a standard whereby the subclass overrides `set_test_params` and
    `run_test` but DOES NOT override either `__init__` or `main`. If any of
    those standards are violated, a ``TypeError`` is raised."""

    def __new__(cls, clsname, bases, dct):
        if not clsname == 'BitcoinTestFramework':
            if not ('run_test' in dct and 'set_test_params' in dct):
                raise TypeError("BitcoinTestFramework subclasses must override "
                                "'run_test' and 'set_test_params'")
            if '__init__' in dct or 'main' in dct:
                raise TypeError("BitcoinTestFramework subclasses may not override "
                                "'__init__' or 'main'")

        return super().__new__(cls, clsname, bases, dct)


class BitcoinTestFramework(metaclass=BitcoinTestMetaClass):
    """Base class for a bitcoin test script.

    Individual bitcoin test scripts should subclass this class and override the set_test_params() and run_test() methods.

    Individual tests can also override the following methods to customize the test setup:

    - add_options()
    - setup_chain()
    - setup_network()
    - setup_nodes()

    The __init__() and main() methods should not be overridden.

    This class also contains various public and private helper methods."""

    def __init__(self, test_file) -> None:
        """Sets test framework defaults. Do not override this method. Instead, override the set_test_params() method"""
        self.chain: str = 'regtest'
        self.setup_clean_chain: bool = False
        self.noban_tx_relay: bool = False
        self.nodes: list[TestNode] = []
        self.extra_args = None
        self.extra_init = None
        self.network_thread = None
        self.rpc_timeout = 60  # Wait for up to 60 seconds for the RPC server to respond
        self.supports_cli = True
        self.bind_to_localhost_only = True
        self.parse_args(test_file)
        self.default_wallet_name = "default_wallet"
        self.wallet_data_filename = "wallet.dat"
        # Optional list of wallet names that can be set in set_test_params to
        # create and import keys to. If unset, default is len(nodes) *
        # [default_wallet_name]. If wallet names are None, wallet creation is
        # skipped. If list is truncated, wallet creation is skipped and keys
        # are not imported.
        self.wallet_names = None
        # By default the wallet is not required. Set to true by skip_if_no_wallet().
        # Can also be set to None to indicate that the wallet will be used if available.
        # When False or None, we ignore wallet_names in setup_nodes().
        self.uses_wallet = False
        # Disable ThreadOpenConnections by default, so that adding entries to
        # addrman will not result in automatic connections to them.
        self.disable_autoconnect = True
        self.set_test_params()
        assert self.wallet_names is None or len(self.wallet_names) <= self.num_nodes
        self.rpc_timeout = int(self.rpc_timeout * self.options.timeout_factor) # optionally, increase timeout by a factor

    def main(self):
        """Main function. This should not be overridden by the subclass test scripts."""

        assert hasattr(self, "num_nodes"), "Test must set self.num_nodes in set_test_params()"

        try:
            self.setup()
            if self.options.test_methods:
                self.run_test_methods()
            else:
                self.run_test()

        except SkipTest as e:
            self.log.warning("Test Skipped: %s" % e.message)
            self.success = TestStatus.SKIPPED
        except subprocess.CalledProcessError as e:
            self.log.exception(f"Called Process failed with stdout='{e.stdout}'; stderr='{e.stderr}';")
            self.success = TestStatus.FAILED
        except BaseException:
            # The `exception` log will add the exception info to the message.
            # https://docs.python.org/3/library/logging.html#logging.exception
            self.log.exception("Unexpected exception:")
            self.success = TestStatus.FAILED
        finally:
            exit_code = self.shutdown()
            sys.exit(exit_code)

    def run_test_methods(self):
        for method_name in self.options.test_methods:
            self.log.info(f"Attempting to execute method: {method_name}")
            method = getattr(self, method_name)
            method()
            self.log.info(f"Method '{method_name}' executed successfully.")

    def parse_args(self, test_file):
        previous_releases_path = os.getenv("PREVIOUS_RELEASES_DIR") or os.getcwd() + "/releases"
        parser = argparse.ArgumentParser(usage="%(prog)s [options]")
        parser.add_argument("--nocleanup", dest="nocleanup", default=False, action="store_true",
                            help="Leave bitcoinds and test.* datadir on exit or error")
        parser.add_argument("--cachedir", dest="cachedir", default=os.path.abspath(os.path.dirname(test_file) + "/../cache"),
                            help="Directory for caching pregenerated datadirs (default: %(default)s)")
        parser.add_argument("--tmpdir", dest="tmpdir", help="Root directory for datadirs (must not exist)")
        parser.add_argument("-l", "--loglevel", dest="loglevel", default="INFO",
                            help="log events at this level and higher to the console. Can be set to DEBUG, INFO, WARNING, ERROR or CRITICAL. Passing --loglevel DEBUG will output all logs to console. Note that logs at all levels are always written to the test_framework.log file in the temporary test directory.")
        parser.add_argument("--tracerpc", dest="trace_rpc", default=False, action="store_true",
                            help="Print out all RPC calls as they are made")
        parser.add_argument("--portseed", dest="port_seed", default=os.getpid(), type=int,
                            help="The seed to use for assigning port numbers (default: current process id)")
        parser.add_argument("--previous-releases", dest="prev_releases", action="store_true",
                            default=os.path.isdir(previous_releases_path) and bool(os.listdir(previous_releases_path)),
                            help="Force test of previous releases (default: %(default)s). Previous releases binaries can be downloaded via `test/get_previous_releases.py`.")
        parser.add_argument("--coveragedir", dest="coveragedir",
                            help="Write tested RPC commands into this directory")
        parser.add_argument("--configfile", dest="configfile",
                            default=os.path.abspath(os.path.dirname(test_file) + "/../config.ini"),
                            help="Location of the test framework config file (default: %(default)s)")
        parser.add_argument("--pdbonfailure", dest="pdbonfailure", default=False, action="store_true",
                            help="Attach a python debugger if test fails")
        parser.add_argument("--usecli", dest="usecli", default=False, action="store_true",
                            help="use bitcoin-cli instead of RPC for all commands")
        parser.add_argument("--valgrind", dest="valgrind", default=False, action="store_true",
                            help="Run binaries under the valgrind memory error detector: Expect at least a ~10x slowdown. Does not apply to previous release binaries.")
        parser.add_argument("--randomseed", type=int,
                            help="set a random seed for deterministically reproducing a previous test run")
        parser.add_argument("--timeout-factor", dest="timeout_factor", type=float, help="adjust test timeouts by a factor. Setting it to 0 disables all timeouts")
        parser.add_argument("--v2transport", dest="v2transport", default=False, action="store_true",
                            help="use BIP324 v2 connections between all nodes by default")
        parser.add_argument("--v1transport", dest="v1transport", default=False, action="store_true",
                            help="Explicitly use v1 transport (can be used to overwrite global --v2transport option)")
        parser.add_argument("--test_methods", dest="test_methods", nargs='*',
                            help="Run specified test methods sequentially instead of the full test. Use only for methods that do not depend on any context set up in run_test or other methods.")

        self.add_options(parser)
        # Running TestShell in a Jupyter notebook causes an additional -f argument
        # To keep TestShell from failing with an "unrecognized argument" error, we add a dummy "-f" argument
        # source: https://stackoverflow.com/questions/48796169/how-to-fix-ipykernel-launcher-py-error-unrecognized-arguments-in-jupyter/56349168#56349168
        parser.add_argument("-f", "--fff", help="a dummy argument to fool ipython", default="1")
        self.options = parser.parse_args()
        if self.options.timeout_factor == 0:
            self.options.timeout_factor = 999
        self.options.timeout_factor = self.options.timeout_factor or (4 if self.options.valgrind else 1)
        self.options.previous_releases_path = previous_releases_path

        self.config = configparser.ConfigParser()
        self.config.read_file(open(self.options.configfile))
        self.binary_paths = get_binary_paths(self.config)
        if self.options.v1transport:
            self.options.v2transport=False

        PortSeed.n = self.options.port_seed

    def get_binaries(self, bin_dir=None):
        return Binaries(self.binary_paths, bin_dir, use_valgrind=self.options.valgrind)

    def setup(self):
        """Call this method to start up the test framework object with options set."""

        check_json_precision()
        export_env_build_path(self.config)

        self.options.cachedir = os.path.abspath(self.options.cachedir)

        # Set up temp directory and start logging
        if self.options.tmpdir:
            self.options.tmpdir = os.path.abspath(self.options.tmpdir)
            os.makedirs(self.options.tmpdir, exist_ok=False)
        else:
            self.options.tmpdir = tempfile.mkdtemp(prefix=TMPDIR_PREFIX)
        self._start_logging()

        # Seed the PRNG. Note that test runs are reproducible if and only if
        # a single thread accesses the PRNG. For more information, see
        # https://docs.python.org/3/library/random.html#notes-on-reproducibility.
        # The network thread shouldn't access random. If we need to change the
        # network thread to access randomness, it should instantiate its own
        # random.Random object.
        seed = self.options.randomseed

        if seed is None:
            seed = random.randrange(sys.maxsize)
        else:
            self.log.info("User supplied random seed {}".format(seed))

        random.seed(seed)
        self.log.info("PRNG seed is: {}".format(seed))

        self.log.debug('Setting up network thread')
        self.network_thread = NetworkThread()
        self.network_thread.start()
        self.wait_until(lambda: self.network_thread.network_event_loop is not None and self.network_thread.network_event_loop.is_running())

        if self.options.usecli:
            if not self.supports_cli:
                raise SkipTest("--usecli specified but test does not support using CLI")
            self.skip_if_no_cli()
        self.skip_test_if_missing_module()
        self.setup_chain()
        self.setup_network()

        self.success = TestStatus.PASSED

    def shutdown(self):
        """Call this method to shut down the test framework object."""

        if self.success == TestStatus.FAILED and self.options.pdbonfailure:
            print("Testcase failed. Attaching python debugger. Enter ? for help")
            pdb.set_trace()

        self.log.debug('Closing down network thread')
        self.network_thread.close(timeout=self.options.timeout_factor * 10)
        if self.success == TestStatus.FAILED:
            self.log.info("Not stopping nodes as test failed. The dangling processes will be cleaned up later.")
        else:
            self.log.info("Stopping nodes")
            if self.nodes:
                self.stop_nodes()

        should_clean_up = (
            not self.options.nocleanup and
            self.success != TestStatus.FAILED
        )
        if should_clean_up:
            self.log.info("Cleaning up {} on exit".format(self.options.tmpdir))
            cleanup_tree_on_exit = True
        else:
            self.log.warning("Not cleaning up dir {}".format(self.options.tmpdir))
            cleanup_tree_on_exit = False

        if self.success == TestStatus.PASSED:
            self.log.info("Tests successful")
            exit_code = TEST_EXIT_PASSED
        elif self.success == TestStatus.SKIPPED:
            self.log.info("Test skipped")
            exit_code = TEST_EXIT_SKIPPED
        else:
            self.log.error("Test failed. Test logging available at %s/test_framework.log", self.options.tmpdir)
            self.log.error("")
            self.log.error("Hint: Call {} '{}' to consolidate all logs".format(os.path.normpath(os.path.dirname(os.path.realpath(__file__)) + "/../combine_logs.py"), self.options.tmpdir))
            self.log.error("")
            self.log.error("If this failure happened unexpectedly or intermittently, please file a bug and provide a link or upload of the combined log.")
            self.log.error(self.config['environment']['CLIENT_BUGREPORT'])
            self.log.error("")
            exit_code = TEST_EXIT_FAILED
        # Logging.shutdown will not remove stream- and filehandlers, so we must
        # do it explicitly. Handlers are removed so the next test run can apply
        # different log handler settings.
        # See: https://docs.python.org/3/library/logging.html#logging.shutdown
        for h in list(self.log.handlers):
            h.flush()
            h.close()
            self.log.removeHandler(h)
        rpc_logger = logging.getLogger("BitcoinRPC")
        for h in list(rpc_logger.handlers):
            h.flush()
            rpc_logger.removeHandler(h)
        if cleanup_tree_on_exit:
            self.cleanup_folder(self.options.tmpdir)

        self.nodes.clear()
        return exit_code

    # Methods to override in subclass test scripts.
    def set_test_params(self):
        """Tests must override this method to change default values for number of nodes, topology, etc"""
        raise NotImplementedError

    def add_options(self, parser):
        """Override this method to add command-line options to the test"""
        pass

    def skip_test_if_missing_module(self):
        """Override this method to skip a test if a module is not compiled"""
        pass

    def setup_chain(self):
        """Override this method to customize blockchain setup"""
        self.log.info("Initializing test directory " + self.options.tmpdir)
        if self.setup_clean_chain:
            self._initialize_chain_clean()
        else:
            self._initialize_chain()

    def setup_network(self):
        """Override this method to customize test network topology"""
        self.setup_nodes()

        # Connect the nodes as a "chain".  This allows us
        # to split the network between nodes 1 and 2 to get
        # two halves that can work on competing chains.
        #
        # Topology looks like this:
        # node0 <-- node1 <-- node2 <-- node3
        #
        # If all nodes are in IBD (clean chain from genesis), node0 is assumed to be the source of blocks (miner). To
        # ensure block propagation, all nodes will establish outgoing connections toward node0.
        # See fPreferredDownload in net_processing.
        #
        # If further outbound connections are needed, they can be added at the beginning of the test with e.g.
        # self.connect_nodes(1, 2)
        for i in range(self.num_nodes - 1):
            self.connect_nodes(i + 1, i)
        self.sync_all()

    def setup_nodes(self):
        """Override this method to customize test node setup"""
        self.add_nodes(self.num_nodes, self.extra_args)
        self.start_nodes()
        if self.uses_wallet:
            self.import_deterministic_coinbase_privkeys()
        if not self.setup_clean_chain:
            for n in self.nodes:
                assert_equal(n.getblockchaininfo()["blocks"], 199)
            # To ensure that all nodes are out of IBD, the most recent block
            # must have a timestamp not too old (see IsInitialBlockDownload()).
            self.log.debug('Generate a block with current time')
            block_hash = self.generate(self.nodes[0], 1, sync_fun=self.no_op)[0]
            block = self.nodes[0].getblock(blockhash=block_hash, verbosity=0)
            for n in self.nodes:
                n.submitblock(block)
                chain_info = n.getblockchaininfo()
                assert_equal(chain_info["blocks"], 200)
                assert_equal(chain_info["initialblockdownload"], False)

    def import_deterministic_coinbase_privkeys(self):
        for i in range(self.num_nodes):
            self.init_wallet(node=i)

    def init_wallet(self, *, node):
        wallet_name = self.default_wallet_name if self.wallet_names is None else self.wallet_names[node] if node < len(self.wallet_names) else False
        if wallet_name is not False:
            n = self.nodes[node]
            if wallet_name is not None:
                n.createwallet(wallet_name=wallet_name, load_on_startup=True)
            wallet_importprivkey(n.get_wallet_rpc(wallet_name), n.get_deterministic_priv_key().key, 0, label="coinbase")

    def run_test(self):
        """Tests must override this method to define test logic"""
        raise NotImplementedError

    # Public helper methods. These can be accessed by the subclass test scripts.

    def add_nodes(self, num_nodes: int, extra_args=None, *, rpchost=None, versions=None):
        """Instantiate TestNode objects.

        Should only be called once after the nodes have been specified in
        set_test_params()."""
        def bin_dir_from_version(version):
            if not version:
                return None
            if version > 219999:
                # Starting at client version 220000 the first two digits represent
                # the major version, e.g. v22.0 instead of v0.22.0.
                version *= 100
            return os.path.join(
                self.options.previous_releases_path,
                re.sub(
                    r'\.0$' if version <= 219999 else r'(\.0){1,2}$',
                    '', # Remove trailing dot for point releases, after 22.0 also remove double trailing dot.
                    'v{}.{}.{}.{}'.format(
                        (version % 100000000) // 1000000,
                        (version % 1000000) // 10000,
                        (version % 10000) // 100,
                        (version % 100) // 1,
                    ),
                ),
                'bin',
            )

        if self.bind_to_localhost_only:
            extra_confs = [["bind=127.0.0.1"]] * num_nodes
        else:
            extra_confs = [[]] * num_nodes
        if extra_args is None:
            extra_args = [[]] * num_nodes
        # Whitelist peers to speed up tx relay / mempool sync. Don't use it if testing tx relay or timing.
        if self.noban_tx_relay:
            for i in range(len(extra_args)):
                extra_args[i] = extra_args[i] + ["-whitelist=noban,in,out@127.0.0.1"]
        if versions is None:
            versions = [None] * num_nodes
        bin_dirs = []
        for v in versions:
            bin_dir = bin_dir_from_version(v)
            bin_dirs.append(bin_dir)

        extra_init = [{}] * num_nodes if self.extra_init is None else self.extra_init # type: ignore[var-annotated]
        assert_equal(len(extra_init), num_nodes)
        assert_equal(len(extra_confs), num_nodes)
        assert_equal(len(extra_args), num_nodes)
        assert_equal(len(versions), num_nodes)
        assert_equal(len(bin_dirs), num_nodes)
        for i in range(num_nodes):
            args = list(extra_args[i])
            init = dict(
                chain=self.chain,
                rpchost=rpchost,
                timewait=self.rpc_timeout,
                timeout_factor=self.options.timeout_factor,
                binaries=self.get_binaries(bin_dirs[i]),
                version=versions[i],
                coverage_dir=self.options.coveragedir,
                cwd=self.options.tmpdir,
                extra_conf=extra_confs[i],
                extra_args=args,
                use_cli=self.options.usecli,
                v2transport=self.options.v2transport,
                uses_wallet=self.uses_wallet,
            )
            init.update(extra_init[i])
            test_node_i = TestNode(
                i,
                get_datadir_path(self.options.tmpdir, i),
                **init)
            self.nodes.append(test_node_i)
            if not test_node_i.version_is_at_least(170000):
                # adjust conf for pre 17
                test_node_i.replace_in_config([('[regtest]', '')])

    def start_node(self, i, *args, **kwargs):
        """Start a bitcoind"""

        node = self.nodes[i]

        node.start(*args, **kwargs)
        node.wait_for_rpc_connection()

        if self.options.coveragedir is not None:
            coverage.write_all_rpc_commands(self.options.coveragedir, node._rpc)

    def start_nodes(self, extra_args=None, *args, **kwargs):
        """Start multiple bitcoinds"""

        if extra_args is None:
            extra_args = [None] * self.num_nodes
        assert_equal(len(extra_args), self.num_nodes)
        for i, node in enumerate(self.nodes):
            node.start(extra_args[i], *args, **kwargs)
        for node in self.nodes:
            node.wait_for_rpc_connection()

        if self.options.coveragedir is not None:
            for node in self.nodes:
                coverage.write_all_rpc_commands(self.options.coveragedir, node._rpc)

    def stop_node(self, i, expected_stderr='', wait=0):
        """Stop a bitcoind test node"""
        self.nodes[i].stop_node(expected_stderr, wait=wait)

    def stop_nodes(self, wait=0):
        """Stop multiple bitcoind test nodes"""
        for node in self.nodes:
            # Issue RPC to stop nodes
            node.stop_node(wait=wait, wait_until_stopped=False)

        for node in self.nodes:
            # Wait for nodes to stop
            node.wait_until_stopped()

    def cleanup_partially_started_nodes(self):
        """Tear down nodes left running after a failed start_nodes().

        After start_nodes() raises (e.g. FailedToStartError), some nodes may be
        RPC-connected, some may have a live process without RPC, and some may
        already have exited. Stop the connected ones cleanly and force-kill the
        rest so the framework's teardown can proceed.
        """
        for node in self.nodes:
            if not node.running:
                continue
            if node.rpc_connected:
                node.stop_node(wait=node.rpc_timeout)
            else:
                node.process.kill()
                node.process.wait(timeout=node.rpc_timeout)
                node.process = None
                node.stdout.close()
                node.stderr.close()
                node.running = False

    def restart_node(self, i, extra_args=None, clear_addrman=False, *, expected_stderr=''):
        """Stop and start a test node"""
        self.stop_node(i, expected_stderr=expected_stderr)
        if clear_addrman:
            peers_dat = self.nodes[i].chain_path / "peers.dat"
            os.remove(peers_dat)
            with self.nodes[i].assert_debug_log(expected_msgs=[f'Creating peers.dat because the file was not found ("{peers_dat}")']):
                self.start_node(i, extra_args)
        else:
            self.start_node(i, extra_args)

    def wait_for_node_exit(self, i, timeout):
        self.nodes[i].process.wait(timeout)

    def connect_nodes(self, a, b, *, peer_advertises_v2=None):
        from_connection = self.nodes[a]
        to_connection = self.nodes[b]

        # Use subversion as peer id. Test nodes have their node number appended to the user agent string
        from_connection_subver = from_connection.getnetworkinfo()['subversion']
        to_connection_subver = to_connection.getnetworkinfo()['subversion']

        def find_conn(node, peer_subversion, inbound):
            return next(filter(lambda peer: peer['subver'] == peer_subversion and peer['inbound'] == inbound, node.getpeerinfo()), None)

        self.wait_until(lambda: not find_conn(from_connection, to_connection_subver, inbound=False))
        self.wait_until(lambda: not find_conn(to_connection, from_connection_subver, inbound=True))

        ip_port = "127.0.0.1:" + str(p2p_port(b))

        if peer_advertises_v2 is None:
            peer_advertises_v2 = from_connection.use_v2transport

        if peer_advertises_v2 != from_connection.use_v2transport:
            from_connection.addnode(node=ip_port, command="onetry", v2transport=peer_advertises_v2)
        else:
            # skip the optional third argument if it matches the default, for
            # compatibility with older clients
            from_connection.addnode(ip_port, "onetry")

        self.wait_until(lambda: find_conn(from_connection, to_connection_subver, inbound=False) is not None)
        self.wait_until(lambda: find_conn(to_connection, from_connection_subver, inbound=True) is not None)

        def check_bytesrecv(peer, msg_type, min_bytes_recv):
            assert peer is not None, "Error: peer disconnected"
            return peer['bytesrecv_per_msg'].pop(msg_type, 0) >= min_bytes_recv

        # Poll until version handshake (fSuccessfullyConnected) is complete to
        # avoid race conditions, because some message types are blocked from
        # being sent or received before fSuccessfullyConnected.
        #
        # As the flag fSuccessfullyConnected is not exposed, check it by
        # waiting for a pong, which can only happen after the flag was set.
        self.wait_until(lambda: check_bytesrecv(find_conn(from_connection, to_connection_subver, inbound=False), 'pong', 29))
        self.wait_until(lambda: check_bytesrecv(find_conn(to_connection, from_connection_subver, inbound=True), 'pong', 29))

    def disconnect_nodes(self, a, b):
        def disconnect_nodes_helper(node_a, node_b):
            def get_peer_ids(from_connection, node_num):
                result = []
                for peer in from_connection.getpeerinfo():
                    if "testnode{}".format(node_num) in peer['subver']:
                        result.append(peer['id'])
                return result

            peer_ids = get_peer_ids(node_a, node_b.index)
            if not peer_ids:
                self.log.warning("disconnect_nodes: {} and {} were not connected".format(
                    node_a.index,
                    node_b.index,
                ))
                return
            for peer_id in peer_ids:
                try:
                    node_a.disconnectnode(nodeid=peer_id)
                except JSONRPCException as e:
                    # If this node is disconnected between calculating the peer id
                    # and issuing the disconnect, don't worry about it.
                    # This avoids a race condition if we're mass-disconnecting peers.
                    if e.error['code'] != -29:  # RPC_CLIENT_NODE_NOT_CONNECTED
                        raise

            # wait to disconnect
            self.wait_until(lambda: not get_peer_ids(node_a, node_b.index), timeout=5)
            self.wait_until(lambda: not get_peer_ids(node_b, node_a.index), timeout=5)

        disconnect_nodes_helper(self.nodes[a], self.nodes[b])

    def split_network(self):
        """
        Split the network of four nodes into nodes 0/1 and 2/3.
        """
        self.disconnect_nodes(1, 2)
        self.sync_all(self.nodes[:2])
        self.sync_all(self.nodes[2:])

    def join_network(self):
        """
        Join the (previously split) network halves together.
        """
        self.connect_nodes(1, 2)
        self.sync_all()

    def no_op(self):
        pass

    def generate(self, generator, *args, sync_fun=None, **kwargs):
        blocks = generator.generate(*args, called_by_framework=True, **kwargs)
        sync_fun() if sync_fun else self.sync_all()
        return blocks

    def generateblock(self, generator, *args, sync_fun=None, **kwargs):
        blocks = generator.generateblock(*args, called_by_framework=True, **kwargs)
        sync_fun() if sync_fun else self.sync_all()
        return blocks

    def generatetoaddress(self, generator, *args, sync_fun=None, **kwargs):
        blocks = generator.generatetoaddress(*args, called_by_framework=True, **kwargs)
        sync_fun() if sync_fun else self.sync_all()
        return blocks

    def generatetodescriptor(self, generator, *args, sync_fun=None, **kwargs):
        blocks = generator.generatetodescriptor(*args, called_by_framework=True, **kwargs)
        sync_fun() if sync_fun else self.sync_all()
        return blocks

    def create_outpoints(self, node, *, outputs):
        """Send funds to a given list of `{address: amount}` targets using the bitcoind
        wallet and return the corresponding outpoints as a list of dictionaries
        `[{"txid": txid, "vout": vout1}, {"txid": txid, "vout": vout2}, ...]`.
        The result can be used to specify inputs for RPCs like `createrawtransaction`,
        `createpsbt`, `lockunspent` etc."""
        for output in outputs:
            assert_equal(len(output.keys()), 1)
        send_res = node.send(outputs)
        assert send_res["complete"]
        utxos = []
        for output in outputs:
            address = list(output.keys())[0]
            vout = find_vout_for_address(node, send_res["txid"], address)
            utxos.append({"txid": send_res["txid"], "vout": vout})
        return utxos

    def sync_blocks(self, nodes=None, wait=1, timeout=60):
        """
        Wait until everybody has the same tip.
        sync_blocks needs to be called with an rpc_connections set that has least
        one node already synced to the latest, stable tip, otherwise there's a
        chance it might return before all nodes are stably synced.
        """
        rpc_connections = nodes or self.nodes
        timeout = int(timeout * self.options.timeout_factor)
        stop_time = time.time() + timeout
        while time.time() <= stop_time:
            best_hash = [x.getbestblockhash() for x in rpc_connections]
            if best_hash.count(best_hash[0]) == len(rpc_connections):
                return
            # Check that each peer has at least one connection
            assert (all([len(x.getpeerinfo()) for x in rpc_connections]))
            time.sleep(wait)
        raise AssertionError("Block sync timed out after {}s:{}".format(
            timeout,
            "".join("\n  {!r}".format(b) for b in best_hash),
        ))

    def sync_mempools(self, nodes=None, wait=1, timeout=60, flush_scheduler=True):
        """
        Wait until everybody has the same transactions in their memory
        pools
        """
        rpc_connections = nodes or self.nodes
        timeout = int(timeout * self.options.timeout_factor)
        stop_time = time.time() + timeout
        while time.time() <= stop_time:
            pool = [set(r.getrawmempool()) for r in rpc_connections]
            if pool.count(pool[0]) == len(rpc_connections):
                if flush_scheduler:
                    for r in rpc_connections:
                        r.syncwithvalidationinterfacequeue()
                return
            # Check that each peer has at least one connection
            assert (all([len(x.getpeerinfo()) for x in rpc_connections]))
            time.sleep(wait)
        raise AssertionError("Mempool sync timed out after {}s:{}".format(
            timeout,
            "".join("\n  {!r}".format(m) for m in pool),
        ))

    def sync_all(self, nodes=None):
        self.sync_blocks(nodes)
        self.sync_mempools(nodes)

    def wait_until(self, test_function, timeout=60, check_interval=0.05):
        return wait_until_helper_internal(test_function, timeout=timeout, timeout_factor=self.options.timeout_factor, check_interval=check_interval)

    def fill_node_addrman(self, *, node_index, address_types_to_add):
        ADDRESSES = {
            CAddress.NET_IPV4: [
                "20.0.0.1",
                "30.0.0.1",
                "40.0.0.1",
                "50.0.0.1",
                "60.0.0.1",
                "70.0.0.1",
                "80.0.0.1",
                "90.0.0.1",
                "100.0.0.1",
                "110.0.0.1",
                "120.0.0.1",
                "130.0.0.1",
                "140.0.0.1",
                "150.0.0.1",
                "160.0.0.1",
                "170.0.0.1",
                "180.0.0.1",
                "190.0.0.1",
                "200.0.0.1",
                "210.0.0.1",
            ],
            CAddress.NET_IPV6: [
                "[20::1]",
                "[30::1]",
                "[40::1]",
                "[50::1]",
                "[60::1]",
                "[70::1]",
                "[80::1]",
                "[90::1]",
                "[100::1]",
                "[110::1]",
                "[120::1]",
                "[130::1]",
                "[140::1]",
                "[150::1]",
                "[160::1]",
                "[170::1]",
                "[180::1]",
                "[190::1]",
                "[200::1]",
                "[210::1]",
            ],
            CAddress.NET_TORV3: [
                "testonlyad777777777777777777777777777777777777777775b6qd.onion",
                "testonlyah77777777777777777777777777777777777777777z7ayd.onion",
                "testonlyal77777777777777777777777777777777777777777vp6qd.onion",
                "testonlyap77777777777777777777777777777777777777777r5qad.onion",
                "testonlyat77777777777777777777777777777777777777777udsid.onion",
                "testonlyax77777777777777777777777777777777777777777yciid.onion",
                "testonlya777777777777777777777777777777777777777777rhgyd.onion",
                "testonlybd77777777777777777777777777777777777777777rs4ad.onion",
                "testonlybp77777777777777777777777777777777777777777zs2ad.onion",
                "testonlybt777777777777777777777777777777777777777777x6id.onion",
                "testonlybx777777777777777777777777777777777777777775styd.onion",
                "testonlyb3777777777777777777777777777777777777777774ckid.onion",
                "testonlycd77777777777777777777777777777777777777777733id.onion",
                "testonlych77777777777777777777777777777777777777777t6kid.onion",
                "testonlycl77777777777777777777777777777777777777777tt3ad.onion",
                "testonlyct77777777777777777777777777777777777777777wvhyd.onion",
                "testonlycx7777777777777777777777777777777777777777774bad.onion",
                "testonlyc377777777777777777777777777777777777777777u6aid.onion",
                "testonlydd777777777777777777777777777777777777777777u5ad.onion",
                "testonlydh77777777777777777777777777777777777777777wgnyd.onion",
            ],
            CAddress.NET_I2P: [
                "testonlyad77777777777777777777777777777777777777777q.b32.i2p",
                "testonlyah77777777777777777777777777777777777777777q.b32.i2p",
                "testonlyap77777777777777777777777777777777777777777q.b32.i2p",
                "testonlyat77777777777777777777777777777777777777777q.b32.i2p",
                "testonlyax77777777777777777777777777777777777777777q.b32.i2p",
                "testonlya377777777777777777777777777777777777777777q.b32.i2p",
                "testonlya777777777777777777777777777777777777777777q.b32.i2p",
                "testonlybd77777777777777777777777777777777777777777q.b32.i2p",
                "testonlybh77777777777777777777777777777777777777777q.b32.i2p",
                "testonlybl77777777777777777777777777777777777777777q.b32.i2p",
                "testonlybp77777777777777777777777777777777777777777q.b32.i2p",
                "testonlybt77777777777777777777777777777777777777777q.b32.i2p",
                "testonlybx77777777777777777777777777777777777777777q.b32.i2p",
                "testonlyb777777777777777777777777777777777777777777q.b32.i2p",
                "testonlych77777777777777777777777777777777777777777q.b32.i2p",
                "testonlycp77777777777777777777777777777777777777777q.b32.i2p",
                "testonlyct77777777777777777777777777777777777777777q.b32.i2p",
                "testonlycx77777777777777777777777777777777777777777q.b32.i2p",
                "testonlyc377777777777777777777777777777777777777777q.b32.i2p",
                "testonlyc777777777777777777777777777777777777777777q.b32.i2p",
            ],
            CAddress.NET_CJDNS: [
                "[fc00::1]",
                "[fc00::2]",
                "[fc00::3]",
                "[fc00::5]",
                "[fc00::6]",
                "[fc00::7]",
                "[fc00::8]",
                "[fc00::9]",
                "[fc00::10]",
                "[fc00::11]",
                "[fc00::12]",
                "[fc00::13]",
                "[fc00::15]",
                "[fc00::16]",
                "[fc00::17]",
                "[fc00::18]",
                "[fc00::19]",
                "[fc00::20]",
                "[fc00::22]",
                "[fc00::23]",
            ],
        }
        for addr_type in address_types_to_add:
            for addr in ADDRESSES[addr_type]:
                res = self.nodes[node_index].addpeeraddress(address=addr, port=0 if addr.endswith(".i2p") else 8333, tried=False)
                if not res["success"]:
                    self.log.debug(f"Could not add {addr} to nodes[{node_index}]'s addrman (collision?)")

    # Private helper methods. These should not be accessed by the subclass test scripts.

    def _start_logging(self):
        # Add logger and logging handlers
        self.log = logging.getLogger('TestFramework')
        self.log.setLevel(logging.DEBUG)
        # Create file handler to log all messages
        fh = logging.FileHandler(self.options.tmpdir + '/test_framework.log')
        fh.setLevel(logging.DEBUG)
        # Create console handler to log messages to stderr. By default this logs only error messages, but can be configured with --loglevel.
        ch = logging.StreamHandler(sys.stdout)
        # User can provide log level as a number or string (eg DEBUG). loglevel was caught as a string, so try to convert it to an int
        ll = int(self.options.loglevel) if self.options.loglevel.isdigit() else self.options.loglevel.upper()
        ch.setLevel(ll)

        # Format logs the same as bitcoind's debug.log with microprecision (so log files can be concatenated and sorted)
        class MicrosecondFormatter(logging.Formatter):
            def formatTime(self, record, _=None):
                dt = datetime.fromtimestamp(record.created, timezone.utc)
                return dt.strftime('%Y-%m-%dT%H:%M:%S.%f')

        formatter = MicrosecondFormatter(
            fmt='%(asctime)sZ %(name)s (%(levelname)s): %(message)s',
        )
        fh.setFormatter(formatter)
        ch.setFormatter(formatter)
        # add the handlers to the logger
        self.log.addHandler(fh)
        self.log.addHandler(ch)

        if self.options.trace_rpc:
            rpc_logger = logging.getLogger("BitcoinRPC")
            rpc_logger.setLevel(logging.DEBUG)
            rpc_handler = logging.StreamHandler(sys.stdout)
            rpc_handler.setLevel(logging.DEBUG)
            rpc_logger.addHandler(rpc_handler)

    def _initialize_chain(self):
        """Initialize a pre-mined blockchain for use by the test.

        Create a cache of a 199-block-long chain
        Afterward, create num_nodes copies from the cache."""

        CACHE_NODE_ID = 0  # Use node 0 to create the cache for all other nodes
        cache_node_dir = get_datadir_path(self.options.cachedir, CACHE_NODE_ID)
        assert self.num_nodes <= MAX_NODES

        if not os.path.isdir(cache_node_dir):
            self.log.debug("Creating cache directory {}".format(cache_node_dir))

            initialize_datadir(self.options.cachedir, CACHE_NODE_ID, self.chain, self.disable_autoconnect)
            self.nodes.append(
                TestNode(
                    CACHE_NODE_ID,
                    cache_node_dir,
                    chain=self.chain,
                    extra_conf=["bind=127.0.0.1"],
                    extra_args=[],
                    rpchost=None,
                    timewait=self.rpc_timeout,
                    timeout_factor=self.options.timeout_factor,
                    binaries=self.get_binaries(),
                    coverage_dir=None,
                    cwd=self.options.tmpdir,
                    uses_wallet=self.uses_wallet,
                ))
            self.start_node(CACHE_NODE_ID)
            cache_node = self.nodes[CACHE_NODE_ID]

            # Wait for RPC connections to be ready
            cache_node.wait_for_rpc_connection()

            # Set a time in the past, so that blocks don't end up in the future
            cache_node.setmocktime(cache_node.getblockheader(cache_node.getbestblockhash())['time'])

            # Create a 199-block-long chain; each of the 3 first nodes
            # gets 25 mature blocks and 25 immature.
            # The 4th address gets 25 mature and only 24 immature blocks so that the very last
            # block in the cache does not age too much (have an old tip age).
            # This is needed so that we are out of IBD when the test starts,
            # see the tip age check in IsInitialBlockDownload().
            gen_addresses = [k.address for k in TestNode.PRIV_KEYS][:3] + [create_deterministic_address_bcrt1_p2tr_op_true()[0]]
            assert_equal(len(gen_addresses), 4)
            for i in range(8):
                self.generatetoaddress(
                    cache_node,
                    nblocks=25 if i != 7 else 24,
                    address=gen_addresses[i % len(gen_addresses)],
                )

            assert_equal(cache_node.getblockchaininfo()["blocks"], 199)

            # Shut it down, and clean up cache directories:
            self.stop_nodes()
            self.nodes = []

            def cache_path(*paths):
                return os.path.join(cache_node_dir, self.chain, *paths)

            os.rmdir(cache_path('wallets'))  # Remove empty wallets dir
            shutil.rmtree(cache_path('fees'), ignore_errors=True)
            for entry in os.listdir(cache_path()):
                if entry not in ['chainstate', 'blocks', 'indexes']:  # Only indexes, chainstate and blocks folders
                    os.remove(cache_path(entry))

        for i in range(self.num_nodes):
            self.log.debug("Copy cache directory {} to node {}".format(cache_node_dir, i))
            to_dir = get_datadir_path(self.options.tmpdir, i)
            shutil.copytree(cache_node_dir, to_dir)
            initialize_datadir(self.options.tmpdir, i, self.chain, self.disable_autoconnect)  # Overwrite port/rpcport in bitcoin.conf

    def _initialize_chain_clean(self):
        """Initialize empty blockchain for use by the test.

        Create an empty blockchain and num_nodes wallets.
        Useful if a test case wants complete control over initialization."""
        for i in range(self.num_nodes):
            initialize_datadir(self.options.tmpdir, i, self.chain, self.disable_autoconnect)

    def skip_if_no_py3_zmq(self):
        """Attempt to import the zmq package and skip the test if the import fails."""
        try:
            import zmq  # noqa
        except ImportError:
            raise SkipTest("python3-zmq module not available.")

    def skip_if_no_py_sqlite3(self):
        """Attempt to import the sqlite3 package and skip the test if the import fails."""
        try:
            import sqlite3  # noqa
        except ImportError:
            raise SkipTest("sqlite3 module not available.")

    def skip_if_no_py_capnp(self):
        """Attempt to import the capnp package and skip the test if the import fails."""
        try:
            import capnp  # type: ignore[import] # noqa: F401
        except ImportError:
            raise SkipTest("capnp module not available.")

    def skip_if_no_python_bcc(self):
        """Attempt to import the bcc package and skip the tests if the import fails."""
        try:
            import bcc  # type: ignore[import] # noqa: F401
        except ImportError:
            raise SkipTest("bcc python module not available")

    def skip_if_no_bitcoind_tracepoints(self):
        """Skip the running test if bitcoind has not been compiled with USDT tracepoint support."""
        if not self.is_usdt_compiled():
            raise SkipTest("bitcoind has not been built with USDT tracepoints enabled.")

    def skip_if_no_bpf_permissions(self):
        """Skip the running test if we don't have permissions to do BPF syscalls and load BPF maps."""
        # check for 'root' permissions
        if os.geteuid() != 0:
            raise SkipTest("no permissions to use BPF (please review the tests carefully before running them with higher privileges)")

    def skip_if_platform_not_linux(self):
        """Skip the running test if we are not on a Linux platform"""
        if platform.system() != "Linux":
            raise SkipTest("not on a Linux system")

    def skip_if_no_lsof_on_nonlinux(self):
        """Skip the running test if the lsof utility is not available on non-Linux platforms."""
        if sys.platform != "linux" and shutil.which("lsof") is None:
            raise SkipTest("lsof not available")

    def skip_if_platform_not_posix(self):
        """Skip the running test if we are not on a POSIX platform"""
        if os.name != 'posix':
            raise SkipTest("not on a POSIX system")

    def skip_if_no_bitcoind_zmq(self):
        """Skip the running test if bitcoind has not been compiled with zmq support."""
        if not self.is_zmq_compiled():
            raise SkipTest("bitcoind has not been built with zmq enabled.")

    def skip_if_no_wallet(self):
        """Skip the running test if wallet has not been compiled."""
        self.uses_wallet = True
        if not self.is_wallet_compiled():
            raise SkipTest("wallet has not been compiled.")

    def skip_if_no_wallet_tool(self):
        """Skip the running test if bitcoin-wallet has not been compiled."""
        if not self.is_wallet_tool_compiled():
            raise SkipTest("bitcoin-wallet has not been compiled")

    def skip_if_no_bitcoin_tx(self):
        """Skip the running test if bitcoin-tx has not been compiled."""
        if not self.is_bitcoin_tx_compiled():
            raise SkipTest("bitcoin-tx has not been compiled")

    def skip_if_no_bitcoin_util(self):
        """Skip the running test if bitcoin-util has not been compiled."""
        if not self.is_bitcoin_util_compiled():
            raise SkipTest("bitcoin-util has not been compiled")

    def skip_if_no_bitcoin_chainstate(self):
        """Skip the running test if bitcoin-chainstate has not been compiled."""
        if not self.is_bitcoin_chainstate_compiled():
            raise SkipTest("bitcoin-chainstate has not been compiled")

    def skip_if_no_bitcoin_bench(self):
        """Skip the running test if bench_bitcoin has not been compiled."""
        if not self.is_bench_compiled():
            raise SkipTest("bench_bitcoin has not been compiled")

    def skip_if_no_cli(self):
        """Skip the running test if bitcoin-cli has not been compiled."""
        if not self.is_cli_compiled():
            raise SkipTest("bitcoin-cli has not been compiled.")

    def skip_if_no_ipc(self):
        """Skip the running test if ipc is not compiled."""
        if not self.is_ipc_compiled():
            raise SkipTest("ipc has not been compiled.")

    def skip_if_no_gui(self):
        """Skip the running test if the GUI has not been compiled."""
        if not self.is_gui_compiled():
            raise SkipTest("GUI has not been compiled.")

    def skip_if_no_previous_releases(self):
        """Skip the running test if previous releases are not available."""
        if not self.has_previous_releases():
            raise SkipTest("previous releases not available or disabled")

    def has_resource_module(self):
        """Checks whether the resource module is available."""
        return find_spec('resource') is not None

    @property
    def RLIM_INFINITY(self):
        if not self.has_resource_module():
            return None
        import resource
        return resource.RLIM_INFINITY

    def has_previous_releases(self):
        """Checks whether previous releases are present and enabled."""
        if not os.path.isdir(self.options.previous_releases_path):
            if self.options.prev_releases:
                raise AssertionError(f"Force test of previous releases but releases missing: {self.options.previous_releases_path}\n"
                                     "Previous releases binaries can be downloaded via `test/get_previous_releases.py`.")
        return self.options.prev_releases

    def skip_if_no_external_signer(self):
        """Skip the running test if external signer support has not been compiled."""
        if not self.is_external_signer_compiled():
            raise SkipTest("external signer support has not been compiled.")

    def skip_if_running_under_valgrind(self):
        """Skip the running test if Valgrind is being used."""
        if self.options.valgrind:
            raise SkipTest("This test is not compatible with Valgrind.")

    def is_bench_compiled(self):
        """Checks whether bench_bitcoin was compiled."""
        return self.config.getboolean("components", "BUILD_BENCH")

    def is_cli_compiled(self):
        """Checks whether bitcoin-cli was compiled."""
        return self.config.getboolean("components", "ENABLE_CLI")

    def is_external_signer_compiled(self):
        """Checks whether external signer support was compiled."""
        return self.config.getboolean("components", "ENABLE_EXTERNAL_SIGNER")

    def is_wallet_compiled(self):
        """Checks whether the wallet module was compiled."""
        return self.config.getboolean("components", "ENABLE_WALLET")

    def is_wallet_tool_compiled(self):
        """Checks whether bitcoin-wallet was compiled."""
        return self.config.getboolean("components", "ENABLE_WALLET_TOOL")

    def is_bitcoin_tx_compiled(self):
        """Checks whether bitcoin-tx was compiled."""
        return self.config.getboolean("components", "BUILD_BITCOIN_TX")

    def is_bitcoin_util_compiled(self):
        """Checks whether bitcoin-util was compiled."""
        return self.config.getboolean("components", "ENABLE_BITCOIN_UTIL")

    def is_bitcoin_chainstate_compiled(self):
        """Checks whether bitcoin-chainstate was compiled."""
        return self.config.getboolean("components", "ENABLE_BITCOIN_CHAINSTATE")

    def is_zmq_compiled(self):
        """Checks whether the zmq module was compiled."""
        return self.config.getboolean("components", "ENABLE_ZMQ")

    def is_embedded_asmap_compiled(self):
        """Checks whether ASMap data was embedded during compilation."""
        return self.config.getboolean("components", "ENABLE_EMBEDDED_ASMAP")

    def is_usdt_compiled(self):
        """Checks whether the USDT tracepoints were compiled."""
        return self.config.getboolean("components", "ENABLE_USDT_TRACEPOINTS")

    def is_ipc_compiled(self):
        """Checks whether ipc was compiled."""
        return self.config.getboolean("components", "ENABLE_IPC")

    def is_gui_compiled(self):
        """Checks whether the GUI was compiled."""
        return self.config.getboolean("components", "BUILD_GUI")

    def has_blockfile(self, node, filenum: str):
        return (node.blocks_path/ f"blk{filenum}.dat").is_file()

    def inspect_sqlite_db(self, path, fn, *args, **kwargs):
        try:
            import sqlite3 # type: ignore[import]
            conn = sqlite3.connect(path)
            with conn:
                result = fn(conn, *args, **kwargs)
            conn.close()
            return result
        except ImportError:
            self.log.warning("sqlite3 module not available, skipping tests that inspect the database")

    def cleanup_folder(self, _path):
        path = Path(_path)
        if not path.is_relative_to(self.options.tmpdir):
            raise AssertionError(f"Trying to delete #{path} outside of #{self.options.tmpdir}")
        shutil.rmtree(path)
