#!/usr/bin/env python3
# Copyright (c) 2019-present The Bitcoin Core developers
# Distributed under the MIT software license, see the accompanying
# file COPYING or http://www.opensource.org/licenses/mit-license.php.
import pathlib

from test_framework.test_framework import BitcoinTestFramework


class TestShell:
    """Wrapper Class for BitcoinTestFramework.

    The TestShell class extends the BitcoinTestFramework
    rpc & daemon process management functionality to external
    python environments.

    It is a singleton class, which ensures that users only
    start a single TestShell at a time."""

    class __TestShell(BitcoinTestFramework):
        def set_test_params(self):
            self.uses_wallet = None

        def run_test(self):
            pass

        def setup(self, **kwargs):
            if self.running:
                print("TestShell is already running!")
                return

            # Num_nodes parameter must be set
            # by BitcoinTestFramework child class.
            self.num_nodes = 1

            # User parameters override default values.
            for key, value in kwargs.items():
                if hasattr(self, key):
                    setattr(self, key, value)
                elif hasattr(self.options, key):
                    setattr(self.options, key, value)
                else:
                    raise KeyError(key + " not a valid parameter key!")

            super().setup()
            self.running = True
            return self

        def shutdown(self):
            if not self.running:
                print("TestShell is not running!")
            else:
                super().shutdown()
                self.running = False

        def reset(self):
            if self.running:
                print("Shutdown TestShell before resetting!")
            else:
                self.num_nodes = None
                dummy_testshell_file = pathlib.Path(__file__).absolute().parent.parent / "testshell_dummy.py"
                super().__init__(dummy_testshell_file)

    instance = None

    def __new__(cls):
        # This implementation enforces singleton pattern, and will return the
        # previously initialized instance if available
        if not TestShell.instance:
            # BitcoinTestFramework instances are supposed to be constructed with the path
            # of the calling test in order to find shared data like configuration and the
            # cache. Since TestShell is meant for interactive use, there is no concrete
            # test; passing a dummy name is fine though, as only the containing directory
            # is relevant for successful initialization.
            dummy_testshell_file = pathlib.Path(__file__).absolute().parent.parent / "testshell_dummy.py"
            TestShell.instance = TestShell.__TestShell(dummy_testshell_file)
            TestShell.instance.running = False
        return TestShell.instance

    def __getattr__(self, name):
        return getattr(self.instance, name)

    def __setattr__(self, name, value):
        return setattr(self.instance, name, value)
