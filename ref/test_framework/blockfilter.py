#!/usr/bin/env python3
# Copyright (c) 2022-present The Bitcoin Core developers
# Distributed under the MIT software license, see the accompanying
# file COPYING or http://www.opensource.org/licenses/mit-license.php.
"""Helper routines relevant for compact block filters (BIP158).
"""
from .crypto.siphash import siphash


def bip158_basic_element_hash(script_pub_key, N, block_hash):
    """ Calculates the ranged hash of a filter element as defined in BIP158:

    'The first step in the filter construction is hashing the variable-sized
    raw items in the set to the range [0, F), where F = N * M.'

    'The items are first passed through the pseudorandom function SipHash, which takes a
    128-bit key k and a variable-sized byte vector and produces a uniformly random 64-bit
    output. Implementations of this BIP MUST use the SipHash parameters c = 2 and d = 4.'

    'The parameter k MUST be set to the first 16 bytes of the hash (in standard
    little-endian representation) of the block for which the filter is constructed. This
    ensures the key is deterministic while still varying from block to block.'
    """
    M = 784931
    block_hash_bytes = bytes.fromhex(block_hash)[::-1]
    k0 = int.from_bytes(block_hash_bytes[0:8], 'little')
    k1 = int.from_bytes(block_hash_bytes[8:16], 'little')
    return (siphash(k0, k1, script_pub_key) * (N * M)) >> 64


def bip158_relevant_scriptpubkeys(node, block_hash):
    """ Determines the basic filter relevant scriptPubKeys as defined in BIP158:

    'A basic filter MUST contain exactly the following items for each transaction in a block:
       - The previous output script (the script being spent) for each input, except for
         the coinbase transaction.
       - The scriptPubKey of each output, aside from all OP_RETURN output scripts.'
    """
    spks = set()
    for tx in node.getblock(blockhash=block_hash, verbosity=3)['tx']:
        # gather prevout scripts
        for i in tx['vin']:
            if 'prevout' in i:
                spks.add(bytes.fromhex(i['prevout']['scriptPubKey']['hex']))
        # gather output scripts
        for o in tx['vout']:
            if o['scriptPubKey']['type'] != 'nulldata':
                spks.add(bytes.fromhex(o['scriptPubKey']['hex']))
    return spks
