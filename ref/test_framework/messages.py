#!/usr/bin/env python3
# Copyright (c) 2010 ArtForz -- public domain half-a-node
# Copyright (c) 2012 Jeff Garzik
# Copyright (c) 2010-present The Bitcoin Core developers
# Distributed under the MIT software license, see the accompanying
# file COPYING or http://www.opensource.org/licenses/mit-license.php.
"""Bitcoin test framework primitive and message structures

CBlock, CTransaction, CBlockHeader, CTxIn, CTxOut, etc....:
    data structures that should map to corresponding structures in
    bitcoin/primitives

msg_block, msg_tx, msg_headers, etc.:
    data structures that represent network messages

ser_*, deser_*: functions that handle serialization/deserialization.

Classes use __slots__ to ensure extraneous attributes aren't accidentally added
by tests, compromising their intended effect.
"""
from base64 import b32decode, b32encode
import copy
import hashlib
from io import BytesIO
import math
import random
import socket
import time
import unittest

from test_framework.crypto.siphash import siphash256
from test_framework.util import (
    assert_equal,
    assert_not_equal,
)

MAX_LOCATOR_SZ = 101
MAX_BLOCK_WEIGHT = 4000000
MAX_BLOCK_SIGOPS_COST = 80000
DEFAULT_BLOCK_RESERVED_WEIGHT = 8000
MINIMUM_BLOCK_RESERVED_WEIGHT = 2000
MAX_BLOOM_FILTER_SIZE = 36000
MAX_BLOOM_HASH_FUNCS = 50

COIN = 100000000  # 1 btc in satoshis
MAX_MONEY = 21000000 * COIN

MAX_BIP125_RBF_SEQUENCE = 0xfffffffd  # Sequence number that is rbf-opt-in (BIP 125) and csv-opt-out (BIP 68)
MAX_SEQUENCE_NONFINAL = 0xfffffffe  # Sequence number that is csv-opt-out (BIP 68)
SEQUENCE_FINAL = 0xffffffff  # Sequence number that disables nLockTime if set for every input of a tx

MAX_PROTOCOL_MESSAGE_LENGTH = 4000000  # Maximum length of incoming protocol messages
MAX_HEADERS_RESULTS = 2000  # Number of headers sent in one getheaders result
MAX_INV_SIZE = 50000  # Maximum number of entries in an 'inv' protocol message

NODE_NONE = 0
NODE_NETWORK = (1 << 0)
NODE_BLOOM = (1 << 2)
NODE_WITNESS = (1 << 3)
NODE_COMPACT_FILTERS = (1 << 6)
NODE_NETWORK_LIMITED = (1 << 10)
NODE_P2P_V2 = (1 << 11)

MSG_TX = 1
MSG_BLOCK = 2
MSG_FILTERED_BLOCK = 3
MSG_CMPCT_BLOCK = 4
MSG_WTX = 5
MSG_WITNESS_FLAG = 1 << 30
MSG_TYPE_MASK = 0xffffffff >> 2
MSG_WITNESS_TX = MSG_TX | MSG_WITNESS_FLAG

FILTER_TYPE_BASIC = 0

WITNESS_SCALE_FACTOR = 4

DEFAULT_ANCESTOR_LIMIT = 25    # default max number of in-mempool ancestors
DEFAULT_DESCENDANT_LIMIT = 25  # default max number of in-mempool descendants
DEFAULT_CLUSTER_LIMIT = 64     # default max number of transactions in a cluster


# Default setting for -datacarriersize.
MAX_OP_RETURN_RELAY = 100_000


DEFAULT_MEMPOOL_EXPIRY_HOURS = 336  # hours

TX_MIN_STANDARD_VERSION = 1
TX_MAX_STANDARD_VERSION = 3

MAGIC_BYTES = {
    "mainnet": b"\xf9\xbe\xb4\xd9",
    "testnet4": b"\x1c\x16\x3f\x28",
    "regtest": b"\xfa\xbf\xb5\xda",
    "signet": b"\x0a\x03\xcf\x40",
}

def sha256(s):
    return hashlib.sha256(s).digest()


def sha3(s):
    return hashlib.sha3_256(s).digest()


def hash256(s):
    return sha256(sha256(s))


def ser_compact_size(l):
    r = b""
    if l < 253:
        r = l.to_bytes(1, "little")
    elif l < 0x10000:
        r = (253).to_bytes(1, "little") + l.to_bytes(2, "little")
    elif l < 0x100000000:
        r = (254).to_bytes(1, "little") + l.to_bytes(4, "little")
    else:
        r = (255).to_bytes(1, "little") + l.to_bytes(8, "little")
    return r


def deser_compact_size(f):
    nit = int.from_bytes(f.read(1), "little")
    if nit == 253:
        nit = int.from_bytes(f.read(2), "little")
    elif nit == 254:
        nit = int.from_bytes(f.read(4), "little")
    elif nit == 255:
        nit = int.from_bytes(f.read(8), "little")
    return nit


def ser_varint(l):
    r = b""
    while True:
        r = bytes([(l & 0x7f) | (0x80 if len(r) > 0 else 0x00)]) + r
        if l <= 0x7f:
            return r
        l = (l >> 7) - 1


def deser_varint(f):
    n = 0
    while True:
        dat = f.read(1)[0]
        n = (n << 7) | (dat & 0x7f)
        if (dat & 0x80) > 0:
            n += 1
        else:
            return n


def deser_string(f):
    nit = deser_compact_size(f)
    return f.read(nit)


def ser_string(s):
    return ser_compact_size(len(s)) + s


def deser_uint256(f):
    return int.from_bytes(f.read(32), 'little')


def ser_uint256(u):
    return u.to_bytes(32, 'little')


def uint256_from_str(s):
    return int.from_bytes(s[:32], 'little')


def uint256_from_compact(c):
    nbytes = (c >> 24) & 0xFF
    v = (c & 0xFFFFFF) << (8 * (nbytes - 3))
    return v


# deser_function_name: Allow for an alternate deserialization function on the
# entries in the vector.
def deser_vector(f, c, deser_function_name=None):
    nit = deser_compact_size(f)
    r = []
    for _ in range(nit):
        t = c()
        if deser_function_name:
            getattr(t, deser_function_name)(f)
        else:
            t.deserialize(f)
        r.append(t)
    return r


# ser_function_name: Allow for an alternate serialization function on the
# entries in the vector (we use this for serializing the vector of transactions
# for a witness block).
def ser_vector(l, ser_function_name=None):
    r = ser_compact_size(len(l))
    for i in l:
        if ser_function_name:
            r += getattr(i, ser_function_name)()
        else:
            r += i.serialize()
    return r


def deser_uint256_vector(f):
    nit = deser_compact_size(f)
    r = []
    for _ in range(nit):
        t = deser_uint256(f)
        r.append(t)
    return r


def ser_uint256_vector(l):
    r = ser_compact_size(len(l))
    for i in l:
        r += ser_uint256(i)
    return r


def deser_string_vector(f):
    nit = deser_compact_size(f)
    r = []
    for _ in range(nit):
        t = deser_string(f)
        r.append(t)
    return r


def ser_string_vector(l):
    r = ser_compact_size(len(l))
    for sv in l:
        r += ser_string(sv)
    return r


def deser_block_spent_outputs(f):
    nit = deser_compact_size(f)
    return [deser_vector(f, CTxOut) for _ in range(nit)]


def from_hex(obj, hex_string):
    """Deserialize from a hex string representation (e.g. from RPC)

    Note that there is no complementary helper like e.g. `to_hex` for the
    inverse operation. To serialize a message object to a hex string, simply
    use obj.serialize().hex()"""
    obj.deserialize(BytesIO(bytes.fromhex(hex_string)))
    return obj


def tx_from_hex(hex_string):
    """Deserialize from hex string to a transaction object"""
    return from_hex(CTransaction(), hex_string)


def malleate_tx_to_invalid_witness(tx):
    """
    Create a malleated version of the tx where the witness is replaced with garbage data.
    Returns a CTransaction object.
    """
    tx_bad_wit = tx_from_hex(tx["hex"])
    tx_bad_wit.wit.vtxinwit = [CTxInWitness()]
    # Add garbage data to witness 0. We cannot simply strip the witness, as the node would
    # classify it as a transaction in which the witness was missing rather than wrong.
    tx_bad_wit.wit.vtxinwit[0].scriptWitness.stack = [b'garbage']

    assert_equal(tx["txid"], tx_bad_wit.txid_hex)
    assert_not_equal(tx["wtxid"], tx_bad_wit.wtxid_hex)

    return tx_bad_wit


# like from_hex, but without the hex part
def from_binary(cls, stream):
    """deserialize a binary stream (or bytes object) into an object"""
    # handle bytes object by turning it into a stream
    was_bytes = isinstance(stream, bytes)
    if was_bytes:
        stream = BytesIO(stream)
    obj = cls()
    obj.deserialize(stream)
    if was_bytes:
        assert_equal(len(stream.read()), 0)
    return obj


# Objects that map to bitcoind objects, which can be serialized/deserialized


class CAddress:
    __slots__ = ("net", "ip", "nServices", "port", "time")

    # see https://github.com/bitcoin/bips/blob/master/bip-0155.mediawiki
    NET_IPV4 = 1
    NET_IPV6 = 2
    NET_TORV3 = 4
    NET_I2P = 5
    NET_CJDNS = 6

    ADDRV2_NET_NAME = {
        NET_IPV4: "IPv4",
        NET_IPV6: "IPv6",
        NET_TORV3: "TorV3",
        NET_I2P: "I2P",
        NET_CJDNS: "CJDNS"
    }

    ADDRV2_ADDRESS_LENGTH = {
        NET_IPV4: 4,
        NET_IPV6: 16,
        NET_TORV3: 32,
        NET_I2P: 32,
        NET_CJDNS: 16
    }

    I2P_PAD = "===="

    def __init__(self):
        self.time = 0
        self.nServices = 1
        self.net = self.NET_IPV4
        self.ip = "0.0.0.0"
        self.port = 0

    def __eq__(self, other):
        return self.net == other.net and self.ip == other.ip and self.nServices == other.nServices and self.port == other.port and self.time == other.time

    def deserialize(self, f, *, with_time=True):
        """Deserialize from addrv1 format (pre-BIP155)"""
        if with_time:
            # VERSION messages serialize CAddress objects without time
            self.time = int.from_bytes(f.read(4), "little")
        self.nServices = int.from_bytes(f.read(8), "little")
        # We only support IPv4 which means skip 12 bytes and read the next 4 as IPv4 address.
        f.read(12)
        self.net = self.NET_IPV4
        self.ip = socket.inet_ntoa(f.read(4))
        self.port = int.from_bytes(f.read(2), "big")

    def serialize(self, *, with_time=True):
        """Serialize in addrv1 format (pre-BIP155)"""
        assert_equal(self.net, self.NET_IPV4)
        r = b""
        if with_time:
            # VERSION messages serialize CAddress objects without time
            r += self.time.to_bytes(4, "little")
        r += self.nServices.to_bytes(8, "little")
        r += b"\x00" * 10 + b"\xff" * 2
        r += socket.inet_aton(self.ip)
        r += self.port.to_bytes(2, "big")
        return r

    def deserialize_v2(self, f):
        """Deserialize from addrv2 format (BIP155)"""
        self.time = int.from_bytes(f.read(4), "little")

        self.nServices = deser_compact_size(f)

        self.net = int.from_bytes(f.read(1), "little")
        assert self.net in self.ADDRV2_NET_NAME

        address_length = deser_compact_size(f)
        assert_equal(address_length, self.ADDRV2_ADDRESS_LENGTH[self.net])

        addr_bytes = f.read(address_length)
        if self.net == self.NET_IPV4:
            self.ip = socket.inet_ntoa(addr_bytes)
        elif self.net == self.NET_IPV6:
            self.ip = socket.inet_ntop(socket.AF_INET6, addr_bytes)
        elif self.net == self.NET_TORV3:
            prefix = b".onion checksum"
            version = bytes([3])
            checksum = sha3(prefix + addr_bytes + version)[:2]
            self.ip = b32encode(addr_bytes + checksum + version).decode("ascii").lower() + ".onion"
        elif self.net == self.NET_I2P:
            self.ip = b32encode(addr_bytes)[0:-len(self.I2P_PAD)].decode("ascii").lower() + ".b32.i2p"
        elif self.net == self.NET_CJDNS:
            self.ip = socket.inet_ntop(socket.AF_INET6, addr_bytes)
        else:
            raise Exception("Address type not supported")

        self.port = int.from_bytes(f.read(2), "big")

    def serialize_v2(self):
        """Serialize in addrv2 format (BIP155)"""
        assert self.net in self.ADDRV2_NET_NAME
        r = b""
        r += self.time.to_bytes(4, "little")
        r += ser_compact_size(self.nServices)
        r += self.net.to_bytes(1, "little")
        r += ser_compact_size(self.ADDRV2_ADDRESS_LENGTH[self.net])
        if self.net == self.NET_IPV4:
            r += socket.inet_aton(self.ip)
        elif self.net == self.NET_IPV6:
            r += socket.inet_pton(socket.AF_INET6, self.ip)
        elif self.net == self.NET_TORV3:
            sfx = ".onion"
            assert self.ip.endswith(sfx)
            r += b32decode(self.ip[0:-len(sfx)], True)[0:32]
        elif self.net == self.NET_I2P:
            sfx = ".b32.i2p"
            assert self.ip.endswith(sfx)
            r += b32decode(self.ip[0:-len(sfx)] + self.I2P_PAD, True)
        elif self.net == self.NET_CJDNS:
            r += socket.inet_pton(socket.AF_INET6, self.ip)
        else:
            raise Exception("Address type not supported")
        r += self.port.to_bytes(2, "big")
        return r

    def __repr__(self):
        return ("CAddress(nServices=%i net=%s addr=%s port=%i)"
                % (self.nServices, self.ADDRV2_NET_NAME[self.net], self.ip, self.port))


class CInv:
    __slots__ = ("hash", "type")

    typemap = {
        0: "Error",
        MSG_TX: "TX",
        MSG_BLOCK: "Block",
        MSG_TX | MSG_WITNESS_FLAG: "WitnessTx",
        MSG_BLOCK | MSG_WITNESS_FLAG: "WitnessBlock",
        MSG_FILTERED_BLOCK: "filtered Block",
        MSG_CMPCT_BLOCK: "CompactBlock",
        MSG_WTX: "WTX",
    }

    def __init__(self, t=0, h=0):
        self.type = t
        self.hash = h

    def deserialize(self, f):
        self.type = int.from_bytes(f.read(4), "little")
        self.hash = deser_uint256(f)

    def serialize(self):
        r = b""
        r += self.type.to_bytes(4, "little")
        r += ser_uint256(self.hash)
        return r

    def __repr__(self):
        return "CInv(type=%s hash=%064x)" \
            % (self.typemap[self.type], self.hash)

    def __eq__(self, other):
        return isinstance(other, CInv) and self.hash == other.hash and self.type == other.type


class CBlockLocator:
    __slots__ = ("nVersion", "vHave")

    def __init__(self):
        self.vHave = []

    def deserialize(self, f):
        int.from_bytes(f.read(4), "little", signed=True)  # Ignore version field.
        self.vHave = deser_uint256_vector(f)

    def serialize(self):
        r = b""
        r += (0).to_bytes(4, "little", signed=True)  # Bitcoin Core ignores the version field. Set it to 0.
        r += ser_uint256_vector(self.vHave)
        return r

    def __repr__(self):
        return "CBlockLocator(vHave=%s)" % (repr(self.vHave))


class COutPoint:
    __slots__ = ("hash", "n")

    def __init__(self, hash=0, n=0):
        self.hash = hash
        self.n = n

    def deserialize(self, f):
        self.hash = deser_uint256(f)
        self.n = int.from_bytes(f.read(4), "little")

    def serialize(self):
        r = b""
        r += ser_uint256(self.hash)
        r += self.n.to_bytes(4, "little")
        return r

    def __repr__(self):
        return "COutPoint(hash=%064x n=%i)" % (self.hash, self.n)


class CTxIn:
    __slots__ = ("nSequence", "prevout", "scriptSig")

    def __init__(self, outpoint=None, scriptSig=b"", nSequence=0):
        if outpoint is None:
            self.prevout = COutPoint()
        else:
            self.prevout = outpoint
        self.scriptSig = scriptSig
        self.nSequence = nSequence

    def deserialize(self, f):
        self.prevout = COutPoint()
        self.prevout.deserialize(f)
        self.scriptSig = deser_string(f)
        self.nSequence = int.from_bytes(f.read(4), "little")

    def serialize(self):
        r = b""
        r += self.prevout.serialize()
        r += ser_string(self.scriptSig)
        r += self.nSequence.to_bytes(4, "little")
        return r

    def __repr__(self):
        return "CTxIn(prevout=%s scriptSig=%s nSequence=%i)" \
            % (repr(self.prevout), self.scriptSig.hex(),
               self.nSequence)


class CTxOut:
    __slots__ = ("nValue", "scriptPubKey")

    def __init__(self, nValue=0, scriptPubKey=b""):
        self.nValue = nValue
        self.scriptPubKey = scriptPubKey

    def deserialize(self, f):
        self.nValue = int.from_bytes(f.read(8), "little", signed=True)
        self.scriptPubKey = deser_string(f)

    def serialize(self):
        r = b""
        r += self.nValue.to_bytes(8, "little", signed=True)
        r += ser_string(self.scriptPubKey)
        return r

    def __repr__(self):
        return "CTxOut(nValue=%i.%08i scriptPubKey=%s)" \
            % (self.nValue // COIN, self.nValue % COIN,
               self.scriptPubKey.hex())


class CScriptWitness:
    __slots__ = ("stack",)

    def __init__(self):
        # stack is a vector of strings
        self.stack = []

    def __repr__(self):
        return "CScriptWitness(%s)" % \
               (",".join([x.hex() for x in self.stack]))

    def is_null(self):
        if self.stack:
            return False
        return True


class CTxInWitness:
    __slots__ = ("scriptWitness",)

    def __init__(self):
        self.scriptWitness = CScriptWitness()

    def deserialize(self, f):
        self.scriptWitness.stack = deser_string_vector(f)

    def serialize(self):
        return ser_string_vector(self.scriptWitness.stack)

    def __repr__(self):
        return repr(self.scriptWitness)

    def is_null(self):
        return self.scriptWitness.is_null()


class CTxWitness:
    __slots__ = ("vtxinwit",)

    def __init__(self):
        self.vtxinwit = []

    def deserialize(self, f):
        for i in range(len(self.vtxinwit)):
            self.vtxinwit[i].deserialize(f)

    def serialize(self):
        r = b""
        # This is different than the usual vector serialization --
        # we omit the length of the vector, which is required to be
        # the same length as the transaction's vin vector.
        for x in self.vtxinwit:
            r += x.serialize()
        return r

    def __repr__(self):
        return "CTxWitness(%s)" % \
               (';'.join([repr(x) for x in self.vtxinwit]))

    def is_null(self):
        for x in self.vtxinwit:
            if not x.is_null():
                return False
        return True


class CTransaction:
    __slots__ = ("nLockTime", "version", "vin", "vout", "wit")

    def __init__(self, tx=None):
        if tx is None:
            self.version = 2
            self.vin = []
            self.vout = []
            self.wit = CTxWitness()
            self.nLockTime = 0
        else:
            self.version = tx.version
            self.vin = copy.deepcopy(tx.vin)
            self.vout = copy.deepcopy(tx.vout)
            self.nLockTime = tx.nLockTime
            self.wit = copy.deepcopy(tx.wit)

    def deserialize(self, f):
        self.version = int.from_bytes(f.read(4), "little")
        self.vin = deser_vector(f, CTxIn)
        flags = 0
        if len(self.vin) == 0:
            flags = int.from_bytes(f.read(1), "little")
            # Not sure why flags can't be zero, but this
            # matches the implementation in bitcoind
            if (flags != 0):
                self.vin = deser_vector(f, CTxIn)
                self.vout = deser_vector(f, CTxOut)
        else:
            self.vout = deser_vector(f, CTxOut)
        if flags != 0:
            self.wit.vtxinwit = [CTxInWitness() for _ in range(len(self.vin))]
            self.wit.deserialize(f)
        else:
            self.wit = CTxWitness()
        self.nLockTime = int.from_bytes(f.read(4), "little")

    def serialize_without_witness(self):
        r = b""
        r += self.version.to_bytes(4, "little")
        r += ser_vector(self.vin)
        r += ser_vector(self.vout)
        r += self.nLockTime.to_bytes(4, "little")
        return r

    # Only serialize with witness when explicitly called for
    def serialize_with_witness(self):
        flags = 0
        if not self.wit.is_null():
            flags |= 1
        r = b""
        r += self.version.to_bytes(4, "little")
        if flags:
            dummy = []
            r += ser_vector(dummy)
            r += flags.to_bytes(1, "little")
        r += ser_vector(self.vin)
        r += ser_vector(self.vout)
        if flags & 1:
            if (len(self.wit.vtxinwit) != len(self.vin)):
                # vtxinwit must have the same length as vin
                self.wit.vtxinwit = self.wit.vtxinwit[:len(self.vin)]
                for _ in range(len(self.wit.vtxinwit), len(self.vin)):
                    self.wit.vtxinwit.append(CTxInWitness())
            r += self.wit.serialize()
        r += self.nLockTime.to_bytes(4, "little")
        return r

    # Regular serialization is with witness -- must explicitly
    # call serialize_without_witness to exclude witness data.
    def serialize(self):
        return self.serialize_with_witness()

    @property
    def wtxid(self):
        """Return wtxid (transaction hash with witness) as little-endian bytes."""
        return hash256(self.serialize_with_witness())

    @property
    def wtxid_hex(self):
        """Return wtxid (transaction hash with witness) as hex string."""
        return self.wtxid[::-1].hex()

    @property
    def wtxid_int(self):
        """Return wtxid (transaction hash with witness) as integer."""
        return uint256_from_str(self.wtxid)

    @property
    def txid(self):
        """Return txid (transaction hash without witness) as little-endian bytes."""
        return hash256(self.serialize_without_witness())

    @property
    def txid_hex(self):
        """Return txid (transaction hash without witness) as hex string."""
        return self.txid[::-1].hex()

    @property
    def txid_int(self):
        """Return txid (transaction hash without witness) as integer."""
        return uint256_from_str(self.txid)

    def is_valid(self):
        for tout in self.vout:
            if tout.nValue < 0 or tout.nValue > 21000000 * COIN:
                return False
        return True

    # Calculate the transaction weight using witness and non-witness
    # serialization size (does NOT use sigops).
    def get_weight(self):
        with_witness_size = len(self.serialize_with_witness())
        without_witness_size = len(self.serialize_without_witness())
        return (WITNESS_SCALE_FACTOR - 1) * without_witness_size + with_witness_size

    def get_vsize(self):
        return math.ceil(self.get_weight() / WITNESS_SCALE_FACTOR)

    def __repr__(self):
        return "CTransaction(version=%i vin=%s vout=%s wit=%s nLockTime=%i)" \
            % (self.version, repr(self.vin), repr(self.vout), repr(self.wit), self.nLockTime)


class CBlockHeader:
    __slots__ = ("hashMerkleRoot", "hashPrevBlock", "nBits", "nNonce",
                 "nTime", "nVersion")

    def __init__(self, header=None):
        if header is None:
            self.set_null()
        else:
            self.nVersion = header.nVersion
            self.hashPrevBlock = header.hashPrevBlock
            self.hashMerkleRoot = header.hashMerkleRoot
            self.nTime = header.nTime
            self.nBits = header.nBits
            self.nNonce = header.nNonce

    def set_null(self):
        self.nVersion = 4
        self.hashPrevBlock = 0
        self.hashMerkleRoot = 0
        self.nTime = 0
        self.nBits = 0
        self.nNonce = 0

    def deserialize(self, f):
        self.nVersion = int.from_bytes(f.read(4), "little", signed=True)
        self.hashPrevBlock = deser_uint256(f)
        self.hashMerkleRoot = deser_uint256(f)
        self.nTime = int.from_bytes(f.read(4), "little")
        self.nBits = int.from_bytes(f.read(4), "little")
        self.nNonce = int.from_bytes(f.read(4), "little")

    def serialize(self):
        return self._serialize_header()

    def _serialize_header(self):
        r = b""
        r += self.nVersion.to_bytes(4, "little", signed=True)
        r += ser_uint256(self.hashPrevBlock)
        r += ser_uint256(self.hashMerkleRoot)
        r += self.nTime.to_bytes(4, "little")
        r += self.nBits.to_bytes(4, "little")
        r += self.nNonce.to_bytes(4, "little")
        return r

    @property
    def hash_hex(self):
        """Return block header hash as hex string."""
        return hash256(self._serialize_header())[::-1].hex()

    @property
    def hash_int(self):
        """Return block header hash as integer."""
        return uint256_from_str(hash256(self._serialize_header()))

    def __repr__(self):
        return "CBlockHeader(nVersion=%i hashPrevBlock=%064x hashMerkleRoot=%064x nTime=%s nBits=%08x nNonce=%08x)" \
            % (self.nVersion, self.hashPrevBlock, self.hashMerkleRoot,
               time.ctime(self.nTime), self.nBits, self.nNonce)

BLOCK_HEADER_SIZE = len(CBlockHeader().serialize())
assert_equal(BLOCK_HEADER_SIZE, 80)

class CBlock(CBlockHeader):
    __slots__ = ("vtx",)

    def __init__(self, header=None):
        super().__init__(header)
        self.vtx = []

    def deserialize(self, f):
        super().deserialize(f)
        self.vtx = deser_vector(f, CTransaction)

    def serialize(self, with_witness=True):
        r = b""
        r += super().serialize()
        if with_witness:
            r += ser_vector(self.vtx, "serialize_with_witness")
        else:
            r += ser_vector(self.vtx, "serialize_without_witness")
        return r

    # Calculate the merkle root given a vector of transaction hashes
    @classmethod
    def get_merkle_root(cls, hashes):
        while len(hashes) > 1:
            newhashes = []
            for i in range(0, len(hashes), 2):
                i2 = min(i+1, len(hashes)-1)
                newhashes.append(hash256(hashes[i] + hashes[i2]))
            hashes = newhashes
        return uint256_from_str(hashes[0])

    def calc_merkle_root(self):
        hashes = []
        for tx in self.vtx:
            hashes.append(ser_uint256(tx.txid_int))
        return self.get_merkle_root(hashes)

    def calc_witness_merkle_root(self):
        # For witness root purposes, the hash of the
        # coinbase, with witness, is defined to be 0...0
        hashes = [ser_uint256(0)]

        for tx in self.vtx[1:]:
            # Calculate the hashes with witness data
            hashes.append(ser_uint256(tx.wtxid_int))

        return self.get_merkle_root(hashes)

    def is_valid(self):
        target = uint256_from_compact(self.nBits)
        if self.hash_int > target:
            return False
        for tx in self.vtx:
            if not tx.is_valid():
                return False
        if self.calc_merkle_root() != self.hashMerkleRoot:
            return False
        return True

    def solve(self):
        target = uint256_from_compact(self.nBits)
        while self.hash_int > target:
            self.nNonce += 1

    # Calculate the block weight using witness and non-witness
    # serialization size (does NOT use sigops).
    def get_weight(self):
        with_witness_size = len(self.serialize(with_witness=True))
        without_witness_size = len(self.serialize(with_witness=False))
        return (WITNESS_SCALE_FACTOR - 1) * without_witness_size + with_witness_size

    def __repr__(self):
        return "CBlock(nVersion=%i hashPrevBlock=%064x hashMerkleRoot=%064x nTime=%s nBits=%08x nNonce=%08x vtx=%s)" \
            % (self.nVersion, self.hashPrevBlock, self.hashMerkleRoot,
               time.ctime(self.nTime), self.nBits, self.nNonce, repr(self.vtx))


class PrefilledTransaction:
    __slots__ = ("index", "tx")

    def __init__(self, index=0, tx = None):
        self.index = index
        self.tx = tx

    def deserialize(self, f):
        self.index = deser_compact_size(f)
        self.tx = CTransaction()
        self.tx.deserialize(f)

    def serialize(self, with_witness=True):
        r = b""
        r += ser_compact_size(self.index)
        if with_witness:
            r += self.tx.serialize_with_witness()
        else:
            r += self.tx.serialize_without_witness()
        return r

    def serialize_without_witness(self):
        return self.serialize(with_witness=False)

    def serialize_with_witness(self):
        return self.serialize(with_witness=True)

    def __repr__(self):
        return "PrefilledTransaction(index=%d, tx=%s)" % (self.index, repr(self.tx))


# This is what we send on the wire, in a cmpctblock message.
class P2PHeaderAndShortIDs:
    __slots__ = ("header", "nonce", "prefilled_txn", "prefilled_txn_length",
                 "shortids", "shortids_length")

    def __init__(self):
        self.header = CBlockHeader()
        self.nonce = 0
        self.shortids_length = 0
        self.shortids = []
        self.prefilled_txn_length = 0
        self.prefilled_txn = []

    def deserialize(self, f):
        self.header.deserialize(f)
        self.nonce = int.from_bytes(f.read(8), "little")
        self.shortids_length = deser_compact_size(f)
        for _ in range(self.shortids_length):
            # shortids are defined to be 6 bytes in the spec, so append
            # two zero bytes and read it in as an 8-byte number
            self.shortids.append(int.from_bytes(f.read(6) + b'\x00\x00', "little"))
        self.prefilled_txn = deser_vector(f, PrefilledTransaction)
        self.prefilled_txn_length = len(self.prefilled_txn)

    # When using version 2 compact blocks, we must serialize with_witness.
    def serialize(self, with_witness=False):
        r = b""
        r += self.header.serialize()
        r += self.nonce.to_bytes(8, "little")
        r += ser_compact_size(self.shortids_length)
        for x in self.shortids:
            # We only want the first 6 bytes
            r += x.to_bytes(8, "little")[0:6]
        if with_witness:
            r += ser_vector(self.prefilled_txn, "serialize_with_witness")
        else:
            r += ser_vector(self.prefilled_txn, "serialize_without_witness")
        return r

    def __repr__(self):
        return "P2PHeaderAndShortIDs(header=%s, nonce=%d, shortids_length=%d, shortids=%s, prefilled_txn_length=%d, prefilledtxn=%s" % (repr(self.header), self.nonce, self.shortids_length, repr(self.shortids), self.prefilled_txn_length, repr(self.prefilled_txn))


# P2P version of the above that will use witness serialization (for compact
# block version 2)
class P2PHeaderAndShortWitnessIDs(P2PHeaderAndShortIDs):
    __slots__ = ()
    def serialize(self):
        return super().serialize(with_witness=True)

# Calculate the BIP 152-compact blocks shortid for a given transaction hash
def calculate_shortid(k0, k1, tx_hash):
    expected_shortid = siphash256(k0, k1, tx_hash)
    expected_shortid &= 0x0000ffffffffffff
    return expected_shortid


# This version gets rid of the array lengths, and reinterprets the differential
# encoding into indices that can be used for lookup.
class HeaderAndShortIDs:
    __slots__ = ("header", "nonce", "prefilled_txn", "shortids", "use_witness")

    def __init__(self, p2pheaders_and_shortids = None):
        self.header = CBlockHeader()
        self.nonce = 0
        self.shortids = []
        self.prefilled_txn = []
        self.use_witness = False

        if p2pheaders_and_shortids is not None:
            self.header = p2pheaders_and_shortids.header
            self.nonce = p2pheaders_and_shortids.nonce
            self.shortids = p2pheaders_and_shortids.shortids
            last_index = -1
            for x in p2pheaders_and_shortids.prefilled_txn:
                self.prefilled_txn.append(PrefilledTransaction(x.index + last_index + 1, x.tx))
                last_index = self.prefilled_txn[-1].index

    def to_p2p(self):
        if self.use_witness:
            ret = P2PHeaderAndShortWitnessIDs()
        else:
            ret = P2PHeaderAndShortIDs()
        ret.header = self.header
        ret.nonce = self.nonce
        ret.shortids_length = len(self.shortids)
        ret.shortids = self.shortids
        ret.prefilled_txn_length = len(self.prefilled_txn)
        ret.prefilled_txn = []
        last_index = -1
        for x in self.prefilled_txn:
            ret.prefilled_txn.append(PrefilledTransaction(x.index - last_index - 1, x.tx))
            last_index = x.index
        return ret

    def get_siphash_keys(self):
        header_nonce = self.header.serialize()
        header_nonce += self.nonce.to_bytes(8, "little")
        hash_header_nonce_as_str = sha256(header_nonce)
        key0 = int.from_bytes(hash_header_nonce_as_str[0:8], "little")
        key1 = int.from_bytes(hash_header_nonce_as_str[8:16], "little")
        return [ key0, key1 ]

    # Version 2 compact blocks use wtxid in shortids (rather than txid)
    def initialize_from_block(self, block, nonce=0, prefill_list=None, use_witness=False):
        if prefill_list is None:
            prefill_list = [0]
        self.header = CBlockHeader(block)
        self.nonce = nonce
        self.prefilled_txn = [ PrefilledTransaction(i, block.vtx[i]) for i in prefill_list ]
        self.shortids = []
        self.use_witness = use_witness
        [k0, k1] = self.get_siphash_keys()
        for i in range(len(block.vtx)):
            if i not in prefill_list:
                tx_hash = block.vtx[i].txid_int
                if use_witness:
                    tx_hash = block.vtx[i].wtxid_int
                self.shortids.append(calculate_shortid(k0, k1, tx_hash))

    def __repr__(self):
        return "HeaderAndShortIDs(header=%s, nonce=%d, shortids=%s, prefilledtxn=%s" % (repr(self.header), self.nonce, repr(self.shortids), repr(self.prefilled_txn))


class BlockTransactionsRequest:
    __slots__ = ("blockhash", "indexes")

    def __init__(self, blockhash=0, indexes = None):
        self.blockhash = blockhash
        self.indexes = indexes if indexes is not None else []

    def deserialize(self, f):
        self.blockhash = deser_uint256(f)
        indexes_length = deser_compact_size(f)
        for _ in range(indexes_length):
            self.indexes.append(deser_compact_size(f))

    def serialize(self):
        r = b""
        r += ser_uint256(self.blockhash)
        r += ser_compact_size(len(self.indexes))
        for x in self.indexes:
            r += ser_compact_size(x)
        return r

    # helper to set the differentially encoded indexes from absolute ones
    def from_absolute(self, absolute_indexes):
        self.indexes = []
        last_index = -1
        for x in absolute_indexes:
            self.indexes.append(x-last_index-1)
            last_index = x

    def to_absolute(self):
        absolute_indexes = []
        last_index = -1
        for x in self.indexes:
            absolute_indexes.append(x+last_index+1)
            last_index = absolute_indexes[-1]
        return absolute_indexes

    def __repr__(self):
        return "BlockTransactionsRequest(hash=%064x indexes=%s)" % (self.blockhash, repr(self.indexes))


class BlockTransactions:
    __slots__ = ("blockhash", "transactions")

    def __init__(self, blockhash=0, transactions = None):
        self.blockhash = blockhash
        self.transactions = transactions if transactions is not None else []

    def deserialize(self, f):
        self.blockhash = deser_uint256(f)
        self.transactions = deser_vector(f, CTransaction)

    def serialize(self, with_witness=True):
        r = b""
        r += ser_uint256(self.blockhash)
        if with_witness:
            r += ser_vector(self.transactions, "serialize_with_witness")
        else:
            r += ser_vector(self.transactions, "serialize_without_witness")
        return r

    def __repr__(self):
        return "BlockTransactions(hash=%064x transactions=%s)" % (self.blockhash, repr(self.transactions))


class CPartialMerkleTree:
    __slots__ = ("nTransactions", "vBits", "vHash")

    def __init__(self):
        self.nTransactions = 0
        self.vHash = []
        self.vBits = []

    def deserialize(self, f):
        self.nTransactions = int.from_bytes(f.read(4), "little")
        self.vHash = deser_uint256_vector(f)
        vBytes = deser_string(f)
        self.vBits = []
        for i in range(len(vBytes) * 8):
            self.vBits.append(vBytes[i//8] & (1 << (i % 8)) != 0)

    def serialize(self):
        r = b""
        r += self.nTransactions.to_bytes(4, "little")
        r += ser_uint256_vector(self.vHash)
        vBytesArray = bytearray([0x00] * ((len(self.vBits) + 7)//8))
        for i in range(len(self.vBits)):
            vBytesArray[i // 8] |= self.vBits[i] << (i % 8)
        r += ser_string(bytes(vBytesArray))
        return r

    def __repr__(self):
        return "CPartialMerkleTree(nTransactions=%d, vHash=%s, vBits=%s)" % (self.nTransactions, repr(self.vHash), repr(self.vBits))


class CMerkleBlock:
    __slots__ = ("header", "txn")

    def __init__(self):
        self.header = CBlockHeader()
        self.txn = CPartialMerkleTree()

    def deserialize(self, f):
        self.header.deserialize(f)
        self.txn.deserialize(f)

    def serialize(self):
        r = b""
        r += self.header.serialize()
        r += self.txn.serialize()
        return r

    def __repr__(self):
        return "CMerkleBlock(header=%s, txn=%s)" % (repr(self.header), repr(self.txn))


# Objects that correspond to messages on the wire
class msg_version:
    __slots__ = ("addrFrom", "addrTo", "nNonce", "relay", "nServices",
                 "nStartingHeight", "nTime", "nVersion", "strSubVer")
    msgtype = b"version"

    def __init__(self):
        self.nVersion = 0
        self.nServices = 0
        self.nTime = int(time.time())
        self.addrTo = CAddress()
        self.addrFrom = CAddress()
        self.nNonce = random.getrandbits(64)
        self.strSubVer = ''
        self.nStartingHeight = -1
        self.relay = 0

    def deserialize(self, f):
        self.nVersion = int.from_bytes(f.read(4), "little", signed=True)
        self.nServices = int.from_bytes(f.read(8), "little")
        self.nTime = int.from_bytes(f.read(8), "little", signed=True)
        self.addrTo = CAddress()
        self.addrTo.deserialize(f, with_time=False)

        self.addrFrom = CAddress()
        self.addrFrom.deserialize(f, with_time=False)
        self.nNonce = int.from_bytes(f.read(8), "little")
        self.strSubVer = deser_string(f).decode('utf-8')

        self.nStartingHeight = int.from_bytes(f.read(4), "little", signed=True)

        # Relay field is optional for version 70001 onwards
        # But, unconditionally check it to match behaviour in bitcoind
        self.relay = int.from_bytes(f.read(1), "little")  # f.read(1) may return an empty b''

    def serialize(self):
        r = b""
        r += self.nVersion.to_bytes(4, "little", signed=True)
        r += self.nServices.to_bytes(8, "little")
        r += self.nTime.to_bytes(8, "little", signed=True)
        r += self.addrTo.serialize(with_time=False)
        r += self.addrFrom.serialize(with_time=False)
        r += self.nNonce.to_bytes(8, "little")
        r += ser_string(self.strSubVer.encode('utf-8'))
        r += self.nStartingHeight.to_bytes(4, "little", signed=True)
        r += self.relay.to_bytes(1, "little")
        return r

    def __repr__(self):
        return 'msg_version(nVersion=%i nServices=%i nTime=%s addrTo=%s addrFrom=%s nNonce=0x%016X strSubVer=%s nStartingHeight=%i relay=%i)' \
            % (self.nVersion, self.nServices, time.ctime(self.nTime),
               repr(self.addrTo), repr(self.addrFrom), self.nNonce,
               self.strSubVer, self.nStartingHeight, self.relay)


class msg_verack:
    __slots__ = ()
    msgtype = b"verack"

    def __init__(self):
        pass

    def deserialize(self, f):
        pass

    def serialize(self):
        return b""

    def __repr__(self):
        return "msg_verack()"


class msg_addr:
    __slots__ = ("addrs",)
    msgtype = b"addr"

    def __init__(self):
        self.addrs = []

    def deserialize(self, f):
        self.addrs = deser_vector(f, CAddress)

    def serialize(self):
        return ser_vector(self.addrs)

    def __repr__(self):
        return "msg_addr(addrs=%s)" % (repr(self.addrs))


class msg_addrv2:
    __slots__ = ("addrs",)
    msgtype = b"addrv2"

    def __init__(self):
        self.addrs = []

    def deserialize(self, f):
        self.addrs = deser_vector(f, CAddress, "deserialize_v2")

    def serialize(self):
        return ser_vector(self.addrs, "serialize_v2")

    def __repr__(self):
        return "msg_addrv2(addrs=%s)" % (repr(self.addrs))


class msg_sendaddrv2:
    __slots__ = ()
    msgtype = b"sendaddrv2"

    def __init__(self):
        pass

    def deserialize(self, f):
        pass

    def serialize(self):
        return b""

    def __repr__(self):
        return "msg_sendaddrv2()"


class msg_inv:
    __slots__ = ("inv",)
    msgtype = b"inv"

    def __init__(self, inv=None):
        if inv is None:
            self.inv = []
        else:
            self.inv = inv

    def deserialize(self, f):
        self.inv = deser_vector(f, CInv)

    def serialize(self):
        return ser_vector(self.inv)

    def __repr__(self):
        return "msg_inv(inv=%s)" % (repr(self.inv))


class msg_getdata:
    __slots__ = ("inv",)
    msgtype = b"getdata"

    def __init__(self, inv=None):
        self.inv = inv if inv is not None else []

    def deserialize(self, f):
        self.inv = deser_vector(f, CInv)

    def serialize(self):
        return ser_vector(self.inv)

    def __repr__(self):
        return "msg_getdata(inv=%s)" % (repr(self.inv))


class msg_getblocks:
    __slots__ = ("locator", "hashstop")
    msgtype = b"getblocks"

    def __init__(self):
        self.locator = CBlockLocator()
        self.hashstop = 0

    def deserialize(self, f):
        self.locator = CBlockLocator()
        self.locator.deserialize(f)
        self.hashstop = deser_uint256(f)

    def serialize(self):
        r = b""
        r += self.locator.serialize()
        r += ser_uint256(self.hashstop)
        return r

    def __repr__(self):
        return "msg_getblocks(locator=%s hashstop=%064x)" \
            % (repr(self.locator), self.hashstop)


class msg_tx:
    __slots__ = ("tx",)
    msgtype = b"tx"

    def __init__(self, tx=None):
        if tx is None:
            self.tx = CTransaction()
        else:
            self.tx = tx

    def deserialize(self, f):
        self.tx.deserialize(f)

    def serialize(self):
        return self.tx.serialize_with_witness()

    def __repr__(self):
        return "msg_tx(tx=%s)" % (repr(self.tx))

class msg_wtxidrelay:
    __slots__ = ()
    msgtype = b"wtxidrelay"

    def __init__(self):
        pass

    def deserialize(self, f):
        pass

    def serialize(self):
        return b""

    def __repr__(self):
        return "msg_wtxidrelay()"


class msg_no_witness_tx(msg_tx):
    __slots__ = ()

    def serialize(self):
        return self.tx.serialize_without_witness()


class msg_block:
    __slots__ = ("block",)
    msgtype = b"block"

    def __init__(self, block=None):
        if block is None:
            self.block = CBlock()
        else:
            self.block = block

    def deserialize(self, f):
        self.block.deserialize(f)

    def serialize(self):
        return self.block.serialize()

    def __repr__(self):
        return "msg_block(block=%s)" % (repr(self.block))


# Generic type to control the raw bytes sent over the wire.
# The msgtype and the data must be provided.
class msg_generic:
    __slots__ = ("msgtype", "data")

    def __init__(self, msgtype, data=None):
        self.msgtype = msgtype
        self.data = data

    def serialize(self):
        return self.data

    def __repr__(self):
        return "msg_generic()"


class msg_no_witness_block(msg_block):
    __slots__ = ()
    def serialize(self):
        return self.block.serialize(with_witness=False)


class msg_getaddr:
    __slots__ = ()
    msgtype = b"getaddr"

    def __init__(self):
        pass

    def deserialize(self, f):
        pass

    def serialize(self):
        return b""

    def __repr__(self):
        return "msg_getaddr()"


class msg_ping:
    __slots__ = ("nonce",)
    msgtype = b"ping"

    def __init__(self, nonce=0):
        self.nonce = nonce

    def deserialize(self, f):
        self.nonce = int.from_bytes(f.read(8), "little")

    def serialize(self):
        r = b""
        r += self.nonce.to_bytes(8, "little")
        return r

    def __repr__(self):
        return "msg_ping(nonce=%08x)" % self.nonce


class msg_pong:
    __slots__ = ("nonce",)
    msgtype = b"pong"

    def __init__(self, nonce=0):
        self.nonce = nonce

    def deserialize(self, f):
        self.nonce = int.from_bytes(f.read(8), "little")

    def serialize(self):
        r = b""
        r += self.nonce.to_bytes(8, "little")
        return r

    def __repr__(self):
        return "msg_pong(nonce=%08x)" % self.nonce


class msg_mempool:
    __slots__ = ()
    msgtype = b"mempool"

    def __init__(self):
        pass

    def deserialize(self, f):
        pass

    def serialize(self):
        return b""

    def __repr__(self):
        return "msg_mempool()"


class msg_notfound:
    __slots__ = ("vec", )
    msgtype = b"notfound"

    def __init__(self, vec=None):
        self.vec = vec or []

    def deserialize(self, f):
        self.vec = deser_vector(f, CInv)

    def serialize(self):
        return ser_vector(self.vec)

    def __repr__(self):
        return "msg_notfound(vec=%s)" % (repr(self.vec))


class msg_sendheaders:
    __slots__ = ()
    msgtype = b"sendheaders"

    def __init__(self):
        pass

    def deserialize(self, f):
        pass

    def serialize(self):
        return b""

    def __repr__(self):
        return "msg_sendheaders()"


# getheaders message has
# number of entries
# vector of hashes
# hash_stop (hash of last desired block header, 0 to get as many as possible)
class msg_getheaders:
    __slots__ = ("hashstop", "locator",)
    msgtype = b"getheaders"

    def __init__(self):
        self.locator = CBlockLocator()
        self.hashstop = 0

    def deserialize(self, f):
        self.locator = CBlockLocator()
        self.locator.deserialize(f)
        self.hashstop = deser_uint256(f)

    def serialize(self):
        r = b""
        r += self.locator.serialize()
        r += ser_uint256(self.hashstop)
        return r

    def __repr__(self):
        return "msg_getheaders(locator=%s, stop=%064x)" \
            % (repr(self.locator), self.hashstop)


# headers message has
# <count> <vector of block headers>
class msg_headers:
    __slots__ = ("headers",)
    msgtype = b"headers"

    def __init__(self, headers=None):
        self.headers = headers if headers is not None else []

    def deserialize(self, f):
        # comment in bitcoind indicates these should be deserialized as blocks
        blocks = deser_vector(f, CBlock)
        for x in blocks:
            self.headers.append(CBlockHeader(x))

    def serialize(self):
        blocks = [CBlock(x) for x in self.headers]
        return ser_vector(blocks)

    def __repr__(self):
        return "msg_headers(headers=%s)" % repr(self.headers)


class msg_merkleblock:
    __slots__ = ("merkleblock",)
    msgtype = b"merkleblock"

    def __init__(self, merkleblock=None):
        if merkleblock is None:
            self.merkleblock = CMerkleBlock()
        else:
            self.merkleblock = merkleblock

    def deserialize(self, f):
        self.merkleblock.deserialize(f)

    def serialize(self):
        return self.merkleblock.serialize()

    def __repr__(self):
        return "msg_merkleblock(merkleblock=%s)" % (repr(self.merkleblock))


class msg_filterload:
    __slots__ = ("data", "nHashFuncs", "nTweak", "nFlags")
    msgtype = b"filterload"

    def __init__(self, data=b'00', nHashFuncs=0, nTweak=0, nFlags=0):
        self.data = data
        self.nHashFuncs = nHashFuncs
        self.nTweak = nTweak
        self.nFlags = nFlags

    def deserialize(self, f):
        self.data = deser_string(f)
        self.nHashFuncs = int.from_bytes(f.read(4), "little")
        self.nTweak = int.from_bytes(f.read(4), "little")
        self.nFlags = int.from_bytes(f.read(1), "little")

    def serialize(self):
        r = b""
        r += ser_string(self.data)
        r += self.nHashFuncs.to_bytes(4, "little")
        r += self.nTweak.to_bytes(4, "little")
        r += self.nFlags.to_bytes(1, "little")
        return r

    def __repr__(self):
        return "msg_filterload(data={}, nHashFuncs={}, nTweak={}, nFlags={})".format(
            self.data, self.nHashFuncs, self.nTweak, self.nFlags)


class msg_filteradd:
    __slots__ = ("data")
    msgtype = b"filteradd"

    def __init__(self, data):
        self.data = data

    def deserialize(self, f):
        self.data = deser_string(f)

    def serialize(self):
        r = b""
        r += ser_string(self.data)
        return r

    def __repr__(self):
        return "msg_filteradd(data={})".format(self.data)


class msg_filterclear:
    __slots__ = ()
    msgtype = b"filterclear"

    def __init__(self):
        pass

    def deserialize(self, f):
        pass

    def serialize(self):
        return b""

    def __repr__(self):
        return "msg_filterclear()"


class msg_feefilter:
    __slots__ = ("feerate",)
    msgtype = b"feefilter"

    def __init__(self, feerate=0):
        self.feerate = feerate

    def deserialize(self, f):
        self.feerate = int.from_bytes(f.read(8), "little")

    def serialize(self):
        r = b""
        r += self.feerate.to_bytes(8, "little")
        return r

    def __repr__(self):
        return "msg_feefilter(feerate=%08x)" % self.feerate


class msg_sendcmpct:
    __slots__ = ("announce", "version")
    msgtype = b"sendcmpct"

    def __init__(self, announce=False, version=2):
        self.announce = announce
        self.version = version

    def deserialize(self, f):
        self.announce = bool(int.from_bytes(f.read(1), "little"))
        self.version = int.from_bytes(f.read(8), "little")

    def serialize(self):
        r = b""
        r += int(self.announce).to_bytes(1, "little")
        r += self.version.to_bytes(8, "little")
        return r

    def __repr__(self):
        return "msg_sendcmpct(announce=%s, version=%lu)" % (self.announce, self.version)


class msg_cmpctblock:
    __slots__ = ("header_and_shortids",)
    msgtype = b"cmpctblock"

    def __init__(self, header_and_shortids = None):
        self.header_and_shortids = header_and_shortids

    def deserialize(self, f):
        self.header_and_shortids = P2PHeaderAndShortIDs()
        self.header_and_shortids.deserialize(f)

    def serialize(self):
        r = b""
        r += self.header_and_shortids.serialize()
        return r

    def __repr__(self):
        return "msg_cmpctblock(HeaderAndShortIDs=%s)" % repr(self.header_and_shortids)


class msg_getblocktxn:
    __slots__ = ("block_txn_request",)
    msgtype = b"getblocktxn"

    def __init__(self):
        self.block_txn_request = None

    def deserialize(self, f):
        self.block_txn_request = BlockTransactionsRequest()
        self.block_txn_request.deserialize(f)

    def serialize(self):
        r = b""
        r += self.block_txn_request.serialize()
        return r

    def __repr__(self):
        return "msg_getblocktxn(block_txn_request=%s)" % (repr(self.block_txn_request))


class msg_blocktxn:
    __slots__ = ("block_transactions",)
    msgtype = b"blocktxn"

    def __init__(self):
        self.block_transactions = BlockTransactions()

    def deserialize(self, f):
        self.block_transactions.deserialize(f)

    def serialize(self):
        r = b""
        r += self.block_transactions.serialize()
        return r

    def __repr__(self):
        return "msg_blocktxn(block_transactions=%s)" % (repr(self.block_transactions))


class msg_no_witness_blocktxn(msg_blocktxn):
    __slots__ = ()

    def serialize(self):
        return self.block_transactions.serialize(with_witness=False)


class msg_getcfilters:
    __slots__ = ("filter_type", "start_height", "stop_hash")
    msgtype =  b"getcfilters"

    def __init__(self, filter_type=None, start_height=None, stop_hash=None):
        self.filter_type = filter_type
        self.start_height = start_height
        self.stop_hash = stop_hash

    def deserialize(self, f):
        self.filter_type = int.from_bytes(f.read(1), "little")
        self.start_height = int.from_bytes(f.read(4), "little")
        self.stop_hash = deser_uint256(f)

    def serialize(self):
        r = b""
        r += self.filter_type.to_bytes(1, "little")
        r += self.start_height.to_bytes(4, "little")
        r += ser_uint256(self.stop_hash)
        return r

    def __repr__(self):
        return "msg_getcfilters(filter_type={:#x}, start_height={}, stop_hash={:x})".format(
            self.filter_type, self.start_height, self.stop_hash)

class msg_cfilter:
    __slots__ = ("filter_type", "block_hash", "filter_data")
    msgtype =  b"cfilter"

    def __init__(self, filter_type=None, block_hash=None, filter_data=None):
        self.filter_type = filter_type
        self.block_hash = block_hash
        self.filter_data = filter_data

    def deserialize(self, f):
        self.filter_type = int.from_bytes(f.read(1), "little")
        self.block_hash = deser_uint256(f)
        self.filter_data = deser_string(f)

    def serialize(self):
        r = b""
        r += self.filter_type.to_bytes(1, "little")
        r += ser_uint256(self.block_hash)
        r += ser_string(self.filter_data)
        return r

    def __repr__(self):
        return "msg_cfilter(filter_type={:#x}, block_hash={:x})".format(
            self.filter_type, self.block_hash)

class msg_getcfheaders:
    __slots__ = ("filter_type", "start_height", "stop_hash")
    msgtype =  b"getcfheaders"

    def __init__(self, filter_type=None, start_height=None, stop_hash=None):
        self.filter_type = filter_type
        self.start_height = start_height
        self.stop_hash = stop_hash

    def deserialize(self, f):
        self.filter_type = int.from_bytes(f.read(1), "little")
        self.start_height = int.from_bytes(f.read(4), "little")
        self.stop_hash = deser_uint256(f)

    def serialize(self):
        r = b""
        r += self.filter_type.to_bytes(1, "little")
        r += self.start_height.to_bytes(4, "little")
        r += ser_uint256(self.stop_hash)
        return r

    def __repr__(self):
        return "msg_getcfheaders(filter_type={:#x}, start_height={}, stop_hash={:x})".format(
            self.filter_type, self.start_height, self.stop_hash)

class msg_cfheaders:
    __slots__ = ("filter_type", "stop_hash", "prev_header", "hashes")
    msgtype =  b"cfheaders"

    def __init__(self, filter_type=None, stop_hash=None, prev_header=None, hashes=None):
        self.filter_type = filter_type
        self.stop_hash = stop_hash
        self.prev_header = prev_header
        self.hashes = hashes

    def deserialize(self, f):
        self.filter_type = int.from_bytes(f.read(1), "little")
        self.stop_hash = deser_uint256(f)
        self.prev_header = deser_uint256(f)
        self.hashes = deser_uint256_vector(f)

    def serialize(self):
        r = b""
        r += self.filter_type.to_bytes(1, "little")
        r += ser_uint256(self.stop_hash)
        r += ser_uint256(self.prev_header)
        r += ser_uint256_vector(self.hashes)
        return r

    def __repr__(self):
        return "msg_cfheaders(filter_type={:#x}, stop_hash={:x})".format(
            self.filter_type, self.stop_hash)

class msg_getcfcheckpt:
    __slots__ = ("filter_type", "stop_hash")
    msgtype =  b"getcfcheckpt"

    def __init__(self, filter_type=None, stop_hash=None):
        self.filter_type = filter_type
        self.stop_hash = stop_hash

    def deserialize(self, f):
        self.filter_type = int.from_bytes(f.read(1), "little")
        self.stop_hash = deser_uint256(f)

    def serialize(self):
        r = b""
        r += self.filter_type.to_bytes(1, "little")
        r += ser_uint256(self.stop_hash)
        return r

    def __repr__(self):
        return "msg_getcfcheckpt(filter_type={:#x}, stop_hash={:x})".format(
            self.filter_type, self.stop_hash)

class msg_cfcheckpt:
    __slots__ = ("filter_type", "stop_hash", "headers")
    msgtype =  b"cfcheckpt"

    def __init__(self, filter_type=None, stop_hash=None, headers=None):
        self.filter_type = filter_type
        self.stop_hash = stop_hash
        self.headers = headers

    def deserialize(self, f):
        self.filter_type = int.from_bytes(f.read(1), "little")
        self.stop_hash = deser_uint256(f)
        self.headers = deser_uint256_vector(f)

    def serialize(self):
        r = b""
        r += self.filter_type.to_bytes(1, "little")
        r += ser_uint256(self.stop_hash)
        r += ser_uint256_vector(self.headers)
        return r

    def __repr__(self):
        return "msg_cfcheckpt(filter_type={:#x}, stop_hash={:x})".format(
            self.filter_type, self.stop_hash)

class msg_sendtxrcncl:
    __slots__ = ("version", "salt")
    msgtype = b"sendtxrcncl"

    def __init__(self):
        self.version = 0
        self.salt = 0

    def deserialize(self, f):
        self.version = int.from_bytes(f.read(4), "little")
        self.salt = int.from_bytes(f.read(8), "little")

    def serialize(self):
        r = b""
        r += self.version.to_bytes(4, "little")
        r += self.salt.to_bytes(8, "little")
        return r

    def __repr__(self):
        return "msg_sendtxrcncl(version=%lu, salt=%lu)" %\
            (self.version, self.salt)

class msg_feature:
    """FEATURE message for negotiating optional features."""
    __slots__ = ("feature_id", "feature_data")
    msgtype = b"feature"

    def __init__(self, feature_id="", feature_data=b""):
        self.feature_id = feature_id
        self.feature_data = feature_data

    def deserialize(self, f):
        self.feature_id = deser_string(f).decode()
        self.feature_data = deser_string(f)

    def serialize(self):
        r = ser_string(self.feature_id.encode())
        r += ser_string(self.feature_data)
        return r

    def __repr__(self):
        return f"msg_feature(feature_id={self.feature_id}, data={self.feature_data.hex()})"


class TestFrameworkScript(unittest.TestCase):
    def test_addrv2_encode_decode(self):
        def check_addrv2(ip, net):
            addr = CAddress()
            addr.net, addr.ip = net, ip
            ser = addr.serialize_v2()
            actual = CAddress()
            actual.deserialize_v2(BytesIO(ser))
            self.assertEqual(actual, addr)

        check_addrv2("1.65.195.98", CAddress.NET_IPV4)
        check_addrv2("2001:41f0::62:6974:636f:696e", CAddress.NET_IPV6)
        check_addrv2("2bqghnldu6mcug4pikzprwhtjjnsyederctvci6klcwzepnjd46ikjyd.onion", CAddress.NET_TORV3)
        check_addrv2("255fhcp6ajvftnyo7bwz3an3t4a4brhopm3bamyh2iu5r3gnr2rq.b32.i2p", CAddress.NET_I2P)
        check_addrv2("fc32:17ea:e415:c3bf:9808:149d:b5a2:c9aa", CAddress.NET_CJDNS)

    def test_varint_encode_decode(self):
        def check_varint(num, expected_encoding_hex):
            expected_encoding = bytes.fromhex(expected_encoding_hex)
            self.assertEqual(ser_varint(num), expected_encoding)
            self.assertEqual(deser_varint(BytesIO(expected_encoding)), num)

        # test cases from serialize_tests.cpp:varint_bitpatterns
        check_varint(0, "00")
        check_varint(0x7f, "7f")
        check_varint(0x80, "8000")
        check_varint(0x1234, "a334")
        check_varint(0xffff, "82fe7f")
        check_varint(0x123456, "c7e756")
        check_varint(0x80123456, "86ffc7e756")
        check_varint(0xffffffff, "8efefefe7f")
        check_varint(0xffffffffffffffff, "80fefefefefefefefe7f")
