#!/usr/bin/env python3
# Copyright (c) 2018-present The Bitcoin Core developers
# Distributed under the MIT software license, see the accompanying
# file COPYING or http://www.opensource.org/licenses/mit-license.php.
"""Useful util functions for testing the wallet"""
from collections import namedtuple
import unittest

from test_framework.address import (
    byte_to_base58,
    key_to_p2pkh,
    key_to_p2sh_p2wpkh,
    key_to_p2wpkh,
)
from test_framework.key import ECKey
from test_framework.messages import (
    CTxIn,
    CTxInWitness,
    WITNESS_SCALE_FACTOR,
)
from test_framework.script_util import (
    key_to_p2pkh_script,
    key_to_p2wpkh_script,
    script_to_p2sh_script,
)


Key = namedtuple('Key', ['privkey',
                         'pubkey',
                         'p2pkh_script',
                         'p2pkh_addr',
                         'p2wpkh_script',
                         'p2wpkh_addr',
                         'p2sh_p2wpkh_script',
                         'p2sh_p2wpkh_redeem_script',
                         'p2sh_p2wpkh_addr'])


def get_generate_key():
    """Generate a fresh key

    Returns a named tuple of privkey, pubkey and all address and scripts."""
    privkey, pubkey = generate_keypair(wif=True)
    return Key(privkey=privkey,
               pubkey=pubkey.hex(),
               p2pkh_script=key_to_p2pkh_script(pubkey).hex(),
               p2pkh_addr=key_to_p2pkh(pubkey),
               p2wpkh_script=key_to_p2wpkh_script(pubkey).hex(),
               p2wpkh_addr=key_to_p2wpkh(pubkey),
               p2sh_p2wpkh_script=script_to_p2sh_script(key_to_p2wpkh_script(pubkey)).hex(),
               p2sh_p2wpkh_redeem_script=key_to_p2wpkh_script(pubkey).hex(),
               p2sh_p2wpkh_addr=key_to_p2sh_p2wpkh(pubkey))


def test_address(node, address, **kwargs):
    """Get address info for `address` and test whether the returned values are as expected."""
    addr_info = node.getaddressinfo(address)
    for key, value in kwargs.items():
        if value is None:
            if key in addr_info.keys():
                raise AssertionError("key {} unexpectedly returned in getaddressinfo.".format(key))
        elif addr_info[key] != value:
            raise AssertionError("key {} value {} did not match expected value {}".format(key, addr_info[key], value))

def bytes_to_wif(b, compressed=True):
    if compressed:
        b += b'\x01'
    return byte_to_base58(b, 239)

def generate_keypair(compressed=True, wif=False):
    """Generate a new random keypair and return the corresponding ECKey /
    bytes objects. The private key can also be provided as WIF (wallet
    import format) string instead, which is often useful for wallet RPC
    interaction."""
    privkey = ECKey()
    privkey.generate(compressed)
    pubkey = privkey.get_pubkey().get_bytes()
    if wif:
        privkey = bytes_to_wif(privkey.get_bytes(), compressed)
    return privkey, pubkey

def calculate_input_weight(scriptsig_hex, witness_stack_hex=None):
    """Given a scriptSig and a list of witness stack items for an input in hex format,
       calculate the total input weight. If the input has no witness data,
       `witness_stack_hex` can be set to None."""
    tx_in = CTxIn(scriptSig=bytes.fromhex(scriptsig_hex))
    witness_size = 0
    if witness_stack_hex is not None:
        tx_inwit = CTxInWitness()
        for witness_item_hex in witness_stack_hex:
            tx_inwit.scriptWitness.stack.append(bytes.fromhex(witness_item_hex))
        witness_size = len(tx_inwit.serialize())
    return len(tx_in.serialize()) * WITNESS_SCALE_FACTOR + witness_size

class WalletUnlock():
    """
    A context manager for unlocking a wallet with a passphrase and automatically locking it afterward.
    """

    MAXIMUM_TIMEOUT = 999000

    def __init__(self, wallet, passphrase, timeout=MAXIMUM_TIMEOUT):
        self.wallet = wallet
        self.passphrase = passphrase
        self.timeout = timeout

    def __enter__(self):
        self.wallet.walletpassphrase(self.passphrase, self.timeout)

    def __exit__(self, *args):
        _ = args
        self.wallet.walletlock()


class TestFrameworkWalletUtil(unittest.TestCase):
    def test_calculate_input_weight(self):
        SKELETON_BYTES = 32 + 4 + 4  # prevout-txid, prevout-index, sequence
        SMALL_LEN_BYTES = 1  # bytes needed for encoding scriptSig / witness item lengths < 253
        LARGE_LEN_BYTES = 3  # bytes needed for encoding scriptSig / witness item lengths >= 253

        # empty scriptSig, no witness
        self.assertEqual(calculate_input_weight(""),
                         (SKELETON_BYTES + SMALL_LEN_BYTES) * WITNESS_SCALE_FACTOR)
        self.assertEqual(calculate_input_weight("", None),
                         (SKELETON_BYTES + SMALL_LEN_BYTES) * WITNESS_SCALE_FACTOR)
        # small scriptSig, no witness
        scriptSig_small = "00"*252
        self.assertEqual(calculate_input_weight(scriptSig_small, None),
                         (SKELETON_BYTES + SMALL_LEN_BYTES + 252) * WITNESS_SCALE_FACTOR)
        # small scriptSig, empty witness stack
        self.assertEqual(calculate_input_weight(scriptSig_small, []),
                         (SKELETON_BYTES + SMALL_LEN_BYTES + 252) * WITNESS_SCALE_FACTOR + SMALL_LEN_BYTES)
        # large scriptSig, no witness
        scriptSig_large = "00"*253
        self.assertEqual(calculate_input_weight(scriptSig_large, None),
                         (SKELETON_BYTES + LARGE_LEN_BYTES + 253) * WITNESS_SCALE_FACTOR)
        # large scriptSig, empty witness stack
        self.assertEqual(calculate_input_weight(scriptSig_large, []),
                         (SKELETON_BYTES + LARGE_LEN_BYTES + 253) * WITNESS_SCALE_FACTOR + SMALL_LEN_BYTES)
        # empty scriptSig, 5 small witness stack items
        self.assertEqual(calculate_input_weight("", ["00", "11", "22", "33", "44"]),
                         ((SKELETON_BYTES + SMALL_LEN_BYTES) * WITNESS_SCALE_FACTOR) + SMALL_LEN_BYTES + 5 * SMALL_LEN_BYTES + 5)
        # empty scriptSig, 253 small witness stack items
        self.assertEqual(calculate_input_weight("", ["00"]*253),
                         ((SKELETON_BYTES + SMALL_LEN_BYTES) * WITNESS_SCALE_FACTOR) + LARGE_LEN_BYTES + 253 * SMALL_LEN_BYTES + 253)
        # small scriptSig, 3 large witness stack items
        self.assertEqual(calculate_input_weight(scriptSig_small, ["00"*253]*3),
                         ((SKELETON_BYTES + SMALL_LEN_BYTES + 252) * WITNESS_SCALE_FACTOR) + SMALL_LEN_BYTES + 3 * LARGE_LEN_BYTES + 3*253)
        # large scriptSig, 3 large witness stack items
        self.assertEqual(calculate_input_weight(scriptSig_large, ["00"*253]*3),
                         ((SKELETON_BYTES + LARGE_LEN_BYTES + 253) * WITNESS_SCALE_FACTOR) + SMALL_LEN_BYTES + 3 * LARGE_LEN_BYTES + 3*253)
