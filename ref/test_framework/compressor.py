#!/usr/bin/env python3
# Copyright (c) 2025-present The Bitcoin Core developers
# Distributed under the MIT software license, see the accompanying
# file COPYING or http://www.opensource.org/licenses/mit-license.php.
"""Routines for compressing transaction output amounts and scripts."""
import unittest

from .messages import COIN


def compress_amount(n):
    if n == 0:
        return 0
    e = 0
    while ((n % 10) == 0) and (e < 9):
        n //= 10
        e += 1
    if e < 9:
        d = n % 10
        assert (d >= 1 and d <= 9)
        n //= 10
        return 1 + (n*9 + d - 1)*10 + e
    else:
        return 1 + (n - 1)*10 + 9


def decompress_amount(x):
    if x == 0:
        return 0
    x -= 1
    e = x % 10
    x //= 10
    n = 0
    if e < 9:
        d = (x % 9) + 1
        x //= 9
        n = x * 10 + d
    else:
        n = x + 1
    while e > 0:
        n *= 10
        e -= 1
    return n


class TestFrameworkCompressor(unittest.TestCase):
    def test_amount_compress_decompress(self):
        def check_amount(amount, expected_compressed):
            self.assertEqual(compress_amount(amount), expected_compressed)
            self.assertEqual(decompress_amount(expected_compressed), amount)

        # test cases from compress_tests.cpp:compress_amounts
        check_amount(0, 0x0)
        check_amount(1, 0x1)
        check_amount(1000000, 0x7)
        check_amount(COIN, 0x9)
        check_amount(50*COIN, 0x32)
        check_amount(21000000*COIN, 0x1406f40)
