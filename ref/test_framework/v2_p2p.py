#!/usr/bin/env python3
# Copyright (c) 2022-present The Bitcoin Core developers
# Distributed under the MIT software license, see the accompanying
# file COPYING or http://www.opensource.org/licenses/mit-license.php.
"""Class for v2 P2P protocol (see BIP 324)"""

import random

from .crypto.bip324_cipher import FSChaCha20Poly1305
from .crypto.chacha20 import FSChaCha20
from .crypto.ellswift import ellswift_create, ellswift_ecdh_xonly
from .crypto.hkdf import hkdf_sha256
from .key import TaggedHash
from .messages import MAGIC_BYTES
from .util import assert_equal


CHACHA20POLY1305_EXPANSION = 16
HEADER_LEN = 1
IGNORE_BIT_POS = 7
LENGTH_FIELD_LEN = 3
MAX_GARBAGE_LEN = 4095

SHORTID = {
    1: b"addr",
    2: b"block",
    3: b"blocktxn",
    4: b"cmpctblock",
    5: b"feefilter",
    6: b"filteradd",
    7: b"filterclear",
    8: b"filterload",
    9: b"getblocks",
    10: b"getblocktxn",
    11: b"getdata",
    12: b"getheaders",
    13: b"headers",
    14: b"inv",
    15: b"mempool",
    16: b"merkleblock",
    17: b"notfound",
    18: b"ping",
    19: b"pong",
    20: b"sendcmpct",
    21: b"tx",
    22: b"getcfilters",
    23: b"cfilter",
    24: b"getcfheaders",
    25: b"cfheaders",
    26: b"getcfcheckpt",
    27: b"cfcheckpt",
    28: b"addrv2",
    37: b"feature",
}

# Dictionary which contains short message type ID for the P2P message
MSGTYPE_TO_SHORTID = {msgtype: shortid for shortid, msgtype in SHORTID.items()}


class EncryptedP2PState:
    """A class for managing the state when v2 P2P protocol is used. Performs initial v2 handshake and encrypts/decrypts
    P2P messages. P2PConnection uses an object of this class.


    Args:
        initiating (bool): defines whether the P2PConnection is an initiator or responder.
            - initiating = True for inbound connections in the test framework   [TestNode <------- P2PConnection]
            - initiating = False for outbound connections in the test framework [TestNode -------> P2PConnection]

        net (string): chain used (regtest, signet etc..)

    Methods:
        perform an advanced form of diffie-hellman handshake to instantiate the encrypted transport. before exchanging
        any P2P messages, 2 nodes perform this handshake in order to determine a shared secret that is unique to both
        of them and use it to derive keys to encrypt/decrypt P2P messages.
            - initial v2 handshakes is performed by: (see BIP324 section #overall-handshake-pseudocode)
                1. initiator using initiate_v2_handshake(), complete_handshake() and authenticate_handshake()
                2. responder using respond_v2_handshake(), complete_handshake() and authenticate_handshake()
            - initialize_v2_transport() sets various BIP324 derived keys and ciphers.

        encrypt/decrypt v2 P2P messages using v2_enc_packet() and v2_receive_packet().
    """
    def __init__(self, *, initiating, net):
        self.initiating = initiating  # True if initiator
        self.net = net
        self.peer = {}  # object with various BIP324 derived keys and ciphers
        self.privkey_ours = None
        self.ellswift_ours = None
        self.sent_garbage = b""
        self.received_garbage = b""
        self.received_prefix = b""  # received ellswift bytes till the first mismatch from 16 bytes v1_prefix
        self.tried_v2_handshake = False  # True when the initial handshake is over
        # stores length of packet contents to detect whether first 3 bytes (which contains length of packet contents)
        # has been decrypted. set to -1 if decryption hasn't been done yet.
        self.contents_len = -1
        self.found_garbage_terminator = False
        self.transport_version = b''

    @staticmethod
    def v2_ecdh(priv, ellswift_theirs, ellswift_ours, initiating):
        """Compute BIP324 shared secret.

        Returns:
        bytes - BIP324 shared secret
        """
        ecdh_point_x32 = ellswift_ecdh_xonly(ellswift_theirs, priv)
        if initiating:
            # Initiating, place our public key encoding first.
            return TaggedHash("bip324_ellswift_xonly_ecdh", ellswift_ours + ellswift_theirs + ecdh_point_x32)
        else:
            # Responding, place their public key encoding first.
            return TaggedHash("bip324_ellswift_xonly_ecdh", ellswift_theirs + ellswift_ours + ecdh_point_x32)

    def generate_keypair_and_garbage(self, garbage_len=None):
        """Generates ellswift keypair and 4095 bytes garbage at max"""
        self.privkey_ours, self.ellswift_ours = ellswift_create()
        if garbage_len is None:
            garbage_len = random.randrange(MAX_GARBAGE_LEN + 1)
        self.sent_garbage = random.randbytes(garbage_len)
        return self.ellswift_ours + self.sent_garbage

    def initiate_v2_handshake(self):
        """Initiator begins the v2 handshake by sending its ellswift bytes and garbage

        Returns:
        bytes - bytes to be sent to the peer when starting the v2 handshake as an initiator
        """
        return self.generate_keypair_and_garbage()

    def respond_v2_handshake(self, response):
        """Responder begins the v2 handshake by sending its ellswift bytes and garbage. However, the responder
        sends this after having received at least one byte that mismatches 16-byte v1_prefix.

        Returns:
        1. int - length of bytes that were consumed so that recvbuf can be updated
        2. bytes - bytes to be sent to the peer when starting the v2 handshake as a responder.
                 - returns b"" if more bytes need to be received before we can respond and start the v2 handshake.
                 - returns -1 to downgrade the connection to v1 P2P.
        """
        v1_prefix = MAGIC_BYTES[self.net] + b'version\x00\x00\x00\x00\x00'
        while len(self.received_prefix) < 16:
            byte = response.read(1)
            # return b"" if we need to receive more bytes
            if not byte:
                return len(self.received_prefix), b""
            self.received_prefix += byte
            if self.received_prefix[-1] != v1_prefix[len(self.received_prefix) - 1]:
                return len(self.received_prefix), self.generate_keypair_and_garbage()
        # return -1 to decide v1 only after all 16 bytes processed
        return len(self.received_prefix), -1

    def complete_handshake(self, response):
        """ Instantiates the encrypted transport and
        sends garbage terminator + optional decoy packets + transport version packet.
        Done by both initiator and responder.

        Returns:
        1. int - length of bytes that were consumed. returns 0 if all 64 bytes from ellswift haven't been received yet.
        2. bytes - bytes to be sent to the peer when completing the v2 handshake
        """
        ellswift_theirs = self.received_prefix + response.read(64 - len(self.received_prefix))
        # return b"" if we need to receive more bytes
        if len(ellswift_theirs) != 64:
            return 0, b""
        ecdh_secret = self.v2_ecdh(self.privkey_ours, ellswift_theirs, self.ellswift_ours, self.initiating)
        self.initialize_v2_transport(ecdh_secret)
        # Send garbage terminator
        msg_to_send = self.peer['send_garbage_terminator']
        # Optionally send decoy packets after garbage terminator.
        aad = self.sent_garbage
        for decoy_content_len in [random.randint(1, 100) for _ in range(random.randint(0, 10))]:
            msg_to_send += self.v2_enc_packet(decoy_content_len * b'\x00', aad=aad, ignore=True)
            aad = b''
        # Send version packet.
        msg_to_send += self.v2_enc_packet(self.transport_version, aad=aad)
        return 64 - len(self.received_prefix), msg_to_send

    def authenticate_handshake(self, response):
        """ Ensures that the received optional decoy packets and transport version packet are authenticated.
        Marks the v2 handshake as complete. Done by both initiator and responder.

        Returns:
        1. int - length of bytes that were processed so that recvbuf can be updated
        2. bool - True if the authentication was successful/more bytes need to be received and False otherwise
        """
        processed_length = 0

        # Detect garbage terminator in the received bytes
        if not self.found_garbage_terminator:
            received_garbage = response[:16]
            response = response[16:]
            processed_length = len(received_garbage)
            for i in range(MAX_GARBAGE_LEN + 1):
                if received_garbage[-16:] == self.peer['recv_garbage_terminator']:
                    # Receive, decode, and ignore version packet.
                    # This includes skipping decoys and authenticating the received garbage.
                    self.found_garbage_terminator = True
                    self.received_garbage = received_garbage[:-16]
                    break
                else:
                    # don't update recvbuf since more bytes need to be received
                    if len(response) == 0:
                        return 0, True
                    received_garbage += response[:1]
                    processed_length += 1
                    response = response[1:]
            else:
                # disconnect since garbage terminator was not seen after 4 KiB of garbage.
                return processed_length, False

        # Process optional decoy packets and transport version packet
        while not self.tried_v2_handshake:
            length, contents = self.v2_receive_packet(response, aad=self.received_garbage)
            if length == -1:
                return processed_length, False
            elif length == 0:
                return processed_length, True
            processed_length += length
            self.received_garbage = b""
            # decoy packets have contents = None. v2 handshake is complete only when version packet
            # (can be empty with contents = b"") with contents != None is received.
            if contents is not None:
                assert_equal(contents, b"")  # currently TestNode sends an empty version packet
                self.tried_v2_handshake = True
                return processed_length, True
            response = response[length:]

    def initialize_v2_transport(self, ecdh_secret):
        """Sets the peer object with various BIP324 derived keys and ciphers."""
        peer = {}
        salt = b'bitcoin_v2_shared_secret' + MAGIC_BYTES[self.net]
        for name in ('initiator_L', 'initiator_P', 'responder_L', 'responder_P', 'garbage_terminators', 'session_id'):
            peer[name] = hkdf_sha256(salt=salt, ikm=ecdh_secret, info=name.encode('utf-8'), length=32)
        if self.initiating:
            self.peer['send_L'] = FSChaCha20(peer['initiator_L'])
            self.peer['send_P'] = FSChaCha20Poly1305(peer['initiator_P'])
            self.peer['send_garbage_terminator'] = peer['garbage_terminators'][:16]
            self.peer['recv_L'] = FSChaCha20(peer['responder_L'])
            self.peer['recv_P'] = FSChaCha20Poly1305(peer['responder_P'])
            self.peer['recv_garbage_terminator'] = peer['garbage_terminators'][16:]
        else:
            self.peer['send_L'] = FSChaCha20(peer['responder_L'])
            self.peer['send_P'] = FSChaCha20Poly1305(peer['responder_P'])
            self.peer['send_garbage_terminator'] = peer['garbage_terminators'][16:]
            self.peer['recv_L'] = FSChaCha20(peer['initiator_L'])
            self.peer['recv_P'] = FSChaCha20Poly1305(peer['initiator_P'])
            self.peer['recv_garbage_terminator'] = peer['garbage_terminators'][:16]
        self.peer['session_id'] = peer['session_id']

    def v2_enc_packet(self, contents, aad=b'', ignore=False):
        """Encrypt a BIP324 packet.

        Returns:
        bytes - encrypted packet contents
        """
        assert len(contents) <= 2**24 - 1
        header = (ignore << IGNORE_BIT_POS).to_bytes(HEADER_LEN, 'little')
        plaintext = header + contents
        aead_ciphertext = self.peer['send_P'].encrypt(aad, plaintext)
        enc_plaintext_len = self.peer['send_L'].crypt(len(contents).to_bytes(LENGTH_FIELD_LEN, 'little'))
        return enc_plaintext_len + aead_ciphertext

    def v2_receive_packet(self, response, aad=b''):
        """Decrypt a BIP324 packet

        Returns:
        1. int - number of bytes consumed (or -1 if error)
        2. bytes - contents of decrypted non-decoy packet if any (or None otherwise)
        """
        if self.contents_len == -1:
            if len(response) < LENGTH_FIELD_LEN:
                return 0, None
            enc_contents_len = response[:LENGTH_FIELD_LEN]
            self.contents_len = int.from_bytes(self.peer['recv_L'].crypt(enc_contents_len), 'little')
        response = response[LENGTH_FIELD_LEN:]
        if len(response) < HEADER_LEN + self.contents_len + CHACHA20POLY1305_EXPANSION:
            return 0, None
        aead_ciphertext = response[:HEADER_LEN + self.contents_len + CHACHA20POLY1305_EXPANSION]
        plaintext = self.peer['recv_P'].decrypt(aad, aead_ciphertext)
        if plaintext is None:
            return -1, None  # disconnect
        header = plaintext[:HEADER_LEN]
        length = LENGTH_FIELD_LEN + HEADER_LEN + self.contents_len + CHACHA20POLY1305_EXPANSION
        self.contents_len = -1
        return length, None if (header[0] & (1 << IGNORE_BIT_POS)) else plaintext[HEADER_LEN:]
