#!/usr/bin/env python3
# Copyright (c) 2015-present The Bitcoin Core developers
# Distributed under the MIT software license, see the accompanying
# file COPYING or http://www.opensource.org/licenses/mit-license.php.
"""Functionality to build scripts, as well as signature hash functions.

This file is modified from python-bitcoinlib.
"""

from collections import namedtuple
import unittest

from .key import TaggedHash, tweak_add_pubkey, compute_xonly_pubkey

from .messages import (
    CTransaction,
    CTxOut,
    hash256,
    ser_string,
    sha256,
)

from .crypto.ripemd160 import ripemd160
from .util import assert_equal

MAX_SCRIPT_ELEMENT_SIZE = 520
MAX_SCRIPT_SIZE = 10000
MAX_PUBKEYS_PER_MULTI_A = 999
LOCKTIME_THRESHOLD = 500000000
ANNEX_TAG = 0x50

SEQUENCE_LOCKTIME_DISABLE_FLAG = (1<<31)
SEQUENCE_LOCKTIME_TYPE_FLAG = (1<<22) # this means use time (0 means height)
SEQUENCE_LOCKTIME_GRANULARITY = 9 # this is a bit-shift
SEQUENCE_LOCKTIME_MASK = 0x0000ffff

LEAF_VERSION_TAPSCRIPT = 0xc0

def hash160(s):
    return ripemd160(sha256(s))

def bn2vch(v):
    """Convert number to bitcoin-specific little endian format."""
    # We need v.bit_length() bits, plus a sign bit for every nonzero number.
    n_bits = v.bit_length() + (v != 0)
    # The number of bytes for that is:
    n_bytes = (n_bits + 7) // 8
    # Convert number to absolute value + sign in top bit.
    encoded_v = 0 if v == 0 else abs(v) | ((v < 0) << (n_bytes * 8 - 1))
    # Serialize to bytes
    return encoded_v.to_bytes(n_bytes, 'little')

class CScriptOp(int):
    """A single script opcode"""
    __slots__ = ()

    @staticmethod
    def encode_op_pushdata(d):
        """Encode a PUSHDATA op, returning bytes"""
        if len(d) < 0x4c:
            return b'' + bytes([len(d)]) + d  # OP_PUSHDATA
        elif len(d) <= 0xff:
            return b'\x4c' + bytes([len(d)]) + d  # OP_PUSHDATA1
        elif len(d) <= 0xffff:
            return b'\x4d' + len(d).to_bytes(2, "little") + d  # OP_PUSHDATA2
        elif len(d) <= 0xffffffff:
            return b'\x4e' + len(d).to_bytes(4, "little") + d  # OP_PUSHDATA4
        else:
            raise ValueError("Data too long to encode in a PUSHDATA op")

    @staticmethod
    def encode_op_n(n):
        """Encode a small integer op, returning an opcode"""
        if not (0 <= n <= 16):
            raise ValueError('Integer must be in range 0 <= n <= 16, got %d' % n)

        if n == 0:
            return OP_0
        else:
            return CScriptOp(OP_1 + n - 1)

    def decode_op_n(self):
        """Decode a small integer opcode, returning an integer"""
        if self == OP_0:
            return 0

        if not (self == OP_0 or OP_1 <= self <= OP_16):
            raise ValueError('op %r is not an OP_N' % self)

        return int(self - OP_1 + 1)

    def is_small_int(self):
        """Return true if the op pushes a small integer to the stack"""
        if 0x51 <= self <= 0x60 or self == 0:
            return True
        else:
            return False

    def __str__(self):
        return repr(self)

    def __repr__(self):
        if self in OPCODE_NAMES:
            return OPCODE_NAMES[self]
        else:
            return 'CScriptOp(0x%x)' % self

    def __new__(cls, n):
        try:
            return _opcode_instances[n]
        except IndexError:
            assert_equal(len(_opcode_instances), n)
            _opcode_instances.append(super().__new__(cls, n))
            return _opcode_instances[n]

OPCODE_NAMES: dict[CScriptOp, str] = {}
_opcode_instances: list[CScriptOp] = []

# Populate opcode instance table
for n in range(0xff + 1):
    CScriptOp(n)


# push value
OP_0 = CScriptOp(0x00)
OP_FALSE = OP_0
OP_PUSHDATA1 = CScriptOp(0x4c)
OP_PUSHDATA2 = CScriptOp(0x4d)
OP_PUSHDATA4 = CScriptOp(0x4e)
OP_1NEGATE = CScriptOp(0x4f)
OP_RESERVED = CScriptOp(0x50)
OP_1 = CScriptOp(0x51)
OP_TRUE = OP_1
OP_2 = CScriptOp(0x52)
OP_3 = CScriptOp(0x53)
OP_4 = CScriptOp(0x54)
OP_5 = CScriptOp(0x55)
OP_6 = CScriptOp(0x56)
OP_7 = CScriptOp(0x57)
OP_8 = CScriptOp(0x58)
OP_9 = CScriptOp(0x59)
OP_10 = CScriptOp(0x5a)
OP_11 = CScriptOp(0x5b)
OP_12 = CScriptOp(0x5c)
OP_13 = CScriptOp(0x5d)
OP_14 = CScriptOp(0x5e)
OP_15 = CScriptOp(0x5f)
OP_16 = CScriptOp(0x60)

# control
OP_NOP = CScriptOp(0x61)
OP_VER = CScriptOp(0x62)
OP_IF = CScriptOp(0x63)
OP_NOTIF = CScriptOp(0x64)
OP_VERIF = CScriptOp(0x65)
OP_VERNOTIF = CScriptOp(0x66)
OP_ELSE = CScriptOp(0x67)
OP_ENDIF = CScriptOp(0x68)
OP_VERIFY = CScriptOp(0x69)
OP_RETURN = CScriptOp(0x6a)

# stack ops
OP_TOALTSTACK = CScriptOp(0x6b)
OP_FROMALTSTACK = CScriptOp(0x6c)
OP_2DROP = CScriptOp(0x6d)
OP_2DUP = CScriptOp(0x6e)
OP_3DUP = CScriptOp(0x6f)
OP_2OVER = CScriptOp(0x70)
OP_2ROT = CScriptOp(0x71)
OP_2SWAP = CScriptOp(0x72)
OP_IFDUP = CScriptOp(0x73)
OP_DEPTH = CScriptOp(0x74)
OP_DROP = CScriptOp(0x75)
OP_DUP = CScriptOp(0x76)
OP_NIP = CScriptOp(0x77)
OP_OVER = CScriptOp(0x78)
OP_PICK = CScriptOp(0x79)
OP_ROLL = CScriptOp(0x7a)
OP_ROT = CScriptOp(0x7b)
OP_SWAP = CScriptOp(0x7c)
OP_TUCK = CScriptOp(0x7d)

# splice ops
OP_CAT = CScriptOp(0x7e)
OP_SUBSTR = CScriptOp(0x7f)
OP_LEFT = CScriptOp(0x80)
OP_RIGHT = CScriptOp(0x81)
OP_SIZE = CScriptOp(0x82)

# bit logic
OP_INVERT = CScriptOp(0x83)
OP_AND = CScriptOp(0x84)
OP_OR = CScriptOp(0x85)
OP_XOR = CScriptOp(0x86)
OP_EQUAL = CScriptOp(0x87)
OP_EQUALVERIFY = CScriptOp(0x88)
OP_RESERVED1 = CScriptOp(0x89)
OP_RESERVED2 = CScriptOp(0x8a)

# numeric
OP_1ADD = CScriptOp(0x8b)
OP_1SUB = CScriptOp(0x8c)
OP_2MUL = CScriptOp(0x8d)
OP_2DIV = CScriptOp(0x8e)
OP_NEGATE = CScriptOp(0x8f)
OP_ABS = CScriptOp(0x90)
OP_NOT = CScriptOp(0x91)
OP_0NOTEQUAL = CScriptOp(0x92)

OP_ADD = CScriptOp(0x93)
OP_SUB = CScriptOp(0x94)
OP_MUL = CScriptOp(0x95)
OP_DIV = CScriptOp(0x96)
OP_MOD = CScriptOp(0x97)
OP_LSHIFT = CScriptOp(0x98)
OP_RSHIFT = CScriptOp(0x99)

OP_BOOLAND = CScriptOp(0x9a)
OP_BOOLOR = CScriptOp(0x9b)
OP_NUMEQUAL = CScriptOp(0x9c)
OP_NUMEQUALVERIFY = CScriptOp(0x9d)
OP_NUMNOTEQUAL = CScriptOp(0x9e)
OP_LESSTHAN = CScriptOp(0x9f)
OP_GREATERTHAN = CScriptOp(0xa0)
OP_LESSTHANOREQUAL = CScriptOp(0xa1)
OP_GREATERTHANOREQUAL = CScriptOp(0xa2)
OP_MIN = CScriptOp(0xa3)
OP_MAX = CScriptOp(0xa4)

OP_WITHIN = CScriptOp(0xa5)

# crypto
OP_RIPEMD160 = CScriptOp(0xa6)
OP_SHA1 = CScriptOp(0xa7)
OP_SHA256 = CScriptOp(0xa8)
OP_HASH160 = CScriptOp(0xa9)
OP_HASH256 = CScriptOp(0xaa)
OP_CODESEPARATOR = CScriptOp(0xab)
OP_CHECKSIG = CScriptOp(0xac)
OP_CHECKSIGVERIFY = CScriptOp(0xad)
OP_CHECKMULTISIG = CScriptOp(0xae)
OP_CHECKMULTISIGVERIFY = CScriptOp(0xaf)

# expansion
OP_NOP1 = CScriptOp(0xb0)
OP_CHECKLOCKTIMEVERIFY = CScriptOp(0xb1)
OP_CHECKSEQUENCEVERIFY = CScriptOp(0xb2)
OP_NOP4 = CScriptOp(0xb3)
OP_NOP5 = CScriptOp(0xb4)
OP_NOP6 = CScriptOp(0xb5)
OP_NOP7 = CScriptOp(0xb6)
OP_NOP8 = CScriptOp(0xb7)
OP_NOP9 = CScriptOp(0xb8)
OP_NOP10 = CScriptOp(0xb9)

# BIP 342 opcodes (Tapscript)
OP_CHECKSIGADD = CScriptOp(0xba)

OP_INVALIDOPCODE = CScriptOp(0xff)

OPCODE_NAMES.update({
    OP_0: 'OP_0',
    OP_PUSHDATA1: 'OP_PUSHDATA1',
    OP_PUSHDATA2: 'OP_PUSHDATA2',
    OP_PUSHDATA4: 'OP_PUSHDATA4',
    OP_1NEGATE: 'OP_1NEGATE',
    OP_RESERVED: 'OP_RESERVED',
    OP_1: 'OP_1',
    OP_2: 'OP_2',
    OP_3: 'OP_3',
    OP_4: 'OP_4',
    OP_5: 'OP_5',
    OP_6: 'OP_6',
    OP_7: 'OP_7',
    OP_8: 'OP_8',
    OP_9: 'OP_9',
    OP_10: 'OP_10',
    OP_11: 'OP_11',
    OP_12: 'OP_12',
    OP_13: 'OP_13',
    OP_14: 'OP_14',
    OP_15: 'OP_15',
    OP_16: 'OP_16',
    OP_NOP: 'OP_NOP',
    OP_VER: 'OP_VER',
    OP_IF: 'OP_IF',
    OP_NOTIF: 'OP_NOTIF',
    OP_VERIF: 'OP_VERIF',
    OP_VERNOTIF: 'OP_VERNOTIF',
    OP_ELSE: 'OP_ELSE',
    OP_ENDIF: 'OP_ENDIF',
    OP_VERIFY: 'OP_VERIFY',
    OP_RETURN: 'OP_RETURN',
    OP_TOALTSTACK: 'OP_TOALTSTACK',
    OP_FROMALTSTACK: 'OP_FROMALTSTACK',
    OP_2DROP: 'OP_2DROP',
    OP_2DUP: 'OP_2DUP',
    OP_3DUP: 'OP_3DUP',
    OP_2OVER: 'OP_2OVER',
    OP_2ROT: 'OP_2ROT',
    OP_2SWAP: 'OP_2SWAP',
    OP_IFDUP: 'OP_IFDUP',
    OP_DEPTH: 'OP_DEPTH',
    OP_DROP: 'OP_DROP',
    OP_DUP: 'OP_DUP',
    OP_NIP: 'OP_NIP',
    OP_OVER: 'OP_OVER',
    OP_PICK: 'OP_PICK',
    OP_ROLL: 'OP_ROLL',
    OP_ROT: 'OP_ROT',
    OP_SWAP: 'OP_SWAP',
    OP_TUCK: 'OP_TUCK',
    OP_CAT: 'OP_CAT',
    OP_SUBSTR: 'OP_SUBSTR',
    OP_LEFT: 'OP_LEFT',
    OP_RIGHT: 'OP_RIGHT',
    OP_SIZE: 'OP_SIZE',
    OP_INVERT: 'OP_INVERT',
    OP_AND: 'OP_AND',
    OP_OR: 'OP_OR',
    OP_XOR: 'OP_XOR',
    OP_EQUAL: 'OP_EQUAL',
    OP_EQUALVERIFY: 'OP_EQUALVERIFY',
    OP_RESERVED1: 'OP_RESERVED1',
    OP_RESERVED2: 'OP_RESERVED2',
    OP_1ADD: 'OP_1ADD',
    OP_1SUB: 'OP_1SUB',
    OP_2MUL: 'OP_2MUL',
    OP_2DIV: 'OP_2DIV',
    OP_NEGATE: 'OP_NEGATE',
    OP_ABS: 'OP_ABS',
    OP_NOT: 'OP_NOT',
    OP_0NOTEQUAL: 'OP_0NOTEQUAL',
    OP_ADD: 'OP_ADD',
    OP_SUB: 'OP_SUB',
    OP_MUL: 'OP_MUL',
    OP_DIV: 'OP_DIV',
    OP_MOD: 'OP_MOD',
    OP_LSHIFT: 'OP_LSHIFT',
    OP_RSHIFT: 'OP_RSHIFT',
    OP_BOOLAND: 'OP_BOOLAND',
    OP_BOOLOR: 'OP_BOOLOR',
    OP_NUMEQUAL: 'OP_NUMEQUAL',
    OP_NUMEQUALVERIFY: 'OP_NUMEQUALVERIFY',
    OP_NUMNOTEQUAL: 'OP_NUMNOTEQUAL',
    OP_LESSTHAN: 'OP_LESSTHAN',
    OP_GREATERTHAN: 'OP_GREATERTHAN',
    OP_LESSTHANOREQUAL: 'OP_LESSTHANOREQUAL',
    OP_GREATERTHANOREQUAL: 'OP_GREATERTHANOREQUAL',
    OP_MIN: 'OP_MIN',
    OP_MAX: 'OP_MAX',
    OP_WITHIN: 'OP_WITHIN',
    OP_RIPEMD160: 'OP_RIPEMD160',
    OP_SHA1: 'OP_SHA1',
    OP_SHA256: 'OP_SHA256',
    OP_HASH160: 'OP_HASH160',
    OP_HASH256: 'OP_HASH256',
    OP_CODESEPARATOR: 'OP_CODESEPARATOR',
    OP_CHECKSIG: 'OP_CHECKSIG',
    OP_CHECKSIGVERIFY: 'OP_CHECKSIGVERIFY',
    OP_CHECKMULTISIG: 'OP_CHECKMULTISIG',
    OP_CHECKMULTISIGVERIFY: 'OP_CHECKMULTISIGVERIFY',
    OP_NOP1: 'OP_NOP1',
    OP_CHECKLOCKTIMEVERIFY: 'OP_CHECKLOCKTIMEVERIFY',
    OP_CHECKSEQUENCEVERIFY: 'OP_CHECKSEQUENCEVERIFY',
    OP_NOP4: 'OP_NOP4',
    OP_NOP5: 'OP_NOP5',
    OP_NOP6: 'OP_NOP6',
    OP_NOP7: 'OP_NOP7',
    OP_NOP8: 'OP_NOP8',
    OP_NOP9: 'OP_NOP9',
    OP_NOP10: 'OP_NOP10',
    OP_CHECKSIGADD: 'OP_CHECKSIGADD',
    OP_INVALIDOPCODE: 'OP_INVALIDOPCODE',
})

class CScriptInvalidError(Exception):
    """Base class for CScript exceptions"""
    pass

class CScriptTruncatedPushDataError(CScriptInvalidError):
    """Invalid pushdata due to truncation"""
    def __init__(self, msg, data):
        self.data = data
        super().__init__(msg)


# This is used, eg, for blockchain heights in coinbase scripts (bip34)
class CScriptNum:
    __slots__ = ("value",)

    def __init__(self, d=0):
        self.value = d

    @staticmethod
    def encode(obj):
        r = bytearray(0)
        if obj.value == 0:
            return bytes(r)
        neg = obj.value < 0
        absvalue = -obj.value if neg else obj.value
        while (absvalue):
            r.append(absvalue & 0xff)
            absvalue >>= 8
        if r[-1] & 0x80:
            r.append(0x80 if neg else 0)
        elif neg:
            r[-1] |= 0x80
        return bytes([len(r)]) + r

    @staticmethod
    def decode(vch):
        result = 0
        # We assume valid push_size and minimal encoding
        value = vch[1:]
        if len(value) == 0:
            return result
        for i, byte in enumerate(value):
            result |= int(byte) << 8 * i
        if value[-1] >= 0x80:
            # Mask for all but the highest result bit
            num_mask = (2**(len(value) * 8) - 1) >> 1
            result &= num_mask
            result *= -1
        return result


class CScript(bytes):
    """Serialized script

    A bytes subclass, so you can use this directly whenever bytes are accepted.
    Note that this means that indexing does *not* work - you'll get an index by
    byte rather than opcode. This format was chosen for efficiency so that the
    general case would not require creating a lot of little CScriptOP objects.

    iter(script) however does iterate by opcode.
    """
    __slots__ = ()

    @classmethod
    def __coerce_instance(cls, other):
        # Coerce other into bytes
        if isinstance(other, CScriptOp):
            other = bytes([other])
        elif isinstance(other, CScriptNum):
            if (other.value == 0):
                other = bytes([CScriptOp(OP_0)])
            else:
                other = CScriptNum.encode(other)
        elif isinstance(other, int):
            if 0 <= other <= 16:
                other = bytes([CScriptOp.encode_op_n(other)])
            elif other == -1:
                other = bytes([OP_1NEGATE])
            else:
                other = CScriptOp.encode_op_pushdata(bn2vch(other))
        elif isinstance(other, (bytes, bytearray)):
            other = CScriptOp.encode_op_pushdata(other)
        return other

    def __add__(self, other):
        # add makes no sense for a CScript()
        raise NotImplementedError

    def join(self, iterable):
        # join makes no sense for a CScript()
        raise NotImplementedError

    def __new__(cls, value=b''):
        if isinstance(value, bytes) or isinstance(value, bytearray):
            return super().__new__(cls, value)
        else:
            def coerce_iterable(iterable):
                for instance in iterable:
                    yield cls.__coerce_instance(instance)
            # Annoyingly on both python2 and python3 bytes.join() always
            # returns a bytes instance even when subclassed.
            return super().__new__(cls, b''.join(coerce_iterable(value)))

    def raw_iter(self):
        """Raw iteration

        Yields tuples of (opcode, data, sop_idx) so that the different possible
        PUSHDATA encodings can be accurately distinguished, as well as
        determining the exact opcode byte indexes. (sop_idx)
        """
        i = 0
        while i < len(self):
            sop_idx = i
            opcode = CScriptOp(self[i])
            i += 1

            if opcode > OP_PUSHDATA4:
                yield (opcode, None, sop_idx)
            else:
                datasize = None
                pushdata_type = None
                if opcode < OP_PUSHDATA1:
                    pushdata_type = 'PUSHDATA(%d)' % opcode
                    datasize = opcode

                elif opcode == OP_PUSHDATA1:
                    pushdata_type = 'PUSHDATA1'
                    if i >= len(self):
                        raise CScriptInvalidError('PUSHDATA1: missing data length')
                    datasize = self[i]
                    i += 1

                elif opcode == OP_PUSHDATA2:
                    pushdata_type = 'PUSHDATA2'
                    if i + 1 >= len(self):
                        raise CScriptInvalidError('PUSHDATA2: missing data length')
                    datasize = self[i] + (self[i + 1] << 8)
                    i += 2

                elif opcode == OP_PUSHDATA4:
                    pushdata_type = 'PUSHDATA4'
                    if i + 3 >= len(self):
                        raise CScriptInvalidError('PUSHDATA4: missing data length')
                    datasize = self[i] + (self[i + 1] << 8) + (self[i + 2] << 16) + (self[i + 3] << 24)
                    i += 4

                else:
                    assert False  # shouldn't happen

                data = bytes(self[i:i + datasize])

                # Check for truncation
                if len(data) < datasize:
                    raise CScriptTruncatedPushDataError('%s: truncated data' % pushdata_type, data)

                i += datasize

                yield (opcode, data, sop_idx)

    def __iter__(self):
        """'Cooked' iteration

        Returns either a CScriptOP instance, an integer, or bytes, as
        appropriate.

        See raw_iter() if you need to distinguish the different possible
        PUSHDATA encodings.
        """
        for (opcode, data, sop_idx) in self.raw_iter():
            if data is not None:
                yield data
            else:
                opcode = CScriptOp(opcode)

                if opcode.is_small_int():
                    yield opcode.decode_op_n()
                else:
                    yield CScriptOp(opcode)

    def __repr__(self):
        def _repr(o):
            if isinstance(o, bytes):
                return "x('%s')" % o.hex()
            else:
                return repr(o)

        ops = []
        i = iter(self)
        while True:
            op = None
            try:
                op = _repr(next(i))
            except CScriptTruncatedPushDataError as err:
                op = '%s...<ERROR: %s>' % (_repr(err.data), err)
                break
            except CScriptInvalidError as err:
                op = '<ERROR: %s>' % err
                break
            except StopIteration:
                break
            finally:
                if op is not None:
                    ops.append(op)

        return "CScript([%s])" % ', '.join(ops)

    def GetSigOpCount(self, fAccurate):
        """Get the SigOp count.

        fAccurate - Accurately count CHECKMULTISIG, see BIP16 for details.

        Note that this is consensus-critical.
        """
        n = 0
        lastOpcode = OP_INVALIDOPCODE
        for (opcode, data, sop_idx) in self.raw_iter():
            if opcode in (OP_CHECKSIG, OP_CHECKSIGVERIFY):
                n += 1
            elif opcode in (OP_CHECKMULTISIG, OP_CHECKMULTISIGVERIFY):
                if fAccurate and (OP_1 <= lastOpcode <= OP_16):
                    n += lastOpcode.decode_op_n()
                else:
                    n += 20
            lastOpcode = opcode
        return n

    def IsWitnessProgram(self):
        """A witness program is any valid CScript that consists of a 1-byte
           push opcode followed by a data push between 2 and 40 bytes."""
        return ((4 <= len(self) <= 42) and
                (self[0] == OP_0 or (OP_1 <= self[0] <= OP_16)) and
                (self[1] + 2 == len(self)))


SIGHASH_DEFAULT = 0 # Taproot-only default, semantics same as SIGHASH_ALL
SIGHASH_ALL = 1
SIGHASH_NONE = 2
SIGHASH_SINGLE = 3
SIGHASH_ANYONECANPAY = 0x80

def FindAndDelete(script, sig):
    """Consensus critical, see FindAndDelete() in Satoshi codebase"""
    r = b''
    last_sop_idx = sop_idx = 0
    skip = True
    for (opcode, data, sop_idx) in script.raw_iter():
        if not skip:
            r += script[last_sop_idx:sop_idx]
        last_sop_idx = sop_idx
        if script[sop_idx:sop_idx + len(sig)] == sig:
            skip = True
        else:
            skip = False
    if not skip:
        r += script[last_sop_idx:]
    return CScript(r)

def LegacySignatureMsg(script, txTo, inIdx, hashtype):
    """Preimage of the signature hash, if it exists.

    Returns either (None, err) to indicate error (which translates to sighash 1),
    or (msg, None).
    """

    if inIdx >= len(txTo.vin):
        return (None, "inIdx %d out of range (%d)" % (inIdx, len(txTo.vin)))
    txtmp = CTransaction(txTo)

    for txin in txtmp.vin:
        txin.scriptSig = b''
    txtmp.vin[inIdx].scriptSig = FindAndDelete(script, CScript([OP_CODESEPARATOR]))

    if (hashtype & 0x1f) == SIGHASH_NONE:
        txtmp.vout = []

        for i in range(len(txtmp.vin)):
            if i != inIdx:
                txtmp.vin[i].nSequence = 0

    elif (hashtype & 0x1f) == SIGHASH_SINGLE:
        outIdx = inIdx
        if outIdx >= len(txtmp.vout):
            return (None, "outIdx %d out of range (%d)" % (outIdx, len(txtmp.vout)))

        tmp = txtmp.vout[outIdx]
        txtmp.vout = []
        for _ in range(outIdx):
            txtmp.vout.append(CTxOut(-1))
        txtmp.vout.append(tmp)

        for i in range(len(txtmp.vin)):
            if i != inIdx:
                txtmp.vin[i].nSequence = 0

    if hashtype & SIGHASH_ANYONECANPAY:
        tmp = txtmp.vin[inIdx]
        txtmp.vin = []
        txtmp.vin.append(tmp)

    s = txtmp.serialize_without_witness()
    s += hashtype.to_bytes(4, "little")

    return (s, None)

def LegacySignatureHash(*args, **kwargs):
    """Consensus-correct SignatureHash

    Returns (hash, err) to precisely match the consensus-critical behavior of
    the SIGHASH_SINGLE bug. (inIdx is *not* checked for validity)
    """

    HASH_ONE = b'\x01\x00\x00\x00\x00\x00\x00\x00\x00\x00\x00\x00\x00\x00\x00\x00\x00\x00\x00\x00\x00\x00\x00\x00\x00\x00\x00\x00\x00\x00\x00\x00'
    msg, err = LegacySignatureMsg(*args, **kwargs)
    if msg is None:
        return (HASH_ONE, err)
    else:
        return (hash256(msg), err)

def sign_input_legacy(tx, input_index, input_scriptpubkey, privkey, sighash_type=SIGHASH_ALL):
    """Add legacy ECDSA signature for a given transaction input. Note that the signature
       is prepended to the scriptSig field, i.e. additional data pushes necessary for more
       complex spends than P2PK (e.g. pubkey for P2PKH) can be already set before."""
    (sighash, err) = LegacySignatureHash(input_scriptpubkey, tx, input_index, sighash_type)
    assert err is None
    der_sig = privkey.sign_ecdsa(sighash)
    tx.vin[input_index].scriptSig = bytes(CScript([der_sig + bytes([sighash_type])])) + tx.vin[input_index].scriptSig

def sign_input_segwitv0(tx, input_index, input_scriptpubkey, input_amount, privkey, sighash_type=SIGHASH_ALL):
    """Add segwitv0 ECDSA signature for a given transaction input. Note that the signature
       is inserted at the bottom of the witness stack, i.e. additional witness data
       needed (e.g. pubkey for P2WPKH) can already be set before."""
    sighash = SegwitV0SignatureHash(input_scriptpubkey, tx, input_index, sighash_type, input_amount)
    der_sig = privkey.sign_ecdsa(sighash)
    tx.wit.vtxinwit[input_index].scriptWitness.stack.insert(0, der_sig + bytes([sighash_type]))

# TODO: Allow cached hashPrevouts/hashSequence/hashOutputs to be provided.
# Performance optimization probably not necessary for python tests, however.
# Note that this corresponds to sigversion == 1 in EvalScript, which is used
# for version 0 witnesses.
def SegwitV0SignatureMsg(script, txTo, inIdx, hashtype, amount):
    ZERO_HASH = bytes([0]*32)

    hashPrevouts = ZERO_HASH
    hashSequence = ZERO_HASH
    hashOutputs = ZERO_HASH

    if not (hashtype & SIGHASH_ANYONECANPAY):
        serialize_prevouts = bytes()
        for i in txTo.vin:
            serialize_prevouts += i.prevout.serialize()
        hashPrevouts = hash256(serialize_prevouts)

    if (not (hashtype & SIGHASH_ANYONECANPAY) and (hashtype & 0x1f) != SIGHASH_SINGLE and (hashtype & 0x1f) != SIGHASH_NONE):
        serialize_sequence = bytes()
        for i in txTo.vin:
            serialize_sequence += i.nSequence.to_bytes(4, "little")
        hashSequence = hash256(serialize_sequence)

    if ((hashtype & 0x1f) != SIGHASH_SINGLE and (hashtype & 0x1f) != SIGHASH_NONE):
        serialize_outputs = bytes()
        for o in txTo.vout:
            serialize_outputs += o.serialize()
        hashOutputs = hash256(serialize_outputs)
    elif ((hashtype & 0x1f) == SIGHASH_SINGLE and inIdx < len(txTo.vout)):
        serialize_outputs = txTo.vout[inIdx].serialize()
        hashOutputs = hash256(serialize_outputs)

    ss = bytes()
    ss += txTo.version.to_bytes(4, "little")
    ss += hashPrevouts
    ss += hashSequence
    ss += txTo.vin[inIdx].prevout.serialize()
    ss += ser_string(script)
    ss += amount.to_bytes(8, "little", signed=True)
    ss += txTo.vin[inIdx].nSequence.to_bytes(4, "little")
    ss += hashOutputs
    ss += txTo.nLockTime.to_bytes(4, "little")
    ss += hashtype.to_bytes(4, "little")
    return ss

def SegwitV0SignatureHash(*args, **kwargs):
    return hash256(SegwitV0SignatureMsg(*args, **kwargs))

class TestFrameworkScript(unittest.TestCase):
    def test_bn2vch(self):
        self.assertEqual(bn2vch(0), bytes([]))
        self.assertEqual(bn2vch(1), bytes([0x01]))
        self.assertEqual(bn2vch(-1), bytes([0x81]))
        self.assertEqual(bn2vch(0x7F), bytes([0x7F]))
        self.assertEqual(bn2vch(-0x7F), bytes([0xFF]))
        self.assertEqual(bn2vch(0x80), bytes([0x80, 0x00]))
        self.assertEqual(bn2vch(-0x80), bytes([0x80, 0x80]))
        self.assertEqual(bn2vch(0xFF), bytes([0xFF, 0x00]))
        self.assertEqual(bn2vch(-0xFF), bytes([0xFF, 0x80]))
        self.assertEqual(bn2vch(0x100), bytes([0x00, 0x01]))
        self.assertEqual(bn2vch(-0x100), bytes([0x00, 0x81]))
        self.assertEqual(bn2vch(0x7FFF), bytes([0xFF, 0x7F]))
        self.assertEqual(bn2vch(-0x8000), bytes([0x00, 0x80, 0x80]))
        self.assertEqual(bn2vch(-0x7FFFFF), bytes([0xFF, 0xFF, 0xFF]))
        self.assertEqual(bn2vch(0x80000000), bytes([0x00, 0x00, 0x00, 0x80, 0x00]))
        self.assertEqual(bn2vch(-0x80000000), bytes([0x00, 0x00, 0x00, 0x80, 0x80]))
        self.assertEqual(bn2vch(0xFFFFFFFF), bytes([0xFF, 0xFF, 0xFF, 0xFF, 0x00]))
        self.assertEqual(bn2vch(123456789), bytes([0x15, 0xCD, 0x5B, 0x07]))
        self.assertEqual(bn2vch(-54321), bytes([0x31, 0xD4, 0x80]))

    def test_cscriptnum_encoding(self):
        # round-trip negative and multi-byte CScriptNums
        values = [0, 1, -1, -2, 127, 128, -255, 256, (1 << 15) - 1, -(1 << 16), (1 << 24) - 1, (1 << 31), 1 - (1 << 32), 1 << 40, 1500, -1500]
        for value in values:
            self.assertEqual(CScriptNum.decode(CScriptNum.encode(CScriptNum(value))), value)

    def test_legacy_sigopcount(self):
        # test repeated single sig ops
        for n_ops in range(1, 100, 10):
            for singlesig_op in (OP_CHECKSIG, OP_CHECKSIGVERIFY):
                singlesigs_script = CScript([singlesig_op]*n_ops)
                self.assertEqual(singlesigs_script.GetSigOpCount(fAccurate=False), n_ops)
                self.assertEqual(singlesigs_script.GetSigOpCount(fAccurate=True), n_ops)
        # test multisig op (including accurate counting, i.e. BIP16)
        for n in range(1, 16+1):
            for multisig_op in (OP_CHECKMULTISIG, OP_CHECKMULTISIGVERIFY):
                multisig_script = CScript([CScriptOp.encode_op_n(n), multisig_op])
                self.assertEqual(multisig_script.GetSigOpCount(fAccurate=False), 20)
                self.assertEqual(multisig_script.GetSigOpCount(fAccurate=True), n)

def BIP341_sha_prevouts(txTo):
    return sha256(b"".join(i.prevout.serialize() for i in txTo.vin))

def BIP341_sha_amounts(spent_utxos):
    return sha256(b"".join(u.nValue.to_bytes(8, "little", signed=True) for u in spent_utxos))

def BIP341_sha_scriptpubkeys(spent_utxos):
    return sha256(b"".join(ser_string(u.scriptPubKey) for u in spent_utxos))

def BIP341_sha_sequences(txTo):
    return sha256(b"".join(i.nSequence.to_bytes(4, "little") for i in txTo.vin))

def BIP341_sha_outputs(txTo):
    return sha256(b"".join(o.serialize() for o in txTo.vout))

def TaprootSignatureMsg(txTo, spent_utxos, hash_type, input_index=0, *, scriptpath=False, leaf_script=None, codeseparator_pos=-1, annex=None, leaf_ver=LEAF_VERSION_TAPSCRIPT):
    assert_equal(len(txTo.vin), len(spent_utxos))
    assert input_index < len(txTo.vin)
    out_type = SIGHASH_ALL if hash_type == 0 else hash_type & 3
    in_type = hash_type & SIGHASH_ANYONECANPAY
    spk = spent_utxos[input_index].scriptPubKey
    ss = bytes([0, hash_type]) # epoch, hash_type
    ss += txTo.version.to_bytes(4, "little")
    ss += txTo.nLockTime.to_bytes(4, "little")
    if in_type != SIGHASH_ANYONECANPAY:
        ss += BIP341_sha_prevouts(txTo)
        ss += BIP341_sha_amounts(spent_utxos)
        ss += BIP341_sha_scriptpubkeys(spent_utxos)
        ss += BIP341_sha_sequences(txTo)
    if out_type == SIGHASH_ALL:
        ss += BIP341_sha_outputs(txTo)
    spend_type = 0
    if annex is not None:
        spend_type |= 1
    if scriptpath:
        spend_type |= 2
    ss += bytes([spend_type])
    if in_type == SIGHASH_ANYONECANPAY:
        ss += txTo.vin[input_index].prevout.serialize()
        ss += spent_utxos[input_index].nValue.to_bytes(8, "little", signed=True)
        ss += ser_string(spk)
        ss += txTo.vin[input_index].nSequence.to_bytes(4, "little")
    else:
        ss += input_index.to_bytes(4, "little")
    if (spend_type & 1):
        ss += sha256(ser_string(annex))
    if out_type == SIGHASH_SINGLE:
        if input_index < len(txTo.vout):
            ss += sha256(txTo.vout[input_index].serialize())
        else:
            ss += bytes(0 for _ in range(32))
    if scriptpath:
        ss += TaggedHash("TapLeaf", bytes([leaf_ver]) + ser_string(leaf_script))
        ss += bytes([0])
        ss += codeseparator_pos.to_bytes(4, "little", signed=False)
    assert_equal(len(ss), 175 - (in_type == SIGHASH_ANYONECANPAY) * 49 - (out_type != SIGHASH_ALL and out_type != SIGHASH_SINGLE) * 32 + (annex is not None) * 32 + scriptpath * 37)
    return ss

def TaprootSignatureHash(*args, **kwargs):
    return TaggedHash("TapSighash", TaprootSignatureMsg(*args, **kwargs))

def taproot_tree_helper(scripts):
    if len(scripts) == 0:
        return ([], bytes())
    if len(scripts) == 1:
        # One entry: treat as a leaf
        script = scripts[0]
        assert not callable(script)
        if isinstance(script, list):
            return taproot_tree_helper(script)
        assert isinstance(script, tuple)
        version = LEAF_VERSION_TAPSCRIPT
        name = script[0]
        code = script[1]
        if len(script) == 3:
            version = script[2]
        assert_equal(version & 1, 0)
        assert isinstance(code, bytes)
        h = TaggedHash("TapLeaf", bytes([version]) + ser_string(code))
        if name is None:
            return ([], h)
        return ([(name, version, code, bytes(), h)], h)
    elif len(scripts) == 2 and callable(scripts[1]):
        # Two entries, and the right one is a function
        left, left_h = taproot_tree_helper(scripts[0:1])
        right_h = scripts[1](left_h)
        left = [(name, version, script, control + right_h, leaf) for name, version, script, control, leaf in left]
        right = []
    else:
        # Two or more entries: descend into each side
        split_pos = len(scripts) // 2
        left, left_h = taproot_tree_helper(scripts[0:split_pos])
        right, right_h = taproot_tree_helper(scripts[split_pos:])
        left = [(name, version, script, control + right_h, leaf) for name, version, script, control, leaf in left]
        right = [(name, version, script, control + left_h, leaf) for name, version, script, control, leaf in right]
    if right_h < left_h:
        right_h, left_h = left_h, right_h
    h = TaggedHash("TapBranch", left_h + right_h)
    return (left + right, h)

# A TaprootInfo object has the following fields:
# - scriptPubKey: the scriptPubKey (witness v1 CScript)
# - internal_pubkey: the internal pubkey (32 bytes)
# - negflag: whether the pubkey in the scriptPubKey was negated from internal_pubkey+tweak*G (bool).
# - tweak: the tweak (32 bytes)
# - leaves: a dict of name -> TaprootLeafInfo objects for all known leaves
# - merkle_root: the script tree's Merkle root, or bytes() if no leaves are present
TaprootInfo = namedtuple("TaprootInfo", "scriptPubKey,internal_pubkey,negflag,tweak,leaves,merkle_root,output_pubkey")

# A TaprootLeafInfo object has the following fields:
# - script: the leaf script (CScript or bytes)
# - version: the leaf version (0xc0 for BIP342 tapscript)
# - merklebranch: the merkle branch to use for this leaf (32*N bytes)
TaprootLeafInfo = namedtuple("TaprootLeafInfo", "script,version,merklebranch,leaf_hash")

def taproot_construct(pubkey, scripts=None, treat_internal_as_infinity=False):
    """Construct a tree of Taproot spending conditions

    pubkey: a 32-byte xonly pubkey for the internal pubkey (bytes)
    scripts: a list of items; each item is either:
             - a (name, CScript or bytes, leaf version) tuple
             - a (name, CScript or bytes) tuple (defaulting to leaf version 0xc0)
             - another list of items (with the same structure)
             - a list of two items; the first of which is an item itself, and the
               second is a function. The function takes as input the Merkle root of the
               first item, and produces a (fictitious) partner to hash with.

    Returns: a TaprootInfo object
    """
    if scripts is None:
        scripts = []

    ret, h = taproot_tree_helper(scripts)
    tweak = TaggedHash("TapTweak", pubkey + h)
    if treat_internal_as_infinity:
        tweaked, negated = compute_xonly_pubkey(tweak)
    else:
        tweaked, negated = tweak_add_pubkey(pubkey, tweak)
    leaves = dict((name, TaprootLeafInfo(script, version, merklebranch, leaf)) for name, version, script, merklebranch, leaf in ret)
    return TaprootInfo(CScript([OP_1, tweaked]), pubkey, negated + 0, tweak, leaves, h, tweaked)

def is_op_success(o):
    return o == 0x50 or o == 0x62 or o == 0x89 or o == 0x8a or o == 0x8d or o == 0x8e or (o >= 0x7e and o <= 0x81) or (o >= 0x83 and o <= 0x86) or (o >= 0x95 and o <= 0x99) or (o >= 0xbb and o <= 0xfe)
