#!/usr/bin/env python3
# Copyright (c) 2015-present The Bitcoin Core developers
# Distributed under the MIT software license, see the accompanying
# file COPYING or http://www.opensource.org/licenses/mit-license.php.
"""Dummy Socks5 server for testing."""

import select
import socket
import threading
import queue
import logging

from .netutil import (
    format_addr_port,
    format_sock,
    set_ephemeral_port_range,
)

logger = logging.getLogger("TestFramework.socks5")

# Protocol constants
class Command:
    CONNECT = 0x01

class AddressType:
    IPV4 = 0x01
    DOMAINNAME = 0x03
    IPV6 = 0x04

# Utility functions
def recvall(s, n):
    """Receive n bytes from a socket, or fail."""
    rv = bytearray()
    while n > 0:
        d = s.recv(n)
        if not d:
            raise IOError('Unexpected end of stream')
        rv.extend(d)
        n -= len(d)
    return rv

def sendall(s, data):
    """Send all data to a socket, or fail."""
    sent = 0
    while sent < len(data):
        _, wlist, _ = select.select([], [s], [])
        if len(wlist) > 0:
            n = s.send(data[sent:])
            if n == 0:
                raise IOError('send() on socket returned 0')
            sent += n

def forward_sockets(a, b, wakeup_socket, serv):
    """Forwards data between sockets a and b until EOF, error, or shutdown.

    Monitors wakeup_socket for a shutdown signal and checks serv.is_running()
    to exit gracefully when the server is stopping.
    """
    # Prefix messages with e.g.:
    # forward_sockets(a{remote=127.0.0.1:36935, local=127.0.0.1:9050} <-> b{local=127.0.0.1:33424, remote=127.0.0.1:8333})
    log_prefix = ("forward_sockets("
                  f"a{{remote={format_sock(a, local=False)}, local={format_sock(a, local=True)}}} <-> "
                  f"b{{local={format_sock(b, local=True)}, remote={format_sock(b, local=False)}}}): ")

    # Mark as non-blocking so that we do not end up in a deadlock-like situation
    # where we block and wait on data from `a` while there is data ready to be
    # received on `b` and forwarded to `a`. And at the same time the application
    # at `a` is not sending anything because it waits for the data from `b` to
    # respond.
    a.setblocking(False)
    b.setblocking(False)
    sockets = [a, b, wakeup_socket]
    while True:
        # Blocking select with timeout
        rlist, _, xlist = select.select(sockets, [], sockets, 2)
        if not serv.is_running():
            logger.debug(f"{log_prefix}Exit due to shutdown")
            return
        if len(xlist) > 0:
            raise IOError(f"{log_prefix}Exceptional condition on socket")
        for s in rlist:
            try:
                data = s.recv(4096)
                if data is None or len(data) == 0:
                    return
                if s == a:
                    sendall(b, data)
                elif s == b:
                    sendall(a, data)
            except (BrokenPipeError, ConnectionResetError) as e:
                logger.debug(f"{log_prefix}cannot send or receive data on socket {'a' if s == a else 'b'}: {str(e)}")
                return

# Implementation classes
class Socks5Configuration():
    """Proxy configuration."""
    def __init__(self):
        self.addr = None # Bind address (must be set)
        self.af = socket.AF_INET # Bind address family
        self.unauth = False  # Support unauthenticated
        self.auth = False  # Support authentication
        self.keep_alive = False  # Do not automatically close connections
        # This function is called whenever a new connection arrives to the proxy
        # and it decides where the connection is redirected to. It is passed:
        # - the address the client requested to connect to
        # - the port the client requested to connect to
        # - the client's socket address as seen by the proxy, formatted as host:port
        # It is supposed to return an object like:
        # {
        #     "actual_to_addr": "127.0.0.1"
        #     "actual_to_port": 28276
        # }
        # or None.
        # If it returns an object then the connection is redirected to actual_to_addr:actual_to_port.
        # If it returns None, or destinations_factory itself is None then the connection is closed.
        self.destinations_factory = None

class Socks5Command():
    """Information about an incoming socks5 command."""
    def __init__(self, cmd, atyp, addr, port, username, password):
        self.cmd = cmd # Command (one of Command.*)
        self.atyp = atyp # Address type (one of AddressType.*)
        self.addr = addr # Address
        self.port = port # Port to connect to
        self.username = username
        self.password = password
    def __repr__(self):
        return 'Socks5Command(%s,%s,%s,%s,%s,%s)' % (self.cmd, self.atyp, self.addr, self.port, self.username, self.password)

class Socks5Connection():
    def __init__(self, serv, conn):
        self.serv = serv
        self.conn = conn
        # Socket-pair used to wake up blocking forwarding select
        # Note: a pipe could be used as well, but that does not work with select() on Windows
        self.wakeup_socket_pair = socket.socketpair()
        # Index of this handler (within the server)
        self.handler_index = None

    def handle(self):
        """Handle socks5 request according to RFC1928."""
        log_exception_prefix = "Socks5Connection.handle(): "
        try:
            proxy_client = format_sock(self.conn, local=False)
            log_exception_prefix = ("Socks5Connection.handle("
                                    f"client={proxy_client}, "
                                    f"proxy={format_sock(self.conn, local=True)}): ")

            # Verify socks version
            ver = recvall(self.conn, 1)[0]
            if ver != 0x05:
                raise IOError('Invalid socks version %i' % ver)
            # Choose authentication method
            nmethods = recvall(self.conn, 1)[0]
            methods = bytearray(recvall(self.conn, nmethods))
            method = None
            if 0x02 in methods and self.serv.conf.auth:
                method = 0x02 # username/password
            elif 0x00 in methods and self.serv.conf.unauth:
                method = 0x00 # unauthenticated
            if method is None:
                raise IOError('No supported authentication method was offered')
            # Send response
            self.conn.sendall(bytearray([0x05, method]))
            # Read authentication (optional)
            username = None
            password = None
            if method == 0x02:
                ver = recvall(self.conn, 1)[0]
                if ver != 0x01:
                    raise IOError('Invalid auth packet version %i' % ver)
                ulen = recvall(self.conn, 1)[0]
                username = str(recvall(self.conn, ulen))
                plen = recvall(self.conn, 1)[0]
                password = str(recvall(self.conn, plen))
                # Send authentication response
                self.conn.sendall(bytearray([0x01, 0x00]))

            # Read connect request
            ver, cmd, _, atyp = recvall(self.conn, 4)
            if ver != 0x05:
                raise IOError('Invalid socks version %i in connect request' % ver)
            if cmd != Command.CONNECT:
                raise IOError('Unhandled command %i in connect request' % cmd)

            if atyp == AddressType.IPV4:
                addr = recvall(self.conn, 4)
            elif atyp == AddressType.DOMAINNAME:
                n = recvall(self.conn, 1)[0]
                addr = recvall(self.conn, n)
            elif atyp == AddressType.IPV6:
                addr = recvall(self.conn, 16)
            else:
                raise IOError('Unknown address type %i' % atyp)
            port_hi,port_lo = recvall(self.conn, 2)
            port = (port_hi << 8) | port_lo

            # Reply SUCCESS before calling destinations_factory, so the client can finish
            # establishing the connection and register the peer; factories that consult
            # getpeerinfo depend on that order.
            self.conn.sendall(bytearray([0x05, 0x00, 0x00, 0x01, 0x00, 0x00, 0x00, 0x00, 0x00, 0x00]))

            cmdin = Socks5Command(cmd, atyp, addr, port, username, password)
            self.serv.queue.put(cmdin)
            logger.debug('Proxy: %s', cmdin)

            requested_to_addr = addr.decode("utf-8")
            requested_to = format_addr_port(requested_to_addr, port)

            if self.serv.is_running():
                if self.serv.conf.destinations_factory is not None:
                    dest = self.serv.conf.destinations_factory(requested_to_addr, port, proxy_client)
                    if dest is not None:
                        logger.debug(f"Serving connection to {requested_to}, will redirect it to "
                                    f"{dest['actual_to_addr']}:{dest['actual_to_port']} instead")
                        with socket.create_connection((dest["actual_to_addr"], dest["actual_to_port"])) as conn_to:
                            forward_sockets(self.conn, conn_to, self.wakeup_socket_pair[1], self.serv)
                            conn_to.close()
                    else:
                        logger.debug(f"Can't serve the connection to {requested_to}: the destinations factory returned None")
                else:
                    logger.debug(f"Can't serve the connection to {requested_to}: no destinations factory")

            # Disconnect happens in the "finally" block below.

        except (BrokenPipeError, ConnectionResetError) as e:
            logger.debug(f"{log_exception_prefix}abnormal connection close: {str(e)}")
        except Exception as e:
            logger.exception(f"{log_exception_prefix}exception: {str(e)} (running {self.serv.is_running()})")
            if self.serv.is_running():
                self.serv.queue.put(e)
        finally:
            if not self.serv.keep_alive:
                self.conn.close()
            else:
                logger.debug("Keeping client connection alive")
            s0 = self.wakeup_socket_pair[0]
            s1 = self.wakeup_socket_pair[1]
            self.wakeup_socket_pair = None
            try:
                s0.close()
                s1.close()
            except OSError:
                pass
            self.serv.remove_handler(self.handler_index)
            self.handler_index = None

    def wakeup(self):
        # Wake up the blocking forwarding select by writing to the wake-up socket
        try:
            socket_pair = self.wakeup_socket_pair
            if socket_pair is not None:
                socket_pair[0].send("CloseWakeup".encode())
                logger.debug("Waking up forwarding thread")
        except OSError as e:
            logger.warning(f"Error waking up forwarding thread: {e}")
            pass


# Wrapper for thread.join(), which may throw for daemon threads (in late stages of finalization).
# Return True if the thread is no longer active (join succeeded), False otherwise
# See PR #34863 for more details on using daemon threads.
def try_join_daemon_thread(thread, timeout=0) -> bool:
    try:
        thread.join(timeout=timeout)
        return not thread.is_alive()
    except Exception as e:
        logger.debug(f"Exception in thread.join, {e}")
        return True

class Socks5Server():
    def __init__(self, conf):
        self.conf = conf
        self.s = socket.socket(conf.af)
        self.s.setsockopt(socket.SOL_SOCKET, socket.SO_REUSEADDR, 1)
        # When using dynamic port allocation (port=0), ensure we don't get a
        # port that conflicts with the test framework's static port range.
        if conf.addr[1] == 0:
            set_ephemeral_port_range(self.s)
        self.s.bind(conf.addr)
        # When port=0, the OS assigns an available port. Update conf.addr
        # to reflect the actual bound address so callers can use it.
        self.conf.addr = self.s.getsockname()
        self.s.listen(5)
        # Set to False when stop is initiated
        self._running = False
        self._running_lock = threading.Lock()
        self.thread = None
        self.queue = queue.Queue() # report connections and exceptions to client
        self.keep_alive = conf.keep_alive
        # Store the background handlers, needed for clean shutdown
        # Append-only array, completed handlers are set to None
        self._handlers = []
        self._handlers_lock = threading.Lock()

    def is_running(self) -> bool:
        with self._running_lock:
            return self._running

    def set_running(self, new_value: bool):
        with self._running_lock:
            self._running = new_value

    def run(self):
        while self.is_running():
            (sockconn, _) = self.s.accept()
            if self.is_running():
                conn = Socks5Connection(self, sockconn)
                # Use "daemon" threads, see PR #34863 for more discussion.
                thread = threading.Thread(None, conn.handle, daemon=True)
                with self._handlers_lock:
                    conn.handler_index = len(self._handlers)
                    self._handlers.append((thread, conn))
                    assert(conn.handler_index < len(self._handlers))
                thread.start()

    def remove_handler(self, handler_index):
        with self._handlers_lock:
            if handler_index < len(self._handlers):
                if self._handlers[handler_index] is not None:
                    self._handlers[handler_index] = None
                    logger.debug(f"Handler {handler_index} removed")

    def start(self):
        assert not self.is_running()
        self.set_running(True)
        self.thread = threading.Thread(None, self.run, daemon=True)
        self.thread.start()

    def stop(self):
        self.set_running(False)
        # connect to self to end run loop
        s = socket.socket(self.conf.af)
        s.connect(self.conf.addr)
        s.close()
        self.thread.join()
        # if there are active handlers, close them
        with self._handlers_lock:
            items = list(self._handlers)
        for i, item in enumerate(items):
            if item is None:
                continue
            thread, conn = item
            # check if thread is still active
            if not try_join_daemon_thread(thread, timeout=0):
                conn.wakeup()
                if try_join_daemon_thread(thread, timeout=2):
                    logger.debug(f"Stop(): Handler {i} thread joined")
                else:
                    logger.warning(f"Stop(): Handler thread {i} didn't finish after force close")

def start_socks5_server(destinations_factory):
    config = Socks5Configuration()
    config.addr = ("127.0.0.1", 0) # Use port=0 to let the OS pick one. The actual port is later in server.conf.addr[1].
    config.unauth = True
    config.auth = True
    config.destinations_factory = destinations_factory

    server = Socks5Server(config)
    server.start()

    return server
