#!/usr/bin/env python3
# Copyright (c) 2026-present The Bitcoin Core developers
# Distributed under the MIT software license, see the accompanying
# file COPYING or http://www.opensource.org/licenses/mit-license.php.
"""Base classes for creating dynamic xprvs and xpubs. Only basic
functionality of BIP32 is provided here. These classes work over
the ECKey and ECPubKey classes in the key.py."""

import hashlib
import hmac
import unittest

from test_framework.address import byte_to_base58
from test_framework.crypto import secp256k1
from test_framework.key import (
    ECKey,
    ECPubKey,
    generate_privkey,
    ORDER,
)
from test_framework.script import hash160

BIP32_HARDENED = 0x80000000

def get_version(private=False, mainnet=False):
    if mainnet:
        if private:
            return bytes.fromhex("0488ADE4")
        return bytes.fromhex("0488B21E")

    if private:
        return bytes.fromhex("04358394")
    return bytes.fromhex("043587CF")

def hardened(index):
    assert 0 <= index < BIP32_HARDENED
    return index | BIP32_HARDENED

def derive_path(key, path, path_idx_parser):
    if path in ("", "m"):
        return key
    parts = path.split("/")
    if parts[0] == "m":
        parts = parts[1:]
    for part in parts:
        index = path_idx_parser(part)
        key = key._derive(index)

    return key

class ExtendedPrivateKey:
    def __init__(self, key, chaincode, depth=0, parent_fingerprint_bytes=b"\x00\x00\x00\x00", child_num=0):
        self.key = key
        self.chaincode = chaincode
        self.depth = depth
        self.parent_fingerprint_bytes = parent_fingerprint_bytes
        self.child_num = child_num

    @classmethod
    def from_seed(cls, seed):
        I = hmac.new(b"Bitcoin seed", seed, hashlib.sha512).digest()

        secret = I[:32]
        chaincode = I[32:]

        secret_int = int.from_bytes(secret, "big")
        if secret_int == 0 or secret_int >= ORDER:
            raise ValueError("Invalid master key")

        key = ECKey()
        key.set(secret, compressed=True)

        return cls(key, chaincode)

    @classmethod
    def generate(cls):
        return cls.from_seed(generate_privkey())

    def _fingerprint(self):
        return hash160(self.key.get_pubkey().get_bytes())[:4]

    def _derive(self, index):
        if index >= BIP32_HARDENED:
            data = (b"\x00" + self.key.get_bytes() + index.to_bytes(4, "big"))
        else:
            data = (self.key.get_pubkey().get_bytes() + index.to_bytes(4, "big"))

        I = hmac.new(self.chaincode, data, hashlib.sha512).digest()
        IL = I[:32]
        IR = I[32:]

        IL_int = int.from_bytes(IL, "big")
        child_secret = (IL_int + int.from_bytes(self.key.get_bytes(), "big")) % ORDER
        # Per BIP32, if IL >= n or the child key is 0, the key is invalid. This is
        # astronomically unlikely (~1 in 2^127), so reject rather than retrying the next index.
        if IL_int >= ORDER or child_secret == 0:
            raise ValueError("Invalid BIP32 child key")

        child = ECKey()
        child.set(child_secret.to_bytes(32, 'big'), compressed=True)

        return ExtendedPrivateKey(child, IR, self.depth + 1, self._fingerprint(), index)

    def _serialize(self):
        return (bytes([self.depth]) + self.parent_fingerprint_bytes + self.child_num.to_bytes(4, "big") + self.chaincode + b"\x00" + self.key.get_bytes())

    def pubkey(self):
        return ExtendedPublicKey(self.key.get_pubkey(), self.chaincode, self.depth, self.parent_fingerprint_bytes, self.child_num)

    def derive_path(self, path):
        def path_idx_parser(part):
            if part.endswith(("h", "'")):
                return hardened(int(part[:-1]))
            return int(part)

        return derive_path(self, path, path_idx_parser)

    def to_string(self, mainnet=False):
        return byte_to_base58(self._serialize(), get_version(private=True, mainnet=mainnet))

class ExtendedPublicKey:
    def __init__(self, pubkey, chaincode, depth, parent_fingerprint_bytes, child_num):
        self.pubkey = pubkey
        self.chaincode = chaincode
        self.depth = depth
        self.parent_fingerprint_bytes = parent_fingerprint_bytes
        self.child_num = child_num

    def _fingerprint(self):
        return hash160(self.pubkey.get_bytes())[:4]

    def _derive(self, index):
        if index >= BIP32_HARDENED:
            raise ValueError("Cannot derive hardened child from xpub")

        data = (self.pubkey.get_bytes() + index.to_bytes(4, "big"))
        I = hmac.new(self.chaincode, data, hashlib.sha512).digest()
        IL = I[:32]
        IR = I[32:]

        IL_int = int.from_bytes(IL, "big")
        child_point = IL_int * secp256k1.G + self.pubkey.p
        # Per BIP32, if IL >= n or the resulting point is infinity, the key is invalid.
        if IL_int >= ORDER or child_point.infinity:
            raise ValueError("Invalid BIP32 child key")

        child_pubkey = ECPubKey()
        child_pubkey.set(child_point.to_bytes_compressed())

        return ExtendedPublicKey(child_pubkey, IR, self.depth + 1, self._fingerprint(), index)

    def _serialize(self):
        return (bytes([self.depth]) + self.parent_fingerprint_bytes + self.child_num.to_bytes(4, "big") + self.chaincode + self.pubkey.get_bytes())

    def derive_path(self, path):
        return derive_path(self, path, lambda x: int(x))

    def to_string(self, mainnet=False):
        return byte_to_base58(self._serialize(), get_version(private=False, mainnet=mainnet))

class TestFrameworkExtendedKey(unittest.TestCase):
    def test_bip32_vectors(self):
        vectors = [
            [
                "000102030405060708090a0b0c0d0e0f",
                [
                    ["m", "xprv9s21ZrQH143K3QTDL4LXw2F7HEK3wJUD2nW2nRk4stbPy6cq3jPPqjiChkVvvNKmPGJxWUtg6LnF5kejMRNNU3TGtRBeJgk33yuGBxrMPHi", "xpub661MyMwAqRbcFtXgS5sYJABqqG9YLmC4Q1Rdap9gSE8NqtwybGhePY2gZ29ESFjqJoCu1Rupje8YtGqsefD265TMg7usUDFdp6W1EGMcet8"],
                    ["m/0h", "xprv9uHRZZhk6KAJC1avXpDAp4MDc3sQKNxDiPvvkX8Br5ngLNv1TxvUxt4cV1rGL5hj6KCesnDYUhd7oWgT11eZG7XnxHrnYeSvkzY7d2bhkJ7", "xpub68Gmy5EdvgibQVfPdqkBBCHxA5htiqg55crXYuXoQRKfDBFA1WEjWgP6LHhwBZeNK1VTsfTFUHCdrfp1bgwQ9xv5ski8PX9rL2dZXvgGDnw"],
                    ["m/0h/1", "xprv9wTYmMFdV23N2TdNG573QoEsfRrWKQgWeibmLntzniatZvR9BmLnvSxqu53Kw1UmYPxLgboyZQaXwTCg8MSY3H2EU4pWcQDnRnrVA1xe8fs", "xpub6ASuArnXKPbfEwhqN6e3mwBcDTgzisQN1wXN9BJcM47sSikHjJf3UFHKkNAWbWMiGj7Wf5uMash7SyYq527Hqck2AxYysAA7xmALppuCkwQ"],
                    ["m/0h/1/2h", "xprv9z4pot5VBttmtdRTWfWQmoH1taj2axGVzFqSb8C9xaxKymcFzXBDptWmT7FwuEzG3ryjH4ktypQSAewRiNMjANTtpgP4mLTj34bhnZX7UiM", "xpub6D4BDPcP2GT577Vvch3R8wDkScZWzQzMMUm3PWbmWvVJrZwQY4VUNgqFJPMM3No2dFDFGTsxxpG5uJh7n7epu4trkrX7x7DogT5Uv6fcLW5"],
                    ["m/0h/1/2h/2", "xprvA2JDeKCSNNZky6uBCviVfJSKyQ1mDYahRjijr5idH2WwLsEd4Hsb2Tyh8RfQMuPh7f7RtyzTtdrbdqqsunu5Mm3wDvUAKRHSC34sJ7in334", "xpub6FHa3pjLCk84BayeJxFW2SP4XRrFd1JYnxeLeU8EqN3vDfZmbqBqaGJAyiLjTAwm6ZLRQUMv1ZACTj37sR62cfN7fe5JnJ7dh8zL4fiyLHV"],
                    ["m/0h/1/2h/2/1000000000", "xprvA41z7zogVVwxVSgdKUHDy1SKmdb533PjDz7J6N6mV6uS3ze1ai8FHa8kmHScGpWmj4WggLyQjgPie1rFSruoUihUZREPSL39UNdE3BBDu76", "xpub6H1LXWLaKsWFhvm6RVpEL9P4KfRZSW7abD2ttkWP3SSQvnyA8FSVqNTEcYFgJS2UaFcxupHiYkro49S8yGasTvXEYBVPamhGW6cFJodrTHy"],
                ]
            ],
            [
                "fffcf9f6f3f0edeae7e4e1dedbd8d5d2cfccc9c6c3c0bdbab7b4b1aeaba8a5a29f9c999693908d8a8784817e7b7875726f6c696663605d5a5754514e4b484542",
                [
                    ["m", "xprv9s21ZrQH143K31xYSDQpPDxsXRTUcvj2iNHm5NUtrGiGG5e2DtALGdso3pGz6ssrdK4PFmM8NSpSBHNqPqm55Qn3LqFtT2emdEXVYsCzC2U", "xpub661MyMwAqRbcFW31YEwpkMuc5THy2PSt5bDMsktWQcFF8syAmRUapSCGu8ED9W6oDMSgv6Zz8idoc4a6mr8BDzTJY47LJhkJ8UB7WEGuduB"],
                    ["m/0", "xprv9vHkqa6EV4sPZHYqZznhT2NPtPCjKuDKGY38FBWLvgaDx45zo9WQRUT3dKYnjwih2yJD9mkrocEZXo1ex8G81dwSM1fwqWpWkeS3v86pgKt", "xpub69H7F5d8KSRgmmdJg2KhpAK8SR3DjMwAdkxj3ZuxV27CprR9LgpeyGmXUbC6wb7ERfvrnKZjXoUmmDznezpbZb7ap6r1D3tgFxHmwMkQTPH"],
                    ["m/0/2147483647h", "xprv9wSp6B7kry3Vj9m1zSnLvN3xH8RdsPP1Mh7fAaR7aRLcQMKTR2vidYEeEg2mUCTAwCd6vnxVrcjfy2kRgVsFawNzmjuHc2YmYRmagcEPdU9", "xpub6ASAVgeehLbnwdqV6UKMHVzgqAG8Gr6riv3Fxxpj8ksbH9ebxaEyBLZ85ySDhKiLDBrQSARLq1uNRts8RuJiHjaDMBU4Zn9h8LZNnBC5y4a"],
                    ["m/0/2147483647h/1", "xprv9zFnWC6h2cLgpmSA46vutJzBcfJ8yaJGg8cX1e5StJh45BBciYTRXSd25UEPVuesF9yog62tGAQtHjXajPPdbRCHuWS6T8XA2ECKADdw4Ef", "xpub6DF8uhdarytz3FWdA8TvFSvvAh8dP3283MY7p2V4SeE2wyWmG5mg5EwVvmdMVCQcoNJxGoWaU9DCWh89LojfZ537wTfunKau47EL2dhHKon"],
                    ["m/0/2147483647h/1/2147483646h", "xprvA1RpRA33e1JQ7ifknakTFpgNXPmW2YvmhqLQYMmrj4xJXXWYpDPS3xz7iAxn8L39njGVyuoseXzU6rcxFLJ8HFsTjSyQbLYnMpCqE2VbFWc", "xpub6ERApfZwUNrhLCkDtcHTcxd75RbzS1ed54G1LkBUHQVHQKqhMkhgbmJbZRkrgZw4koxb5JaHWkY4ALHY2grBGRjaDMzQLcgJvLJuZZvRcEL"],
                    ["m/0/2147483647h/1/2147483646h/2", "xprvA2nrNbFZABcdryreWet9Ea4LvTJcGsqrMzxHx98MMrotbir7yrKCEXw7nadnHM8Dq38EGfSh6dqA9QWTyefMLEcBYJUuekgW4BYPJcr9E7j", "xpub6FnCn6nSzZAw5Tw7cgR9bi15UV96gLZhjDstkXXxvCLsUXBGXPdSnLFbdpq8p9HmGsApME5hQTZ3emM2rnY5agb9rXpVGyy3bdW6EEgAtqt"]
                ]
            ]
        ]

        for vector in vectors:
            seed = bytes.fromhex(vector[0])
            xprv = ExtendedPrivateKey.from_seed(seed)
            for seed_vector in vector[1]:
                path = seed_vector[0]
                derivedxprv = xprv.derive_path(path)
                self.assertEqual(derivedxprv.to_string(mainnet=True), seed_vector[1])
                self.assertEqual(derivedxprv.pubkey().to_string(mainnet=True), seed_vector[2])
