#!/usr/bin/env python3
# Copyright (c) 2022-present The Bitcoin Core developers
# Distributed under the MIT software license, see the accompanying
# file COPYING or http://www.opensource.org/licenses/mit-license.php.

"""Test-only implementation of ChaCha20 cipher and FSChaCha20 for BIP 324

It is designed for ease of understanding, not performance.

WARNING: This code is slow and trivially vulnerable to side channel attacks. Do not use for
anything but tests.
"""

import unittest

CHACHA20_INDICES = (
    (0, 4, 8, 12), (1, 5, 9, 13), (2, 6, 10, 14), (3, 7, 11, 15),
    (0, 5, 10, 15), (1, 6, 11, 12), (2, 7, 8, 13), (3, 4, 9, 14)
)

CHACHA20_CONSTANTS = (0x61707865, 0x3320646e, 0x79622d32, 0x6b206574)
REKEY_INTERVAL = 224 # packets


def rotl32(v, bits):
    """Rotate the 32-bit value v left by bits bits."""
    bits %= 32  # Make sure the term below does not throw an exception
    return ((v << bits) & 0xffffffff) | (v >> (32 - bits))


def chacha20_doubleround(s):
    """Apply a ChaCha20 double round to 16-element state array s.
    See https://cr.yp.to/chacha/chacha-20080128.pdf and https://tools.ietf.org/html/rfc8439
    """
    for a, b, c, d in CHACHA20_INDICES:
        s[a] = (s[a] + s[b]) & 0xffffffff
        s[d] = rotl32(s[d] ^ s[a], 16)
        s[c] = (s[c] + s[d]) & 0xffffffff
        s[b] = rotl32(s[b] ^ s[c], 12)
        s[a] = (s[a] + s[b]) & 0xffffffff
        s[d] = rotl32(s[d] ^ s[a], 8)
        s[c] = (s[c] + s[d]) & 0xffffffff
        s[b] = rotl32(s[b] ^ s[c], 7)


def chacha20_block(key, nonce, cnt):
    """Compute the 64-byte output of the ChaCha20 block function.
    Takes as input a 32-byte key, 12-byte nonce, and 32-bit integer counter.
    """
    # Initial state.
    init = [0] * 16
    init[:4] = CHACHA20_CONSTANTS[:4]
    init[4:12] = [int.from_bytes(key[i:i+4], 'little') for i in range(0, 32, 4)]
    init[12] = cnt
    init[13:16] = [int.from_bytes(nonce[i:i+4], 'little') for i in range(0, 12, 4)]
    # Perform 20 rounds.
    state = list(init)
    for _ in range(10):
        chacha20_doubleround(state)
    # Add initial values back into state.
    for i in range(16):
        state[i] = (state[i] + init[i]) & 0xffffffff
    # Produce byte output
    return b''.join(state[i].to_bytes(4, 'little') for i in range(16))

class FSChaCha20:
    """Rekeying wrapper stream cipher around ChaCha20."""
    def __init__(self, initial_key, rekey_interval=REKEY_INTERVAL):
        self._key = initial_key
        self._rekey_interval = rekey_interval
        self._block_counter = 0
        self._chunk_counter = 0
        self._keystream = b''

    def _get_keystream_bytes(self, nbytes):
        while len(self._keystream) < nbytes:
            nonce = ((0).to_bytes(4, 'little') + (self._chunk_counter // self._rekey_interval).to_bytes(8, 'little'))
            self._keystream += chacha20_block(self._key, nonce, self._block_counter)
            self._block_counter += 1
        ret = self._keystream[:nbytes]
        self._keystream = self._keystream[nbytes:]
        return ret

    def crypt(self, chunk):
        ks = self._get_keystream_bytes(len(chunk))
        ret = bytes([ks[i] ^ chunk[i] for i in range(len(chunk))])
        if ((self._chunk_counter + 1) % self._rekey_interval) == 0:
            self._key = self._get_keystream_bytes(32)
            self._block_counter = 0
            self._keystream = b''
        self._chunk_counter += 1
        return ret


# Test vectors from RFC7539/8439 consisting of 32 byte key, 12 byte nonce, block counter
# and 64 byte output after applying `chacha20_block` function
CHACHA20_TESTS = [
    ["000102030405060708090a0b0c0d0e0f101112131415161718191a1b1c1d1e1f", [0x09000000, 0x4a000000], 1,
     "10f1e7e4d13b5915500fdd1fa32071c4c7d1f4c733c068030422aa9ac3d46c4e"
     "d2826446079faa0914c2d705d98b02a2b5129cd1de164eb9cbd083e8a2503c4e"],
    ["0000000000000000000000000000000000000000000000000000000000000000", [0, 0], 0,
     "76b8e0ada0f13d90405d6ae55386bd28bdd219b8a08ded1aa836efcc8b770dc7"
     "da41597c5157488d7724e03fb8d84a376a43b8f41518a11cc387b669b2ee6586"],
    ["0000000000000000000000000000000000000000000000000000000000000000", [0, 0], 1,
     "9f07e7be5551387a98ba977c732d080dcb0f29a048e3656912c6533e32ee7aed"
     "29b721769ce64e43d57133b074d839d531ed1f28510afb45ace10a1f4b794d6f"],
    ["0000000000000000000000000000000000000000000000000000000000000001", [0, 0], 1,
     "3aeb5224ecf849929b9d828db1ced4dd832025e8018b8160b82284f3c949aa5a"
     "8eca00bbb4a73bdad192b5c42f73f2fd4e273644c8b36125a64addeb006c13a0"],
    ["00ff000000000000000000000000000000000000000000000000000000000000", [0, 0], 2,
     "72d54dfbf12ec44b362692df94137f328fea8da73990265ec1bbbea1ae9af0ca"
     "13b25aa26cb4a648cb9b9d1be65b2c0924a66c54d545ec1b7374f4872e99f096"],
    ["0000000000000000000000000000000000000000000000000000000000000000", [0, 0x200000000000000], 0,
     "c2c64d378cd536374ae204b9ef933fcd1a8b2288b3dfa49672ab765b54ee27c7"
     "8a970e0e955c14f3a88e741b97c286f75f8fc299e8148362fa198a39531bed6d"],
    ["000102030405060708090a0b0c0d0e0f101112131415161718191a1b1c1d1e1f", [0, 0x4a000000], 1,
     "224f51f3401bd9e12fde276fb8631ded8c131f823d2c06e27e4fcaec9ef3cf78"
     "8a3b0aa372600a92b57974cded2b9334794cba40c63e34cdea212c4cf07d41b7"],
    ["0000000000000000000000000000000000000000000000000000000000000001", [0, 0], 0,
     "4540f05a9f1fb296d7736e7b208e3c96eb4fe1834688d2604f450952ed432d41"
     "bbe2a0b6ea7566d2a5d1e7e20d42af2c53d792b1c43fea817e9ad275ae546963"],
    ["0000000000000000000000000000000000000000000000000000000000000000", [0, 1], 0,
     "ef3fdfd6c61578fbf5cf35bd3dd33b8009631634d21e42ac33960bd138e50d32"
     "111e4caf237ee53ca8ad6426194a88545ddc497a0b466e7d6bbdb0041b2f586b"],
    ["000102030405060708090a0b0c0d0e0f101112131415161718191a1b1c1d1e1f", [0, 0x0706050403020100], 0,
     "f798a189f195e66982105ffb640bb7757f579da31602fc93ec01ac56f85ac3c1"
     "34a4547b733b46413042c9440049176905d3be59ea1c53f15916155c2be8241a"],
]

FSCHACHA20_TESTS = [
    ["000102030405060708090a0b0c0d0e0f101112131415161718191a1b1c1d1e1f",
     "0000000000000000000000000000000000000000000000000000000000000000", 256,
     "a93df4ef03011f3db95f60d996e1785df5de38fc39bfcb663a47bb5561928349"],
    ["01", "000102030405060708090a0b0c0d0e0f101112131415161718191a1b1c1d1e1f", 5, "ea"],
    ["e93fdb5c762804b9a706816aca31e35b11d2aa3080108ef46a5b1f1508819c0a",
     "8ec4c3ccdaea336bdeb245636970be01266509b33f3d2642504eaf412206207a", 4096,
     "8bfaa4eacff308fdb4a94a5ff25bd9d0c1f84b77f81239f67ff39d6e1ac280c9"],
]


class TestFrameworkChacha(unittest.TestCase):
    def test_chacha20(self):
        """ChaCha20 test vectors."""
        for test_vector in CHACHA20_TESTS:
            hex_key, nonce, counter, hex_output = test_vector
            key = bytes.fromhex(hex_key)
            nonce_bytes = nonce[0].to_bytes(4, 'little') + nonce[1].to_bytes(8, 'little')
            keystream = chacha20_block(key, nonce_bytes, counter)
            self.assertEqual(hex_output, keystream.hex())

    def test_fschacha20(self):
        """FSChaCha20 test vectors."""
        for test_vector in FSCHACHA20_TESTS:
            hex_plaintext, hex_key, rekey_interval, hex_ciphertext_after_rotation = test_vector
            plaintext = bytes.fromhex(hex_plaintext)
            key = bytes.fromhex(hex_key)
            fsc20 = FSChaCha20(key, rekey_interval)
            for _ in range(rekey_interval):
                fsc20.crypt(plaintext)

            ciphertext = fsc20.crypt(plaintext)
            self.assertEqual(hex_ciphertext_after_rotation, ciphertext.hex())
