#!/usr/bin/env python3
# Copyright (c) 2022-present The Bitcoin Core developers
# Distributed under the MIT software license, see the accompanying
# file COPYING or http://www.opensource.org/licenses/mit-license.php.
"""Test-only Elligator Swift implementation

WARNING: This code is slow and uses bad randomness.
Do not use for anything but tests."""

import csv
import os
import random
import unittest

from test_framework.crypto.secp256k1 import FE, G, GE
from test_framework.util import assert_equal

# Precomputed constant square root of -3 (mod p).
MINUS_3_SQRT = FE(-3).sqrt()

def xswiftec(u, t):
    """Decode field elements (u, t) to an X coordinate on the curve."""
    if u == 0:
        u = FE(1)
    if t == 0:
        t = FE(1)
    if u**3 + t**2 + 7 == 0:
        t = 2 * t
    X = (u**3 + 7 - t**2) / (2 * t)
    Y = (X + t) / (MINUS_3_SQRT * u)
    for x in (u + 4 * Y**2, (-X / Y - u) / 2, (X / Y - u) / 2):
        if GE.is_valid_x(x):
            return x
    assert False

def xswiftec_inv(x, u, case):
    """Given x and u, find t such that xswiftec(u, t) = x, or return None.

    Case selects which of the up to 8 results to return."""

    if case & 2 == 0:
        if GE.is_valid_x(-x - u):
            return None
        v = x
        s = -(u**3 + 7) / (u**2 + u*v + v**2)
    else:
        s = x - u
        if s == 0:
            return None
        r = (-s * (4 * (u**3 + 7) + 3 * s * u**2)).sqrt()
        if r is None:
            return None
        if case & 1 and r == 0:
            return None
        v = (-u + r / s) / 2
    w = s.sqrt()
    if w is None:
        return None
    if case & 5 == 0:
        return -w * (u * (1 - MINUS_3_SQRT) / 2 + v)
    if case & 5 == 1:
        return w * (u * (1 + MINUS_3_SQRT) / 2 + v)
    if case & 5 == 4:
        return w * (u * (1 - MINUS_3_SQRT) / 2 + v)
    if case & 5 == 5:
        return -w * (u * (1 + MINUS_3_SQRT) / 2 + v)

def xelligatorswift(x):
    """Given a field element X on the curve, find (u, t) that encode them."""
    assert GE.is_valid_x(x)
    while True:
        u = FE(random.randrange(1, FE.SIZE))
        case = random.randrange(0, 8)
        t = xswiftec_inv(x, u, case)
        if t is not None:
            return u, t

def ellswift_create():
    """Generate a (privkey, ellswift_pubkey) pair."""
    priv = random.randrange(1, GE.ORDER)
    u, t = xelligatorswift((priv * G).x)
    return priv.to_bytes(32, 'big'), u.to_bytes() + t.to_bytes()

def ellswift_ecdh_xonly(pubkey_theirs, privkey):
    """Compute X coordinate of shared ECDH point between ellswift pubkey and privkey."""
    u = FE(int.from_bytes(pubkey_theirs[:32], 'big'))
    t = FE(int.from_bytes(pubkey_theirs[32:], 'big'))
    d = int.from_bytes(privkey, 'big')
    return (d * GE.lift_x(xswiftec(u, t))).x.to_bytes()


class TestFrameworkEllSwift(unittest.TestCase):
    def test_xswiftec(self):
        """Verify that xswiftec maps all inputs to the curve."""
        for _ in range(32):
            u = FE(random.randrange(0, FE.SIZE))
            t = FE(random.randrange(0, FE.SIZE))
            x = xswiftec(u, t)
            self.assertTrue(GE.is_valid_x(x))

        # Check that inputs which are considered undefined in the original
        # SwiftEC paper can also be decoded successfully (by remapping)
        undefined_inputs = [
            (FE(0), FE(23)),  # u = 0
            (FE(42), FE(0)),  # t = 0
            (FE(5), FE(-132).sqrt()),  # u^3 + t^2 + 7 = 0
        ]
        assert_equal(undefined_inputs[-1][0]**3 + undefined_inputs[-1][1]**2 + 7, 0)
        for u, t in undefined_inputs:
            x = xswiftec(u, t)
            self.assertTrue(GE.is_valid_x(x))

    def test_elligator_roundtrip(self):
        """Verify that encoding using xelligatorswift decodes back using xswiftec."""
        for _ in range(32):
            while True:
                # Loop until we find a valid X coordinate on the curve.
                x = FE(random.randrange(1, FE.SIZE))
                if GE.is_valid_x(x):
                    break
            # Encoding it to (u, t), decode it back, and compare.
            u, t = xelligatorswift(x)
            x2 = xswiftec(u, t)
            self.assertEqual(x2, x)

    def test_ellswift_ecdh_xonly(self):
        """Verify that shared secret computed by ellswift_ecdh_xonly match."""
        for _ in range(32):
            privkey1, encoding1 = ellswift_create()
            privkey2, encoding2 = ellswift_create()
            shared_secret1 = ellswift_ecdh_xonly(encoding1, privkey2)
            shared_secret2 = ellswift_ecdh_xonly(encoding2, privkey1)
            self.assertEqual(shared_secret1, shared_secret2)

    def test_elligator_encode_testvectors(self):
        """Implement the BIP324 test vectors for ellswift encoding (read from xswiftec_inv_test_vectors.csv)."""
        vectors_file = os.path.join(os.path.dirname(os.path.realpath(__file__)), 'xswiftec_inv_test_vectors.csv')
        with open(vectors_file, newline='') as csvfile:
            reader = csv.DictReader(csvfile)
            for row in reader:
                u = FE.from_bytes(bytes.fromhex(row['u']))
                x = FE.from_bytes(bytes.fromhex(row['x']))
                for case in range(8):
                    ret = xswiftec_inv(x, u, case)
                    if ret is None:
                        self.assertEqual(row[f"case{case}_t"], "")
                    else:
                        self.assertEqual(row[f"case{case}_t"], ret.to_bytes().hex())
                        self.assertEqual(xswiftec(u, ret), x)

    def test_elligator_decode_testvectors(self):
        """Implement the BIP324 test vectors for ellswift decoding (read from ellswift_decode_test_vectors.csv)."""
        vectors_file = os.path.join(os.path.dirname(os.path.realpath(__file__)), 'ellswift_decode_test_vectors.csv')
        with open(vectors_file, newline='') as csvfile:
            reader = csv.DictReader(csvfile)
            for row in reader:
                encoding = bytes.fromhex(row['ellswift'])
                assert_equal(len(encoding), 64)
                expected_x = FE(int(row['x'], 16))
                u = FE(int.from_bytes(encoding[:32], 'big'))
                t = FE(int.from_bytes(encoding[32:], 'big'))
                x = xswiftec(u, t)
                self.assertEqual(x, expected_x)
                self.assertTrue(GE.is_valid_x(x))
