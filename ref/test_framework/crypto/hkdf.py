#!/usr/bin/env python3
# Copyright (c) 2023-present The Bitcoin Core developers
# Distributed under the MIT software license, see the accompanying
# file COPYING or http://www.opensource.org/licenses/mit-license.php.

"""Test-only HKDF-SHA256 implementation

It is designed for ease of understanding, not performance.

WARNING: This code is slow and trivially vulnerable to side channel attacks. Do not use for
anything but tests.
"""

import hashlib
import hmac


def hmac_sha256(key, data):
    """Compute HMAC-SHA256 from specified byte arrays key and data."""
    return hmac.new(key, data, hashlib.sha256).digest()


def hkdf_sha256(length, ikm, salt, info):
    """Derive a key using HKDF-SHA256."""
    if len(salt) == 0:
        salt = bytes([0] * 32)
    prk = hmac_sha256(salt, ikm)
    t = b""
    okm = b""
    for i in range((length + 32 - 1) // 32):
        t = hmac_sha256(prk, t + info + bytes([i + 1]))
        okm += t
    return okm[:length]
