# Copyright (c) 2020 Pieter Wuille
# Distributed under the MIT software license, see the accompanying
# file COPYING or http://www.opensource.org/licenses/mit-license.php.
"""Native Python MuHash3072 implementation."""

import hashlib
import unittest

from .chacha20 import chacha20_block

def data_to_num3072(data):
    """Hash a 32-byte array data to a 3072-bit number using 6 Chacha20 operations."""
    bytes384 = b""
    for counter in range(6):
        bytes384 += chacha20_block(data, bytes(12), counter)
    return int.from_bytes(bytes384, 'little')

class MuHash3072:
    """Class representing the MuHash3072 computation of a set.

    See https://cseweb.ucsd.edu/~mihir/papers/inchash.pdf and https://lists.linuxfoundation.org/pipermail/bitcoin-dev/2017-May/014337.html
    """

    MODULUS = 2**3072 - 1103717

    def __init__(self):
        """Initialize for an empty set."""
        self.numerator = 1
        self.denominator = 1

    def insert(self, data):
        """Insert a byte array data in the set."""
        data_hash = hashlib.sha256(data).digest()
        self.numerator = (self.numerator * data_to_num3072(data_hash)) % self.MODULUS

    def remove(self, data):
        """Remove a byte array from the set."""
        data_hash = hashlib.sha256(data).digest()
        self.denominator = (self.denominator * data_to_num3072(data_hash)) % self.MODULUS

    def digest(self):
        """Extract the final hash. Does not modify this object."""
        val = (self.numerator * pow(self.denominator, -1, self.MODULUS)) % self.MODULUS
        bytes384 = val.to_bytes(384, 'little')
        return hashlib.sha256(bytes384).digest()

class TestFrameworkMuhash(unittest.TestCase):
    def test_muhash(self):
        muhash = MuHash3072()
        muhash.insert(b'\x00' * 32)
        muhash.insert((b'\x01' + b'\x00' * 31))
        muhash.remove((b'\x02' + b'\x00' * 31))
        finalized = muhash.digest()
        # This mirrors the result in the C++ MuHash3072 unit test
        self.assertEqual(finalized[::-1].hex(), "10d312b100cbd32ada024a6646e40d3482fcff103668d2625f10002a607d5863")
