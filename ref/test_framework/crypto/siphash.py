#!/usr/bin/env python3
# Copyright (c) 2016-present The Bitcoin Core developers
# Distributed under the MIT software license, see the accompanying
# file COPYING or http://www.opensource.org/licenses/mit-license.php.
"""SipHash-2-4 implementation.

This implements SipHash-2-4. For convenience, an interface taking 256-bit
integers is provided in addition to the one accepting generic data.
"""

import json
from pathlib import Path
import unittest


def rotl64(n, b):
    return n >> (64 - b) | (n & ((1 << (64 - b)) - 1)) << b


def siphash_round(v0, v1, v2, v3):
    v0 = (v0 + v1) & ((1 << 64) - 1)
    v1 = rotl64(v1, 13)
    v1 ^= v0
    v0 = rotl64(v0, 32)
    v2 = (v2 + v3) & ((1 << 64) - 1)
    v3 = rotl64(v3, 16)
    v3 ^= v2
    v0 = (v0 + v3) & ((1 << 64) - 1)
    v3 = rotl64(v3, 21)
    v3 ^= v0
    v2 = (v2 + v1) & ((1 << 64) - 1)
    v1 = rotl64(v1, 17)
    v1 ^= v2
    v2 = rotl64(v2, 32)
    return (v0, v1, v2, v3)


def siphash(k0, k1, data):
    assert type(data) is bytes
    v0 = 0x736f6d6570736575 ^ k0
    v1 = 0x646f72616e646f6d ^ k1
    v2 = 0x6c7967656e657261 ^ k0
    v3 = 0x7465646279746573 ^ k1
    c = 0
    t = 0
    for d in data:
        t |= d << (8 * (c % 8))
        c = (c + 1) & 0xff
        if (c & 7) == 0:
            v3 ^= t
            v0, v1, v2, v3 = siphash_round(v0, v1, v2, v3)
            v0, v1, v2, v3 = siphash_round(v0, v1, v2, v3)
            v0 ^= t
            t = 0
    t = t | (c << 56)
    v3 ^= t
    v0, v1, v2, v3 = siphash_round(v0, v1, v2, v3)
    v0, v1, v2, v3 = siphash_round(v0, v1, v2, v3)
    v0 ^= t
    v2 ^= 0xff
    v0, v1, v2, v3 = siphash_round(v0, v1, v2, v3)
    v0, v1, v2, v3 = siphash_round(v0, v1, v2, v3)
    v0, v1, v2, v3 = siphash_round(v0, v1, v2, v3)
    v0, v1, v2, v3 = siphash_round(v0, v1, v2, v3)
    return v0 ^ v1 ^ v2 ^ v3


def siphash256(k0, k1, num):
    assert type(num) is int
    return siphash(k0, k1, num.to_bytes(32, 'little'))


class TestFrameworkSipHash(unittest.TestCase):
    def test_vectors(self):
        with (Path(__file__).parents[4] / "src/test/data/siphash.json").open() as vectors_file:
            for test in json.load(vectors_file):
                k0, k1 = (int(key, 16) for key in test["key"])
                data = b"".join(bytes.fromhex(block) for block in test["input"])
                self.assertEqual(siphash(k0, k1, data), int(test["expected"]["siphash24"], 16))
