# Copyright (c) 2022-present The Bitcoin Core developers
# Distributed under the MIT software license, see the accompanying
# file COPYING or http://www.opensource.org/licenses/mit-license.php.

"""Test-only implementation of low-level secp256k1 field and group arithmetic

It is designed for ease of understanding, not performance.

WARNING: This code is slow and trivially vulnerable to side channel attacks. Do not use for
anything but tests.

Exports:
* FE: class for secp256k1 field elements
* GE: class for secp256k1 group elements
* G: the secp256k1 generator point
"""

import unittest
from hashlib import sha256
from test_framework.util import assert_equal, assert_not_equal

class FE:
    """Objects of this class represent elements of the field GF(2**256 - 2**32 - 977).

    They are represented internally in numerator / denominator form, in order to delay inversions.
    """

    # The size of the field (also its modulus and characteristic).
    SIZE = 2**256 - 2**32 - 977

    def __init__(self, a=0, b=1):
        """Initialize a field element a/b; both a and b can be ints or field elements."""
        if isinstance(a, FE):
            num = a._num
            den = a._den
        else:
            num = a % FE.SIZE
            den = 1
        if isinstance(b, FE):
            den = (den * b._num) % FE.SIZE
            num = (num * b._den) % FE.SIZE
        else:
            den = (den * b) % FE.SIZE
        assert_not_equal(den, 0)
        if num == 0:
            den = 1
        self._num = num
        self._den = den

    def __add__(self, a):
        """Compute the sum of two field elements (second may be int)."""
        if isinstance(a, FE):
            return FE(self._num * a._den + self._den * a._num, self._den * a._den)
        return FE(self._num + self._den * a, self._den)

    def __radd__(self, a):
        """Compute the sum of an integer and a field element."""
        return FE(a) + self

    def __sub__(self, a):
        """Compute the difference of two field elements (second may be int)."""
        if isinstance(a, FE):
            return FE(self._num * a._den - self._den * a._num, self._den * a._den)
        return FE(self._num - self._den * a, self._den)

    def __rsub__(self, a):
        """Compute the difference of an integer and a field element."""
        return FE(a) - self

    def __mul__(self, a):
        """Compute the product of two field elements (second may be int)."""
        if isinstance(a, FE):
            return FE(self._num * a._num, self._den * a._den)
        return FE(self._num * a, self._den)

    def __rmul__(self, a):
        """Compute the product of an integer with a field element."""
        return FE(a) * self

    def __truediv__(self, a):
        """Compute the ratio of two field elements (second may be int)."""
        return FE(self, a)

    def __pow__(self, a):
        """Raise a field element to an integer power."""
        return FE(pow(self._num, a, FE.SIZE), pow(self._den, a, FE.SIZE))

    def __neg__(self):
        """Negate a field element."""
        return FE(-self._num, self._den)

    def __int__(self):
        """Convert a field element to an integer in range 0..p-1. The result is cached."""
        if self._den != 1:
            self._num = (self._num * pow(self._den, -1, FE.SIZE)) % FE.SIZE
            self._den = 1
        return self._num

    def sqrt(self):
        """Compute the square root of a field element if it exists (None otherwise).

        Due to the fact that our modulus is of the form (p % 4) == 3, the Tonelli-Shanks
        algorithm (https://en.wikipedia.org/wiki/Tonelli-Shanks_algorithm) is simply
        raising the argument to the power (p + 1) / 4.

        To see why: (p-1) % 2 = 0, so 2 divides the order of the multiplicative group,
        and thus only half of the non-zero field elements are squares. An element a is
        a (nonzero) square when Euler's criterion, a^((p-1)/2) = 1 (mod p), holds. We're
        looking for x such that x^2 = a (mod p). Given a^((p-1)/2) = 1, that is equivalent
        to x^2 = a^(1 + (p-1)/2) mod p. As (1 + (p-1)/2) is even, this is equivalent to
        x = a^((1 + (p-1)/2)/2) mod p, or x = a^((p+1)/4) mod p."""
        v = int(self)
        s = pow(v, (FE.SIZE + 1) // 4, FE.SIZE)
        if s**2 % FE.SIZE == v:
            return FE(s)
        return None

    def is_square(self):
        """Determine if this field element has a square root."""
        # A more efficient algorithm is possible here (Jacobi symbol).
        return self.sqrt() is not None

    def is_even(self):
        """Determine whether this field element, represented as integer in 0..p-1, is even."""
        return int(self) & 1 == 0

    def __eq__(self, a):
        """Check whether two field elements are equal (second may be an int)."""
        if isinstance(a, FE):
            return (self._num * a._den - self._den * a._num) % FE.SIZE == 0
        return (self._num - self._den * a) % FE.SIZE == 0

    def to_bytes(self):
        """Convert a field element to a 32-byte array (BE byte order)."""
        return int(self).to_bytes(32, 'big')

    @staticmethod
    def from_bytes(b):
        """Convert a 32-byte array to a field element (BE byte order, no overflow allowed)."""
        v = int.from_bytes(b, 'big')
        if v >= FE.SIZE:
            return None
        return FE(v)

    def __str__(self):
        """Convert this field element to a 64 character hex string."""
        return f"{int(self):064x}"

    def __repr__(self):
        """Get a string representation of this field element."""
        return f"FE(0x{int(self):x})"


class GE:
    """Objects of this class represent secp256k1 group elements (curve points or infinity)

    Normal points on the curve have fields:
    * x: the x coordinate (a field element)
    * y: the y coordinate (a field element, satisfying y^2 = x^3 + 7)
    * infinity: False

    The point at infinity has field:
    * infinity: True
    """

    # Order of the group (number of points on the curve, plus 1 for infinity)
    ORDER = 0xFFFFFFFFFFFFFFFFFFFFFFFFFFFFFFFEBAAEDCE6AF48A03BBFD25E8CD0364141

    # Number of valid distinct x coordinates on the curve.
    ORDER_HALF = ORDER // 2

    def __init__(self, x=None, y=None):
        """Initialize a group element with specified x and y coordinates, or infinity."""
        if x is None:
            # Initialize as infinity.
            assert y is None
            self.infinity = True
        else:
            # Initialize as point on the curve (and check that it is).
            fx = FE(x)
            fy = FE(y)
            assert_equal(fy**2, fx**3 + 7)
            self.infinity = False
            self.x = fx
            self.y = fy

    def __add__(self, a):
        """Add two group elements together."""
        # Deal with infinity: a + infinity == infinity + a == a.
        if self.infinity:
            return a
        if a.infinity:
            return self
        if self.x == a.x:
            if self.y != a.y:
                # A point added to its own negation is infinity.
                assert_equal(self.y + a.y, 0)
                return GE()
            else:
                # For identical inputs, use the tangent (doubling formula).
                lam = (3 * self.x**2) / (2 * self.y)
        else:
            # For distinct inputs, use the line through both points (adding formula).
            lam = (self.y - a.y) / (self.x - a.x)
        # Determine point opposite to the intersection of that line with the curve.
        x = lam**2 - (self.x + a.x)
        y = lam * (self.x - x) - self.y
        return GE(x, y)

    @staticmethod
    def mul(*aps):
        """Compute a (batch) scalar group element multiplication.

        GE.mul((a1, p1), (a2, p2), (a3, p3)) is identical to a1*p1 + a2*p2 + a3*p3,
        but more efficient."""
        # Reduce all the scalars modulo order first (so we can deal with negatives etc).
        naps = [(a % GE.ORDER, p) for a, p in aps]
        # Start with point at infinity.
        r = GE()
        # Iterate over all bit positions, from high to low.
        for i in range(255, -1, -1):
            # Double what we have so far.
            r = r + r
            # Add then add the points for which the corresponding scalar bit is set.
            for (a, p) in naps:
                if (a >> i) & 1:
                    r += p
        return r

    def __rmul__(self, a):
        """Multiply an integer with a group element."""
        if self == G:
            return FAST_G.mul(a)
        return GE.mul((a, self))

    def __neg__(self):
        """Compute the negation of a group element."""
        if self.infinity:
            return self
        return GE(self.x, -self.y)

    def to_bytes_compressed(self):
        """Convert a non-infinite group element to 33-byte compressed encoding."""
        assert not self.infinity
        return bytes([3 - self.y.is_even()]) + self.x.to_bytes()

    def to_bytes_uncompressed(self):
        """Convert a non-infinite group element to 65-byte uncompressed encoding."""
        assert not self.infinity
        return b'\x04' + self.x.to_bytes() + self.y.to_bytes()

    def to_bytes_xonly(self):
        """Convert (the x coordinate of) a non-infinite group element to 32-byte xonly encoding."""
        assert not self.infinity
        return self.x.to_bytes()

    @staticmethod
    def lift_x(x):
        """Return group element with specified field element as x coordinate (and even y)."""
        y = (FE(x)**3 + 7).sqrt()
        if y is None:
            return None
        if not y.is_even():
            y = -y
        return GE(x, y)

    @staticmethod
    def from_bytes(b):
        """Convert a compressed or uncompressed encoding to a group element."""
        assert len(b) in (33, 65)
        if len(b) == 33:
            if b[0] != 2 and b[0] != 3:
                return None
            x = FE.from_bytes(b[1:])
            if x is None:
                return None
            r = GE.lift_x(x)
            if r is None:
                return None
            if b[0] == 3:
                r = -r
            return r
        else:
            if b[0] != 4:
                return None
            x = FE.from_bytes(b[1:33])
            y = FE.from_bytes(b[33:])
            if y**2 != x**3 + 7:
                return None
            return GE(x, y)

    @staticmethod
    def from_bytes_xonly(b):
        """Convert a point given in xonly encoding to a group element."""
        assert_equal(len(b), 32)
        x = FE.from_bytes(b)
        if x is None:
            return None
        return GE.lift_x(x)

    @staticmethod
    def is_valid_x(x):
        """Determine whether the provided field element is a valid X coordinate."""
        return (FE(x)**3 + 7).is_square()

    def __str__(self):
        """Convert this group element to a string."""
        if self.infinity:
            return "(inf)"
        return f"({self.x},{self.y})"

    def __repr__(self):
        """Get a string representation for this group element."""
        if self.infinity:
            return "GE()"
        return f"GE(0x{int(self.x):x},0x{int(self.y):x})"

# The secp256k1 generator point
G = GE.lift_x(0x79BE667EF9DCBBAC55A06295CE870B07029BFCDB2DCE28D959F2815B16F81798)


class FastGEMul:
    """Table for fast multiplication with a constant group element.

    Speed up scalar multiplication with a fixed point P by using a precomputed lookup table with
    its powers of 2:

        table = [P, 2*P, 4*P, (2^3)*P, (2^4)*P, ..., (2^255)*P]

    During multiplication, the points corresponding to each bit set in the scalar are added up,
    i.e. on average ~128 point additions take place.
    """

    def __init__(self, p):
        self.table = [p]  # table[i] = (2^i) * p
        for _ in range(255):
            p = p + p
            self.table.append(p)

    def mul(self, a):
        result = GE()
        a = a % GE.ORDER
        for bit in range(a.bit_length()):
            if a & (1 << bit):
                result += self.table[bit]
        return result

# Precomputed table with multiples of G for fast multiplication
FAST_G = FastGEMul(G)

class TestFrameworkSecp256k1(unittest.TestCase):
    def test_H(self):
        H = sha256(G.to_bytes_uncompressed()).digest()
        assert GE.lift_x(FE.from_bytes(H)) is not None
        self.assertEqual(H.hex(), "50929b74c1a04954b78b4b6035e97a5e078a5a0f28ec96d547bfee9ace803ac0")
