# Copyright (c) 2021 Pieter Wuille
# Distributed under the MIT software license, see the accompanying
# file COPYING or http://www.opensource.org/licenses/mit-license.php.
"""Test-only pure Python RIPEMD160 implementation."""

import unittest

# Message schedule indexes for the left path.
ML = [
    0, 1, 2, 3, 4, 5, 6, 7, 8, 9, 10, 11, 12, 13, 14, 15,
    7, 4, 13, 1, 10, 6, 15, 3, 12, 0, 9, 5, 2, 14, 11, 8,
    3, 10, 14, 4, 9, 15, 8, 1, 2, 7, 0, 6, 13, 11, 5, 12,
    1, 9, 11, 10, 0, 8, 12, 4, 13, 3, 7, 15, 14, 5, 6, 2,
    4, 0, 5, 9, 7, 12, 2, 10, 14, 1, 3, 8, 11, 6, 15, 13
]

# Message schedule indexes for the right path.
MR = [
    5, 14, 7, 0, 9, 2, 11, 4, 13, 6, 15, 8, 1, 10, 3, 12,
    6, 11, 3, 7, 0, 13, 5, 10, 14, 15, 8, 12, 4, 9, 1, 2,
    15, 5, 1, 3, 7, 14, 6, 9, 11, 8, 12, 2, 10, 0, 4, 13,
    8, 6, 4, 1, 3, 11, 15, 0, 5, 12, 2, 13, 9, 7, 10, 14,
    12, 15, 10, 4, 1, 5, 8, 7, 6, 2, 13, 14, 0, 3, 9, 11
]

# Rotation counts for the left path.
RL = [
    11, 14, 15, 12, 5, 8, 7, 9, 11, 13, 14, 15, 6, 7, 9, 8,
    7, 6, 8, 13, 11, 9, 7, 15, 7, 12, 15, 9, 11, 7, 13, 12,
    11, 13, 6, 7, 14, 9, 13, 15, 14, 8, 13, 6, 5, 12, 7, 5,
    11, 12, 14, 15, 14, 15, 9, 8, 9, 14, 5, 6, 8, 6, 5, 12,
    9, 15, 5, 11, 6, 8, 13, 12, 5, 12, 13, 14, 11, 8, 5, 6
]

# Rotation counts for the right path.
RR = [
    8, 9, 9, 11, 13, 15, 15, 5, 7, 7, 8, 11, 14, 14, 12, 6,
    9, 13, 15, 7, 12, 8, 9, 11, 7, 7, 12, 7, 6, 15, 13, 11,
    9, 7, 15, 11, 8, 6, 6, 14, 12, 13, 5, 14, 13, 13, 7, 5,
    15, 5, 8, 11, 14, 14, 6, 14, 6, 9, 12, 9, 12, 5, 15, 8,
    8, 5, 12, 9, 12, 5, 14, 6, 8, 13, 6, 5, 15, 13, 11, 11
]

# K constants for the left path.
KL = [0, 0x5a827999, 0x6ed9eba1, 0x8f1bbcdc, 0xa953fd4e]

# K constants for the right path.
KR = [0x50a28be6, 0x5c4dd124, 0x6d703ef3, 0x7a6d76e9, 0]


def fi(x, y, z, i):
    """The f1, f2, f3, f4, and f5 functions from the specification."""
    if i == 0:
        return x ^ y ^ z
    elif i == 1:
        return (x & y) | (~x & z)
    elif i == 2:
        return (x | ~y) ^ z
    elif i == 3:
        return (x & z) | (y & ~z)
    elif i == 4:
        return x ^ (y | ~z)
    else:
        assert False


def rol(x, i):
    """Rotate the bottom 32 bits of x left by i bits."""
    return ((x << i) | ((x & 0xffffffff) >> (32 - i))) & 0xffffffff


def compress(h0, h1, h2, h3, h4, block):
    """Compress state (h0, h1, h2, h3, h4) with block."""
    # Left path variables.
    al, bl, cl, dl, el = h0, h1, h2, h3, h4
    # Right path variables.
    ar, br, cr, dr, er = h0, h1, h2, h3, h4
    # Message variables.
    x = [int.from_bytes(block[4*i:4*(i+1)], 'little') for i in range(16)]

    # Iterate over the 80 rounds of the compression.
    for j in range(80):
        rnd = j >> 4
        # Perform left side of the transformation.
        al = rol(al + fi(bl, cl, dl, rnd) + x[ML[j]] + KL[rnd], RL[j]) + el
        al, bl, cl, dl, el = el, al, bl, rol(cl, 10), dl
        # Perform right side of the transformation.
        ar = rol(ar + fi(br, cr, dr, 4 - rnd) + x[MR[j]] + KR[rnd], RR[j]) + er
        ar, br, cr, dr, er = er, ar, br, rol(cr, 10), dr

    # Compose old state, left transform, and right transform into new state.
    return h1 + cl + dr, h2 + dl + er, h3 + el + ar, h4 + al + br, h0 + bl + cr


def ripemd160(data):
    """Compute the RIPEMD-160 hash of data."""
    # Initialize state.
    state = (0x67452301, 0xefcdab89, 0x98badcfe, 0x10325476, 0xc3d2e1f0)
    # Process full 64-byte blocks in the input.
    for b in range(len(data) >> 6):
        state = compress(*state, data[64*b:64*(b+1)])
    # Construct final blocks (with padding and size).
    pad = b"\x80" + b"\x00" * ((119 - len(data)) & 63)
    fin = data[len(data) & ~63:] + pad + (8 * len(data)).to_bytes(8, 'little')
    # Process final blocks.
    for b in range(len(fin) >> 6):
        state = compress(*state, fin[64*b:64*(b+1)])
    # Produce output.
    return b"".join((h & 0xffffffff).to_bytes(4, 'little') for h in state)


class TestFrameworkKey(unittest.TestCase):
    def test_ripemd160(self):
        """RIPEMD-160 test vectors."""
        # See https://homes.esat.kuleuven.be/~bosselae/ripemd160.html
        for msg, hexout in [
            (b"", "9c1185a5c5e9fc54612808977ee8f548b2258d31"),
            (b"a", "0bdc9d2d256b3ee9daae347be6f4dc835a467ffe"),
            (b"abc", "8eb208f7e05d987a9b044a8e98c6b087f15a0bfc"),
            (b"message digest", "5d0689ef49d2fae572b881b123a85ffa21595f36"),
            (b"abcdefghijklmnopqrstuvwxyz",
                "f71c27109c692c1b56bbdceb5b9d2865b3708dbc"),
            (b"abcdbcdecdefdefgefghfghighijhijkijkljklmklmnlmnomnopnopq",
                "12a053384a9c0c88e405a06c27dcf49ada62eb2b"),
            (b"ABCDEFGHIJKLMNOPQRSTUVWXYZabcdefghijklmnopqrstuvwxyz0123456789",
                "b0e20b6e3116640286ed3a87a5713079b21f5189"),
            (b"1234567890" * 8, "9b752e45573d4b39f4dbd3323cab82bf63326bfb"),
            (b"a" * 1000000, "52783243c1697bdbe16d37f97f68f08325dc1528")
        ]:
            self.assertEqual(ripemd160(msg).hex(), hexout)
