#!/usr/bin/env python3
# Copyright (c) 2022-present The Bitcoin Core developers
# Distributed under the MIT software license, see the accompanying
# file COPYING or http://www.opensource.org/licenses/mit-license.php.

"""Test-only implementation of ChaCha20 Poly1305 AEAD Construction in RFC 8439 and FSChaCha20Poly1305 for BIP 324

It is designed for ease of understanding, not performance.

WARNING: This code is slow and trivially vulnerable to side channel attacks. Do not use for
anything but tests.
"""

import unittest

from .chacha20 import chacha20_block, REKEY_INTERVAL
from .poly1305 import Poly1305


def pad16(x):
    if len(x) % 16 == 0:
        return b''
    return b'\x00' * (16 - (len(x) % 16))


def aead_chacha20_poly1305_encrypt(key, nonce, aad, plaintext):
    """Encrypt a plaintext using ChaCha20Poly1305."""
    if plaintext is None:
        return None
    ret = bytearray()
    msg_len = len(plaintext)
    for i in range((msg_len + 63) // 64):
        now = min(64, msg_len - 64 * i)
        keystream = chacha20_block(key, nonce, i + 1)
        for j in range(now):
            ret.append(plaintext[j + 64 * i] ^ keystream[j])
    poly1305 = Poly1305(chacha20_block(key, nonce, 0)[:32])
    mac_data = aad + pad16(aad)
    mac_data += ret + pad16(ret)
    mac_data += len(aad).to_bytes(8, 'little') + msg_len.to_bytes(8, 'little')
    ret += poly1305.tag(mac_data)
    return bytes(ret)


def aead_chacha20_poly1305_decrypt(key, nonce, aad, ciphertext):
    """Decrypt a ChaCha20Poly1305 ciphertext."""
    if ciphertext is None or len(ciphertext) < 16:
        return None
    msg_len = len(ciphertext) - 16
    poly1305 = Poly1305(chacha20_block(key, nonce, 0)[:32])
    mac_data = aad + pad16(aad)
    mac_data += ciphertext[:-16] + pad16(ciphertext[:-16])
    mac_data += len(aad).to_bytes(8, 'little') + msg_len.to_bytes(8, 'little')
    if ciphertext[-16:] != poly1305.tag(mac_data):
        return None
    ret = bytearray()
    for i in range((msg_len + 63) // 64):
        now = min(64, msg_len - 64 * i)
        keystream = chacha20_block(key, nonce, i + 1)
        for j in range(now):
            ret.append(ciphertext[j + 64 * i] ^ keystream[j])
    return bytes(ret)


class FSChaCha20Poly1305:
    """Rekeying wrapper AEAD around ChaCha20Poly1305."""
    def __init__(self, initial_key):
        self._key = initial_key
        self._packet_counter = 0

    def _crypt(self, aad, text, is_decrypt):
        nonce = ((self._packet_counter % REKEY_INTERVAL).to_bytes(4, 'little') +
                 (self._packet_counter // REKEY_INTERVAL).to_bytes(8, 'little'))
        if is_decrypt:
            ret = aead_chacha20_poly1305_decrypt(self._key, nonce, aad, text)
        else:
            ret = aead_chacha20_poly1305_encrypt(self._key, nonce, aad, text)
        if (self._packet_counter + 1) % REKEY_INTERVAL == 0:
            rekey_nonce = b"\xFF\xFF\xFF\xFF" + nonce[4:]
            self._key = aead_chacha20_poly1305_encrypt(self._key, rekey_nonce, b"", b"\x00" * 32)[:32]
        self._packet_counter += 1
        return ret

    def decrypt(self, aad, ciphertext):
        return self._crypt(aad, ciphertext, True)

    def encrypt(self, aad, plaintext):
        return self._crypt(aad, plaintext, False)


# Test vectors from RFC8439 consisting of plaintext, aad, 32 byte key, 12 byte nonce and ciphertext
AEAD_TESTS = [
    # RFC 8439 Example from section 2.8.2
    ["4c616469657320616e642047656e746c656d656e206f662074686520636c6173"
     "73206f66202739393a204966204920636f756c64206f6666657220796f75206f"
     "6e6c79206f6e652074697020666f7220746865206675747572652c2073756e73"
     "637265656e20776f756c642062652069742e",
     "50515253c0c1c2c3c4c5c6c7",
     "808182838485868788898a8b8c8d8e8f909192939495969798999a9b9c9d9e9f",
     [7, 0x4746454443424140],
     "d31a8d34648e60db7b86afbc53ef7ec2a4aded51296e08fea9e2b5a736ee62d6"
     "3dbea45e8ca9671282fafb69da92728b1a71de0a9e060b2905d6a5b67ecd3b36"
     "92ddbd7f2d778b8c9803aee328091b58fab324e4fad675945585808b4831d7bc"
     "3ff4def08e4b7a9de576d26586cec64b61161ae10b594f09e26a7e902ecbd060"
     "0691"],
    # RFC 8439 Test vector A.5
    ["496e7465726e65742d4472616674732061726520647261667420646f63756d65"
     "6e74732076616c696420666f722061206d6178696d756d206f6620736978206d"
     "6f6e74687320616e64206d617920626520757064617465642c207265706c6163"
     "65642c206f72206f62736f6c65746564206279206f7468657220646f63756d65"
     "6e747320617420616e792074696d652e20497420697320696e617070726f7072"
     "6961746520746f2075736520496e7465726e65742d4472616674732061732072"
     "65666572656e6365206d6174657269616c206f7220746f206369746520746865"
     "6d206f74686572207468616e206173202fe2809c776f726b20696e2070726f67"
     "726573732e2fe2809d",
     "f33388860000000000004e91",
     "1c9240a5eb55d38af333888604f6b5f0473917c1402b80099dca5cbc207075c0",
     [0, 0x0807060504030201],
     "64a0861575861af460f062c79be643bd5e805cfd345cf389f108670ac76c8cb2"
     "4c6cfc18755d43eea09ee94e382d26b0bdb7b73c321b0100d4f03b7f355894cf"
     "332f830e710b97ce98c8a84abd0b948114ad176e008d33bd60f982b1ff37c855"
     "9797a06ef4f0ef61c186324e2b3506383606907b6a7c02b0f9f6157b53c867e4"
     "b9166c767b804d46a59b5216cde7a4e99040c5a40433225ee282a1b0a06c523e"
     "af4534d7f83fa1155b0047718cbc546a0d072b04b3564eea1b422273f548271a"
     "0bb2316053fa76991955ebd63159434ecebb4e466dae5a1073a6727627097a10"
     "49e617d91d361094fa68f0ff77987130305beaba2eda04df997b714d6c6f2c29"
     "a6ad5cb4022b02709beead9d67890cbb22392336fea1851f38"],
    # Test vectors exercising aad and plaintext which are multiples of 16 bytes.
    ["8d2d6a8befd9716fab35819eaac83b33269afb9f1a00fddf66095a6c0cd91951"
     "a6b7ad3db580be0674c3f0b55f618e34",
     "",
     "72ddc73f07101282bbbcf853b9012a9f9695fc5d36b303a97fd0845d0314e0c3",
     [0x3432b75f, 0xb3585537eb7f4024],
     "f760b8224fb2a317b1b07875092606131232a5b86ae142df5df1c846a7f6341a"
     "f2564483dd77f836be45e6230808ffe402a6f0a3e8be074b3d1f4ea8a7b09451"],
    ["",
     "36970d8a704c065de16250c18033de5a400520ac1b5842b24551e5823a3314f3"
     "946285171e04a81ebfbe3566e312e74ab80e94c7dd2ff4e10de0098a58d0f503",
     "77adda51d6730b9ad6c995658cbd49f581b2547e7c0c08fcc24ceec797461021",
     [0x1f90da88, 0x75dafa3ef84471a4],
     "aaae5bb81e8407c94b2ae86ae0c7efbe"],
]

FSAEAD_TESTS = [
    ["d6a4cb04ef0f7c09c1866ed29dc24d820e75b0491032a51b4c3366f9ca35c19e"
     "a3047ec6be9d45f9637b63e1cf9eb4c2523a5aab7b851ebeba87199db0e839cf"
     "0d5c25e50168306377aedbe9089fd2463ded88b83211cf51b73b150608cc7a60"
     "0d0f11b9a742948482e1b109d8faf15b450aa7322e892fa2208c6691e3fecf4c"
     "711191b14d75a72147",
     "786cb9b6ebf44288974cf0",
     "5c9e1c3951a74fba66708bf9d2c217571684556b6a6a3573bff2847d38612654",
     500,
     "9dcebbd3281ea3dd8e9a1ef7d55a97abd6743e56ebc0c190cb2c4e14160b385e"
     "0bf508dddf754bd02c7c208447c131ce23e47a4a14dfaf5dd8bc601323950f75"
     "4e05d46e9232f83fc5120fbbef6f5347a826ec79a93820718d4ec7a2b7cfaaa4"
     "4b21e16d726448b62f803811aff4f6d827ed78e738ce8a507b81a8ae13131192"
     "8039213de18a5120dc9b7370baca878f50ff254418de3da50c"],
    ["8349b7a2690b63d01204800c288ff1138a1d473c832c90ea8b3fc102d0bb3adc"
     "44261b247c7c3d6760bfbe979d061c305f46d94c0582ac3099f0bf249f8cb234",
     "",
     "3bd2093fcbcb0d034d8c569583c5425c1a53171ea299f8cc3bbf9ae3530adfce",
     60000,
     "30a6757ff8439b975363f166a0fa0e36722ab35936abd704297948f45083f4d4"
     "99433137ce931f7fca28a0acd3bc30f57b550acbc21cbd45bbef0739d9caf30c"
     "14b94829deb27f0b1923a2af704ae5d6"],
]


class TestFrameworkAEAD(unittest.TestCase):
    def test_aead(self):
        """ChaCha20Poly1305 AEAD test vectors."""
        for test_vector in AEAD_TESTS:
            hex_plain, hex_aad, hex_key, hex_nonce, hex_cipher = test_vector
            plain = bytes.fromhex(hex_plain)
            aad = bytes.fromhex(hex_aad)
            key = bytes.fromhex(hex_key)
            nonce = hex_nonce[0].to_bytes(4, 'little') + hex_nonce[1].to_bytes(8, 'little')

            ciphertext = aead_chacha20_poly1305_encrypt(key, nonce, aad, plain)
            self.assertEqual(hex_cipher, ciphertext.hex())
            plaintext = aead_chacha20_poly1305_decrypt(key, nonce, aad, ciphertext)
            self.assertEqual(plain, plaintext)

    def test_fschacha20poly1305aead(self):
        "FSChaCha20Poly1305 AEAD test vectors."
        for test_vector in FSAEAD_TESTS:
            hex_plain, hex_aad, hex_key, msg_idx, hex_cipher = test_vector
            plain = bytes.fromhex(hex_plain)
            aad = bytes.fromhex(hex_aad)
            key = bytes.fromhex(hex_key)

            enc_aead = FSChaCha20Poly1305(key)
            dec_aead = FSChaCha20Poly1305(key)

            for _ in range(msg_idx):
                enc_aead.encrypt(b"", None)
            ciphertext = enc_aead.encrypt(aad, plain)
            self.assertEqual(hex_cipher, ciphertext.hex())

            for _ in range(msg_idx):
                dec_aead.decrypt(b"", None)
            plaintext = dec_aead.decrypt(aad, ciphertext)
            self.assertEqual(plain, plaintext)
