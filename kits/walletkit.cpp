#include <kits/walletkit.h>

#include <chainparams.h>
#include <key_io.h>
#include <streams.h>
#include <test/util/random.h>
#include <util/strencodings.h>
#include <util/time.h>
#include <util/translation.h>
#include <wallet/scriptpubkeyman.h>
#include <wallet/sqlite.h>
#include <wallet/walletdb.h>

#include <algorithm>

using namespace wallet;

namespace wk {

Env::Env(EnvOpts o) : opts(std::move(o))
{
    if (opts.own_globals) {
        SelectParams(ChainType::REGTEST);
        ecc = std::make_unique<ECC_Context>();
    }
    // the global PRNG becomes a fixed stream (temp-file names, hasher salts); GetStrongRandBytes (keys, salts) stays real
    if (opts.deterministic_rng) SeedRandomStateForTest(SeedRand::ZEROS);
    SetMockTime(opts.mock_time);
    args.ForceSetArg("-keypool", std::to_string(opts.keypool));
    for (const std::string& a : opts.extra_args) {
        size_t eq = a.find('=');
        if (eq == std::string::npos) args.ForceSetArg(a, "1");
        else args.ForceSetArg(a.substr(0, eq), a.substr(eq + 1));
    }
    ctx.args = &args;
    ctx.chain = nullptr;
}

Env::~Env() {}

CExtKey FixedMasterKey(unsigned n)
{
    std::vector<std::byte> seed(32);
    for (size_t i = 0; i < seed.size(); i++) seed[i] = std::byte((unsigned char)(0x51 + 7 * i + 13 * n));
    CExtKey k;
    k.SetSeed(seed);
    return k;
}

std::string DbFile(const std::string& dir) { return dir + "/wallet.dat"; }

static std::unique_ptr<WalletDatabase> OpenDb(const std::string& dir, bool create, std::string& err)
{
    DatabaseOptions options;
    options.require_existing = !create;
    options.require_create = create;
    options.verify = true;
    DatabaseStatus status;
    bilingual_str error;
    // MakeSQLiteDatabase takes the wallet directory and appends "wallet.dat"
    std::unique_ptr<WalletDatabase> db = MakeSQLiteDatabase(fs::PathFromString(dir), options, status, error);
    if (!db) err = "open database: " + error.original;
    return db;
}

std::shared_ptr<CWallet> Create(Env& env, const std::string& dir, const CExtKey* master, uint64_t extra_flags, std::string& err)
{
    auto db = OpenDb(dir, true, err);
    if (!db) return nullptr;
    bilingual_str error;
    std::vector<bilingual_str> warnings;
    uint64_t flags = WALLET_FLAG_DESCRIPTORS | extra_flags | (master ? WALLET_FLAG_BLANK_WALLET : 0);
    std::shared_ptr<CWallet> w = CWallet::CreateNew(env.ctx, "", std::move(db), flags, /*born_encrypted=*/false, error, warnings);
    if (!w) { err = "CreateNew: " + error.original; return nullptr; }
    if (master) {
        LOCK(w->cs_wallet);
        bool ok = RunWithinTxn(w->GetDatabase(), "setup descriptors", [&](WalletBatch& batch) EXCLUSIVE_LOCKS_REQUIRED(w->cs_wallet) {
            w->SetupDescriptorScriptPubKeyMans(batch, *master);
            return true;
        });
        if (!ok) { err = "descriptor set-up transaction failed"; return nullptr; }
    }
    return w;
}

std::shared_ptr<CWallet> Load(Env& env, const std::string& dir, std::string& err)
{
    auto db = OpenDb(dir, false, err);
    if (!db) return nullptr;
    bilingual_str error;
    std::vector<bilingual_str> warnings;
    std::shared_ptr<CWallet> w;
    try {
        w = CWallet::LoadExisting(env.ctx, "", std::move(db), error, warnings);
    } catch (const std::exception& e) {
        err = std::string("LoadExisting threw: ") + e.what();
        return nullptr;
    }
    if (!w) err = "LoadExisting: " + error.original;
    return w;
}

void Close(std::shared_ptr<CWallet>& w)
{
    if (!w) return;
    if (w.use_count() != 1) throw std::logic_error("wk::Close: wallet still referenced elsewhere");
    w.reset();
}

std::vector<DescInfo> Descriptors(CWallet& w)
{
    LOCK(w.cs_wallet);
    std::vector<DescInfo> out;
    for (const auto& [id, man] : w.m_spk_managers) {
        auto* d = dynamic_cast<DescriptorScriptPubKeyMan*>(man.get());
        if (!d) continue;
        LOCK(d->cs_desc_man);
        DescInfo i;
        i.id = id.ToString();
        d->GetDescriptorString(i.desc_pub, false);
        if (!d->GetDescriptorString(i.desc_priv, true)) i.desc_priv.clear();
        i.range_start = d->m_wallet_descriptor.range_start;
        i.range_end = d->m_wallet_descriptor.range_end;
        i.next_index = d->m_wallet_descriptor.next_index;
        i.plain_keys = d->m_map_keys.size();
        i.crypted_keys = d->m_map_crypted_keys.size();
        for (const auto& [t, m] : w.m_external_spk_managers) if (m == d) { i.active = true; i.internal = false; i.type = (int)t; }
        for (const auto& [t, m] : w.m_internal_spk_managers) if (m == d) { i.active = true; i.internal = true; i.type = (int)t; }
        out.push_back(std::move(i));
    }
    return out;
}

std::map<std::string, std::string> PrivateKeys(CWallet& w)
{
    LOCK(w.cs_wallet);
    std::map<std::string, std::string> out;
    for (const auto& [id, man] : w.m_spk_managers) {
        auto* d = dynamic_cast<DescriptorScriptPubKeyMan*>(man.get());
        if (!d) continue;
        LOCK(d->cs_desc_man);
        for (const auto& [keyid, key] : d->GetKeys()) {
            if (!key.IsValid()) { out[id.ToString() + ":" + keyid.ToString()] = "(invalid)"; continue; }
            out[id.ToString() + ":" + keyid.ToString()] = std::string((const char*)key.begin(), key.size());
        }
    }
    return out;
}

std::string Snapshot(CWallet& w, bool with_ranges)
{
    LOCK(w.cs_wallet);
    std::string s;
    s += "flags " + std::to_string(w.m_wallet_flags.load()) + "\n";
    for (const DescInfo& d : Descriptors(w)) {
        s += "desc " + d.id + " " + (d.desc_priv.empty() ? d.desc_pub : d.desc_priv);
        if (with_ranges) s += " range [" + std::to_string(d.range_start) + "," + std::to_string(d.range_end) + ") next " + std::to_string(d.next_index);
        s += d.active ? (std::string(" active ") + (d.internal ? "internal " : "external ") + std::to_string(d.type)) : " inactive";
        s += " keys " + std::to_string(d.plain_keys) + "/" + std::to_string(d.crypted_keys) + "\n";
    }
    for (const auto& [id, mk] : w.mapMasterKeys) {
        s += "mkey " + std::to_string(id) + " " + HexStr(mk.vchCryptedKey) + " " + HexStr(mk.vchSalt) + " " + std::to_string(mk.nDeriveIterations) + "\n";
    }
    {
        std::vector<std::string> txs;
        for (const auto& [txid, wtx] : w.mapWallet) {
            DataStream ss;
            ss << wtx;
            std::string line = "tx " + txid.ToString() + " " + HexStr(ss) + " variants";
            for (const auto& [wtxid, tx] : wtx.GetTxs()) line += " " + wtxid.ToString();
            txs.push_back(line);
        }
        std::sort(txs.begin(), txs.end());
        for (auto& t : txs) s += t + "\n";
        s += "orderposnext " + std::to_string(w.nOrderPosNext) + "\n";
        std::string order = "order";
        for (const auto& [pos, wtx] : w.wtxOrdered) order += " " + std::to_string(pos) + ":" + wtx->GetHash().ToString().substr(0, 16);
        s += order + "\n";
    }
    for (const auto& [dest, data] : w.m_address_book) {
        s += "addr " + EncodeDestination(dest) + " label " + (data.label ? "'" + *data.label + "'" : "(none)") +
             " purpose " + (data.purpose ? PurposeToString(*data.purpose) : "(none)") + " used " + (data.previously_spent ? "1" : "0");
        for (const auto& [id, rr] : data.receive_requests) s += " rr" + id + "=" + HexStr(rr);
        s += "\n";
    }
    for (const auto& [op, persistent] : w.m_locked_coins) {
        if (persistent) s += "locked " + op.ToString() + "\n";
    }
    return s;
}

std::map<std::string, std::string> DbRecords(CWallet& w)
{
    std::map<std::string, std::string> out;
    std::unique_ptr<DatabaseBatch> batch = w.GetDatabase().MakeBatch();
    std::unique_ptr<DatabaseCursor> cursor = batch->GetNewCursor();
    if (!cursor) throw std::runtime_error("wk::DbRecords: no cursor");
    while (true) {
        DataStream k, v;
        DatabaseCursor::Status st = cursor->Next(k, v);
        if (st == DatabaseCursor::Status::DONE) break;
        if (st == DatabaseCursor::Status::FAIL) throw std::runtime_error("wk::DbRecords: cursor failed");
        out[HexStr(k)] = HexStr(v);
    }
    return out;
}

std::string RecordType(const std::string& hexkey)
{
    std::vector<unsigned char> raw = ParseHex(hexkey);
    if (raw.empty()) return "";
    size_t n = raw[0];
    if (n >= 253 || 1 + n > raw.size()) return "?";
    return std::string(raw.begin() + 1, raw.begin() + 1 + n);
}

} // namespace wk
