// walletkit — descriptor CWallet on a real SQLite file, for the VX-CRASH wallet harnesses (C42, C43, C62).
//
//  wk::Env        process-wide set-up a wallet needs without a node: regtest params, ECC context, an own ArgsManager
//                 (-keypool=<n>, extra args), a WalletContext without chain, fixed mock time (creation times, and the
//                 key-derivation benchmark of EncryptWallet degenerates to the default iteration count).
//  wk::Create     CWallet::CreateNew on <dir>/wallet.dat (MakeSQLiteDatabase, the production database class). With a
//                 fixed BIP32 master key the wallet is created blank and the 8 standard descriptors are then set up by
//                 the wallet's own SetupDescriptorScriptPubKeyMans(batch, master_key) inside one DB transaction — the
//                 production path except for where the seed comes from — so addresses are the same in every run.
//  wk::Load       CWallet::LoadExisting on <dir>/wallet.dat (verify + PopulateWalletFromDB + TopUpKeyPool).
//  wk::Close      releases the wallet (database closed, SQLite deletes its journal).
//  observers      canonical text snapshots of what a wallet holds (descriptors with private keys, ranges, next
//                 indices, transactions, address book, locked coins, flags, master keys) and of the raw DB records.
#pragma once
#include <addresstype.h>
#include <common/args.h>
#include <key.h>
#include <outputtype.h>
#include <wallet/context.h>
#include <wallet/wallet.h>

#include <map>
#include <memory>
#include <string>
#include <vector>

namespace wk {

struct EnvOpts {
    int keypool{2};
    std::vector<std::string> extra_args{};   // "-name=value"
    int64_t mock_time{1700000000};
    bool deterministic_rng{true};            // SeedRandomStateForTest(ZEROS)
    bool own_globals{true};                  // SelectParams(REGTEST) + ECC_Context (false: a testing setup already did)
};

struct Env {
    explicit Env(EnvOpts o = {});
    ~Env();
    EnvOpts opts;
    ArgsManager args;
    wallet::WalletContext ctx;
    std::unique_ptr<ECC_Context> ecc;
};

// Deterministic BIP32 master key number n.
CExtKey FixedMasterKey(unsigned n);
std::string DbFile(const std::string& dir);

// master == nullptr: the wallet generates its own random seed (CreateNew's default path).
std::shared_ptr<wallet::CWallet> Create(Env& env, const std::string& dir, const CExtKey* master, uint64_t extra_flags, std::string& err);
std::shared_ptr<wallet::CWallet> Load(Env& env, const std::string& dir, std::string& err);
void Close(std::shared_ptr<wallet::CWallet>& w);

// ---- observers
struct DescInfo {
    std::string id;
    std::string desc_pub;     // public descriptor string
    std::string desc_priv;    // private descriptor string ("" if not available, e.g. locked)
    int32_t range_start{0}, range_end{0}, next_index{0};
    bool active{false}, internal{false};
    int type{-1};             // OutputType if active
    size_t plain_keys{0}, crypted_keys{0};
};
std::vector<DescInfo> Descriptors(wallet::CWallet& w);   // sorted by id
// All 32-byte private keys held by the wallet's descriptor managers: keyid hex -> secret (decrypted if unlocked)
std::map<std::string, std::string> PrivateKeys(wallet::CWallet& w);
// Canonical multi-line text of everything the wallet records (what C43 compares across a reload)
std::string Snapshot(wallet::CWallet& w, bool with_ranges = true);
// Raw records of the open database, hex(key) -> hex(value)
std::map<std::string, std::string> DbRecords(wallet::CWallet& w);
// Record type string (first serialized field of a key)
std::string RecordType(const std::string& hexkey);

} // namespace wk
