// p2pkit — the real PeerManager (net_processing) on top of a ck::Node, driven single-threaded.
//
//  pk::Net     NetGroupManager + AddrMan + BanMan + ConnmanTestMsg + PeerManager::make(...) wired as
//              TestingSetup / init.cpp wire them (PeerManager registered with the node's validation signals,
//              deterministic rng). No thread is started: the harness plays CConnman::ThreadMessageHandler
//              itself (Deliver -> ProcessOnce -> Send), so fork() remains a sound snapshot (vx/forksim.h).
//  pk::Peer    one CNode of any ConnectionType / permission set / address, attached to a capturing socket:
//              everything the node pushes to the peer is recorded and can be read back as (type, payload).
//  builders    serialised P2P messages (tx with/without witness, block, headers, cmpctblock, inv, getdata,
//              notfound, raw bytes under any message type).
//
// Mock time: the caller owns it (SetMockTime). Nothing here advances it.
#pragma once
#include <kits/chainkit.h>

#include <addrman.h>
#include <banman.h>
#include <blockencodings.h>
#include <net.h>
#include <net_processing.h>
#include <netgroup.h>
#include <node/connection_types.h>
#include <protocol.h>
#include <test/util/net.h>

#include <memory>
#include <string>
#include <vector>

namespace pk {

struct Msg {
    std::string type;
    std::vector<unsigned char> payload;
};

// Sock that accepts every write and records it.
class CaptureSock : public ZeroSock
{
public:
    explicit CaptureSock(std::shared_ptr<std::vector<unsigned char>> sink) : m_sink(std::move(sink)) {}
    ssize_t Send(const void* data, size_t len, int) const override
    {
        const unsigned char* p = (const unsigned char*)data;
        m_sink->insert(m_sink->end(), p, p + len);
        return (ssize_t)len;
    }
    bool IsConnected(std::string&) const override { return true; }
private:
    std::shared_ptr<std::vector<unsigned char>> m_sink;
};

struct NetOpts {
    bool blocksonly{false};                                   // PeerManager::Options::ignore_incoming_txs (-blocksonly)
    std::function<void(PeerManager::Options&)> peerman_tweak{};
    std::function<void(CConnman::Options&)> connman_tweak{};
};

enum class Stage { PRE_VERSION, VERSION_ONLY, COMPLETE };

struct PeerSpec {
    ConnectionType type{ConnectionType::INBOUND};
    NetPermissionFlags perms{NetPermissionFlags::None};
    std::string ip{"1.2.3.4"};                                // "127.0.0.1" is a local address (CNetAddr::IsLocal)
    bool relay_txs{true};                                     // fRelay of the peer's version message
    bool wtxid_relay{true};                                   // send WTXIDRELAY between version and verack
    bool send_cmpct{true};                                    // send SENDCMPCT(hb=false, v2) after verack
    ServiceFlags services{ServiceFlags(NODE_NETWORK | NODE_WITNESS)};
    int32_t version{PROTOCOL_VERSION};
    Stage stage{Stage::COMPLETE};                             // how far the handshake is driven
};

struct Peer {
    PeerSpec spec;
    std::unique_ptr<CNode> node;
    std::shared_ptr<std::vector<unsigned char>> sink;         // raw bytes written to the socket
    size_t parsed{0};
    bool finalized{false};
    NodeId id() const { return node->GetId(); }
    bool disconnect_flag() const { return node->fDisconnect.load(); }
    // messages sent by the node since the last call (V1 framing parsed back)
    std::vector<Msg> TakeSent();
};

struct Net {
    ck::Node& n;
    NetOpts o;
    std::unique_ptr<NetGroupManager> netgroupman;
    std::unique_ptr<AddrMan> addrman;
    std::unique_ptr<BanMan> banman;
    std::unique_ptr<ConnmanTestMsg> connman;
    std::unique_ptr<PeerManager> peerman;
    std::vector<std::unique_ptr<Peer>> peers;
    NodeId next_id{0};

    Net(ck::Node& node, NetOpts opts = {});
    ~Net();

    // creates the CNode, registers it with connman + peerman and drives the handshake to spec.stage
    Peer& AddPeer(const PeerSpec& spec);
    // the peer's socket delivers one message (queued in the node's receive queue)
    void Deliver(Peer& p, const Msg& m);
    // one PeerManager::ProcessMessages call (at most one message is taken from the queue); returns fMoreWork
    bool ProcessOnce(Peer& p);
    // one PeerManager::SendMessages call
    void Send(Peer& p);
    // what CConnman::ThreadMessageHandler does for one node in one round: skipped when marked for disconnect
    bool Round(Peer& p)
    {
        if (p.finalized || p.disconnect_flag()) return false;
        bool more = ProcessOnce(p);
        Send(p);
        return more;
    }
    // Deliver + Round, then up to `drain` further rounds while the node reports more work (orphan reconsideration ...)
    void DeliverAndRun(Peer& p, const Msg& m, int drain = 4)
    {
        if (p.finalized || p.disconnect_flag()) return; // the connection is gone: nothing can be delivered
        Deliver(p, m);
        bool more = Round(p);
        for (int i = 0; i < drain && more; i++) more = Round(p);
    }
    // what CConnman::DisconnectNodes does: PeerManager::FinalizeNode and removal from the node list
    void Finalize(Peer& p);
    bool Discouraged(const Peer& p) { return banman->IsDiscouraged(p.node->addr); }
    bool Banned(const Peer& p) { return banman->IsBanned(p.node->addr); }
};

// ------------------------------------------------------------------------------------ message builders
Msg MsgRaw(const std::string& type, std::vector<unsigned char> payload);
Msg MsgTx(const CTransaction& tx, bool with_witness = true);
Msg MsgBlock(const CBlock& b);
Msg MsgHeaders(const std::vector<CBlockHeader>& hs);
Msg MsgCmpctBlock(const CBlock& b, uint64_t nonce = 7);      // coinbase prefilled, short ids for the rest
Msg MsgInv(const std::vector<CInv>& v);
Msg MsgGetData(const std::vector<CInv>& v);
Msg MsgNotFound(const std::vector<CInv>& v);
Msg MsgEmpty(const std::string& type);
// decode helpers for captured messages
std::vector<CInv> ParseInvVector(const Msg& m);                // inv / getdata / notfound payloads

const char* ConnTypeName(ConnectionType t);

} // namespace pk
