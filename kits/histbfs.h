// histbfs.h — shared driver for VX-STATE "explicit-state search by history replay" checks
// (used by C34, C35, C37, C39; header-only, include as <kits/histbfs.h>).
//
//  * guarded(body): runs the whole exploration in a fork()ed child. An assert()/abort()/SIGSEGV inside the code
//    under test kills only the child; the parent reports it as a VIOLATION with the history that was being
//    replayed (the object's own consistency asserts are part of the oracle).
//  * Bfs: breadth-first search over operation histories. A state is represented by the (lexicographically
//    smallest) history that reaches it; successor = replay(history + op) on a fresh object. States are merged on a
//    128-bit hash of a canonical key string supplied by the harness. Levels are processed in parallel, the result
//    (state count, transition count, representatives) does not depend on thread timing.
#pragma once
#include <vx/vx.h>

#include <csignal>
#include <exception>
#include <new>
#include <unordered_map>
#include <sys/mman.h>
#include <sys/wait.h>

namespace hb {

struct Shared {
    char culprit[8192];
    std::atomic<int> have_culprit;
    std::atomic<uint64_t> states, transitions, evaluations, distinct;
    std::atomic<int> depth_done;
};
inline Shared*& shared() { static Shared* s = nullptr; return s; }

// what the current thread is executing (set by Bfs before every replay)
struct Cur { const std::string* hist = nullptr; int op = -1; };
inline thread_local Cur t_cur;
inline std::function<std::string(const std::string&)>& describer()
{
    static std::function<std::string(const std::string&)> f;
    return f;
}

inline void on_fatal(int sig)
{
    Shared* s = shared();
    if (s && !s->have_culprit.exchange(1)) {
        std::string d = "signal " + std::to_string(sig) + "\n";
        if (t_cur.hist) {
            std::string h = *t_cur.hist;
            if (t_cur.op >= 0) h.push_back((char)t_cur.op);
            d += describer() ? describer()(h) : vx::hex(h);
        } else d += "(outside a replay)";
        strncpy(s->culprit, d.c_str(), sizeof(s->culprit) - 1);
        s->have_culprit.store(2);
    } else if (s) {
        // another thread is already recording its history: let it finish before the process goes away
        for (int i = 0; i < 3000 && s->have_culprit.load() != 2; i++) usleep(1000);
    }
    _exit(97);
}

// Runs body() in a child process; returns the exit code for main().
inline int guarded(const std::function<int()>& body)
{
    if (!vx::ctx().replay.empty()) return body(); // replays run unguarded so a debugger sees the abort
    void* m = mmap(nullptr, sizeof(Shared), PROT_READ | PROT_WRITE, MAP_SHARED | MAP_ANONYMOUS, -1, 0);
    if (m == MAP_FAILED) { printf("HARNESS-ERROR mmap failed\n"); return 2; }
    shared() = new (m) Shared();
    fflush(stdout);
    pid_t pid = fork();
    if (pid < 0) { printf("HARNESS-ERROR fork failed\n"); return 2; }
    if (pid == 0) {
        signal(SIGABRT, on_fatal);
        signal(SIGSEGV, on_fatal);
        signal(SIGBUS, on_fatal);
        signal(SIGFPE, on_fatal);
        signal(SIGILL, on_fatal);
        std::set_terminate([] {
            // running out of memory is a harness problem, not a finding
            if (auto e = std::current_exception()) {
                try { std::rethrow_exception(e); }
                catch (const std::bad_alloc&) { printf("HARNESS-ERROR property=%s out of memory\n", vx::ctx().id.c_str()); fflush(stdout); _exit(2); }
                catch (...) {}
            }
            abort();
        });
        // watchdog: work units are far shorter than a minute; if the process is still busy long (max(240 s, deadline)) after the tier's
        // hard deadline, a call into the code under test does not return (or the machine is hopelessly overloaded).
        // Violations found so far stand (exit 1); otherwise this is reported as a harness error, never as a finding.
        std::thread([] {
            for (;;) {
                sleep(1);
                if (vx::ctx().deadline_s > 0 && vx::elapsed() > vx::ctx().deadline_s + std::max(240.0, vx::ctx().deadline_s)) { // generous: an overloaded machine must not turn into an error
                    auto& E = vx::ev();
                    Shared* s = shared();
                    if (E.states.load() == 0) { E.states = s->states.load(); E.transitions = s->transitions.load(); E.traces_validated = s->transitions.load(); }
                    E.exhaustive = false;
                    if (E.rule.empty()) E.rule = "run cut by the watchdog; see the check's source for the enumeration rule";
                    if (E.samples.empty()) E.sample("(run cut by the watchdog)");
                    int v = vx::rep().violations;
                    printf("%s property=%s a work unit did not return long after the deadline (grace max(240 s, deadline)) (violations so far: %d)\n", v ? "WATCHDOG" : "HARNESS-ERROR", vx::ctx().id.c_str(), v);
                    vx::write_evidence();
                    fflush(stdout);
                    _exit(v ? 1 : 2);
                }
            }
        }).detach();
        int rc = body();
        fflush(stdout);
        _exit(rc);
    }
    int st = 0;
    while (waitpid(pid, &st, 0) < 0 && errno == EINTR) {}
    if (WIFEXITED(st) && WEXITSTATUS(st) != 97) return WEXITSTATUS(st);
    if (WIFSIGNALED(st)) {
        int sig = WTERMSIG(st);
        // killed from outside (OOM killer, timeout, ctrl-c ...): not a statement about the code under test
        if (sig != SIGABRT && sig != SIGSEGV && sig != SIGBUS && sig != SIGFPE && sig != SIGILL) {
            printf("HARNESS-ERROR property=%s exploration process was killed by signal %d\n", vx::ctx().id.c_str(), sig);
            return 2;
        }
    }
    Shared* s = shared();
    auto& E = vx::ev();
    E.states = s->states.load();
    E.transitions = s->transitions.load();
    E.traces_validated = s->transitions.load();
    E.evaluations = s->evaluations.load();
    E.distinct_nontrivial = s->distinct.load();
    E.exhaustive = false;
    E.set("max_depth_completed", (uint64_t)s->depth_done.load());
    std::string what = "code under test terminated the process (assert/abort/crash) while replaying a history";
    std::string text = s->have_culprit.load() == 2 ? std::string(s->culprit) : std::string("(no culprit recorded; wait status ") + std::to_string(st) + ")";
    // key: the last line of the description = the operation that died
    std::string last = text;
    while (!last.empty() && last.back() == '\n') last.pop_back();
    size_t p = last.rfind('\n');
    if (p != std::string::npos) last = last.substr(p + 1);
    vx::violation("abort:" + last, what, text);
    if (E.rule.empty()) E.rule = "aborted run; see violation";
    return vx::finish();
}

struct Key128 {
    uint64_t a, b;
    bool operator==(const Key128& o) const { return a == o.a && b == o.b; }
    bool operator<(const Key128& o) const { return a != o.a ? a < o.a : b < o.b; }
};
struct Key128Hash { size_t operator()(const Key128& k) const { return k.a ^ (k.b * 0x9E3779B97F4A7C15ULL); } };
inline Key128 key_of(const std::string& s)
{
    return Key128{vx::fnv1a(s), vx::fnv1a(s.data(), s.size(), 0x84222325cbf29ce4ULL) * 0xff51afd7ed558ccdULL + s.size()};
}

// Replay function: replays `hist` (one byte per operation) on a fresh object + fresh model, performs all oracle
// checks (calling vx::violation itself) and writes the canonical key of the reached state to `key`.
// Returns false if the LAST operation of hist is not enabled in the state before it (the successor is skipped).
using ReplayFn = std::function<bool(const std::string& hist, std::string& key)>;

struct Bfs {
    int nops = 0;
    int max_depth = 0;
    ReplayFn replay;
    // results
    uint64_t states = 0, transitions = 0;
    int depth_done = 0;
    bool complete = true;      // false if a deadline cut the search
    bool fixpoint = false;     // true if a level produced no new state
    std::vector<uint64_t> level_states;
    std::vector<std::string> frontier; // representatives of the last completed level (empty for the final level unless keep_last_frontier)
    bool keep_last_frontier = false;
    std::unordered_set<Key128, Key128Hash> visited;
    // called for every new state (single-threaded, deterministic order): history, key string is not kept
    std::function<void(const std::string& hist, int depth)> on_new_state;

    void publish()
    {
        if (Shared* s = shared()) {
            s->states = states; s->transitions = transitions; s->depth_done = depth_done;
        }
    }

    void run()
    {
        std::string k0;
        std::string empty;
        t_cur = Cur{&empty, -1};
        replay(empty, k0);
        visited.insert(key_of(k0));
        states = 1;
        level_states.push_back(1);
        frontier = {empty};
        if (on_new_state) on_new_state(empty, 0);
        // canon-on-replay determinism
        {
            std::string k1;
            replay(empty, k1);
            if (k1 != k0) { printf("HARNESS-ERROR canonical key of the initial state is not deterministic\n"); exit(2); }
        }
        constexpr unsigned NSH = 1024;
        struct Shard { std::mutex mu; std::unordered_map<Key128, std::string, Key128Hash> best; std::unordered_set<Key128, Key128Hash> keys; };
        for (int d = 0; d < max_depth; d++) {
            const uint64_t N = (uint64_t)frontier.size() * nops;
            const bool last_level = (d + 1 == max_depth) && !keep_last_frontier;
            std::vector<Shard> shards(NSH);
            std::atomic<uint64_t> trans{0};
            std::atomic<bool> cut{false};
            vx::par_for(N, 512, [&](uint64_t lo, uint64_t hi, unsigned) {
                if (cut.load()) return;
                if (vx::deadline_reached()) { cut = true; return; }
                std::string h, key;
                uint64_t t = 0;
                for (uint64_t i = lo; i < hi; i++) {
                    const std::string& base = frontier[i / nops];
                    int op = (int)(i % nops);
                    t_cur = Cur{&base, op};
                    h = base;
                    h.push_back((char)op);
                    key.clear();
                    if (!replay(h, key)) continue;
                    t++;
                    Key128 k = key_of(key);
                    if (visited.count(k)) continue; // read-only during the level
                    Shard& sh = shards[(k.b >> 7) % NSH];
                    std::lock_guard<std::mutex> l(sh.mu);
                    if (last_level) sh.keys.insert(k);
                    else {
                        auto it = sh.best.find(k);
                        if (it == sh.best.end()) sh.best.emplace(k, h);
                        else if (h < it->second) it->second = h; // representative = smallest history: independent of thread timing
                    }
                }
                t_cur = Cur{};
                trans += t;
            });
            if (cut.load()) { complete = false; break; }
            transitions += trans.load();
            std::vector<std::string> next;
            uint64_t nnew = 0;
            for (auto& sh : shards) {
                nnew += sh.best.size() + sh.keys.size();
                for (auto& kv : sh.best) { visited.insert(kv.first); next.push_back(std::move(kv.second)); }
                for (auto& k : sh.keys) visited.insert(k);
                sh.best.clear(); sh.keys.clear();
            }
            shards.clear();
            std::sort(next.begin(), next.end());
            // determinism spot check: the first few representatives must reproduce their key
            for (size_t i = 0; i < next.size() && i < 8; i++) {
                std::string ka, kb;
                t_cur = Cur{&next[i], -1};
                replay(next[i], ka);
                replay(next[i], kb);
                if (ka != kb) { printf("HARNESS-ERROR canonical key not deterministic on replay\n"); exit(2); }
            }
            t_cur = Cur{};
            states += nnew;
            level_states.push_back(nnew);
            depth_done = d + 1;
            if (on_new_state) for (auto& h : next) on_new_state(h, d + 1);
            publish();
            if (nnew == 0) { fixpoint = true; frontier.clear(); break; }
            frontier = std::move(next);
        }
        publish();
    }
};

} // namespace hb
