// chainkit — in-process regtest node driver for the /verif harnesses.
//
//  ck::Node      real ChainstateManager + CTxMemPool on regtest; in-memory LevelDBs, 0 script-check /
//                prevout-fetch workers, ImmediateTaskRunner for validation signals  ==> the process is
//                single-threaded, so fork() is a sound snapshot (vx/forksim.h).
//  builders      deterministic blocks on a chosen parent (BIP34 coinbase, witness commitment, ground PoW),
//                transactions over anyone-can-spend P2WSH(OP_TRUE) outputs.
//  ck::RefLedger independent reference: block tree + std::map UTXO model obtained by replaying a chain
//                from genesis (written from the consensus rules, shares no code with validation.cpp).
#pragma once
#include <chain.h>
#include <coins.h>
#include <consensus/amount.h>
#include <consensus/validation.h>
#include <node/context.h>
#include <primitives/block.h>
#include <primitives/transaction.h>
#include <script/script.h>
#include <test/util/setup_common.h>
#include <txmempool.h>
#include <uint256.h>
#include <validation.h>
#include <validationinterface.h>

#include <map>
#include <memory>
#include <optional>
#include <string>
#include <vector>

namespace ck {

struct NodeOpts {
    std::vector<const char*> extra_args{};
    bool coins_db_in_memory{true};
    bool block_tree_db_in_memory{true};
    bool min_validation_cache{false};   // signature + script-execution caches of 0 bytes
    int worker_threads{0};
    int prevoutfetch_threads{0};
    bool immediate_signals{true};       // false: real CScheduler thread + SerialTaskRunner (not fork-safe)
    std::optional<uint256> assumed_valid{};
    std::optional<arith_uint256> minimum_chain_work{};
    bool check_block_index{true};
    int mempool_check_ratio{1};
    // customise mempool options after defaults were applied
    std::function<void(CTxMemPool::Options&)> mempool_tweak{};
    // customise chainman options
    std::function<void(ChainstateManager::Options&)> chainman_tweak{};
    std::string datadir{};              // non-empty: use (and keep) this datadir instead of a fresh temp dir
    bool load_chainstate{true};         // run LoadChainstate + VerifyLoadedChainstate + ActivateBestChain
};

// Outcome of submitting a block through ProcessNewBlock.
struct BlockResult {
    bool pnb_ret{false};        // return value of ProcessNewBlock
    bool new_block{false};      // *new_block out-param
    bool checked{false};        // BlockChecked fired for this block
    bool valid{false};          // state.IsValid() in BlockChecked (false if not fired)
    std::string reason;         // state.GetRejectReason()
    BlockValidationResult result{BlockValidationResult::BLOCK_RESULT_UNSET};
};

struct Node : public BasicTestingSetup, public CValidationInterface {
    explicit Node(NodeOpts opts = {});
    ~Node();
    NodeOpts m_opts;
    // LoadChainstate + VerifyLoadedChainstate (+ ActivateBestChain); returns "" or the error. Only needed with load_chainstate=false.
    std::string Load(bool activate);
    std::string Activate();
    kernel::CacheSizes m_kernel_cache_sizes;

    ChainstateManager& chainman() { return *m_node.chainman; }
    Chainstate& cs() { return m_node.chainman->ActiveChainstate(); }
    CTxMemPool& pool() { return *m_node.mempool; }
    const CBlockIndex* tip() { LOCK(cs_main); return m_node.chainman->ActiveChain().Tip(); }
    int height() { LOCK(cs_main); return m_node.chainman->ActiveChain().Height(); }
    const CBlockIndex* index_of(const uint256& h) { LOCK(cs_main); return m_node.chainman->m_blockman.LookupBlockIndex(h); }

    BlockResult ProcessBlock(const CBlock& b, bool force = true, bool min_pow_checked = true);
    bool ProcessHeader(const CBlockHeader& h, BlockValidationState& st);
    MempoolAcceptResult SubmitTx(const CTransactionRef& tx, bool test_accept = false);
    bool Invalidate(const uint256& h);
    void Reconsider(const uint256& h);
    bool Precious(const uint256& h);
    void Flush();   // ForceFlushStateToDisk

    // UTXO observation through the top of the cache stack: value of op, or nullopt if unspent coin absent.
    std::optional<Coin> GetCoin(const COutPoint& op);
    // full UTXO set through a DB cursor (flushes the cache first)
    std::map<COutPoint, Coin> UtxoByCursor();

    // CValidationInterface
    void BlockChecked(const std::shared_ptr<const CBlock>& b, const BlockValidationState& st) override;
    uint256 m_last_checked_hash;
    BlockValidationState m_last_checked_state;
    bool m_last_checked_fired{false};

    // repoint block/undo file directories (per-worker datadirs for forked exploration)
    void RepointBlocksDir(const fs::path& newdir);
    fs::path BlocksDir();
};

// ----------------------------------------------------------------------------------------- builders
CScript OpTrueScript();                 // the witness script: OP_TRUE
CScript OpTrueSpk();                    // P2WSH(OP_TRUE)
CScriptWitness OpTrueWitness();

struct TxIn { COutPoint prevout; uint32_t sequence{0xffffffff}; bool optrue_witness{true}; };
struct TxOut { CAmount value; CScript spk; };
CMutableTransaction MakeTx(const std::vector<TxIn>& ins, const std::vector<TxOut>& outs, int32_t version = 2, uint32_t locktime = 0);
// convenience: spend the given OP_TRUE outpoints into n OP_TRUE outputs of the given values
CTransactionRef SpendTx(const std::vector<COutPoint>& ins, const std::vector<CAmount>& out_values, uint32_t sequence = 0xffffffff, uint32_t locktime = 0, int32_t version = 2);

struct BlockOpts {
    int64_t time{0};                    // 0: parent time + 600
    CAmount coinbase_value{-1};         // -1: subsidy + fees (fees must be supplied via `fees`)
    CAmount fees{0};                    // sum of fees of txs (the caller knows; RefLedger::Fees computes it)
    int extra_nonce{0};                 // varies the coinbase so sibling blocks differ
    bool bip34_height{true};            // encode height in coinbase scriptSig
    int bip34_height_override{-1};
    bool witness_commitment{true};      // add commitment when any tx has a witness
    bool fix_merkle{true};              // recompute hashMerkleRoot
    bool grind{true};                   // find a nonce satisfying PoW
    int32_t version{0x20000000};
    std::optional<uint32_t> nbits{};    // default: GetNextWorkRequired
    std::vector<TxOut> extra_coinbase_outputs{};
    CScript coinbase_spk{};             // default OpTrueSpk()
};
// Builds a block on `prev` (any index entry). Does not consult the node's UTXO set.
CBlock MakeBlock(Node& n, const CBlockIndex* prev, const std::vector<CTransactionRef>& txs, const BlockOpts& o = {});
void Grind(CBlockHeader& h, const Consensus::Params& p);
// after editing a block: recompute merkle root (+ optionally witness commitment) and PoW
void Refinalize(Node& n, CBlock& b, const CBlockIndex* prev, bool redo_commitment, bool grind = true);

// ----------------------------------------------------------------------------------------- reference ledger
struct RefCoin {
    CAmount value;
    CScript spk;
    int height;
    bool coinbase;
    bool operator==(const RefCoin& o) const { return value == o.value && spk == o.spk && height == o.height && coinbase == o.coinbase; }
};
using RefUtxo = std::map<COutPoint, RefCoin>;

struct RefBlock {
    CBlock block;
    uint256 hash, prev;
    int height{0};
};

struct RefLedger {
    std::map<uint256, RefBlock> blocks;                               // every block the harness ever built (+ genesis)
    std::map<uint256, std::shared_ptr<const RefUtxo>> utxo_cache;     // UTXO after connecting the chain ending at hash
    std::string last_error;

    void AddGenesis(const CBlock& g);
    void Add(const CBlock& b);                                         // parent must be known
    bool Known(const uint256& h) const { return blocks.count(h) > 0; }
    int Height(const uint256& h) const { return blocks.at(h).height; }
    // UTXO set after replaying genesis..h. nullptr if some block on the path breaks a ledger rule
    // (missing/double-spent input, value out of range, in < out, coinbase overpay, immature coinbase spend);
    // last_error says which.
    std::shared_ptr<const RefUtxo> UtxoAt(const uint256& h);
    // fee of tx given a view (sum in - sum out); nullopt if an input is missing
    static std::optional<CAmount> Fee(const RefUtxo& view, const CTransaction& tx);
    // fees of a tx list applied in order on top of the UTXO at `prev` (in-block dependencies allowed)
    std::optional<CAmount> Fees(const uint256& prev, const std::vector<CTransactionRef>& txs);
    std::vector<uint256> Chain(const uint256& tip) const;              // genesis..tip
    static CAmount Subsidy(int height, int interval);
    // canonical digest of a UTXO map
    static uint64_t Digest(const RefUtxo& u);
};
// Compare the node's UTXO view with the reference over the universe of all outpoints created by any known block.
// Returns "" if equal, else a description of the first difference.
std::string CompareUtxo(Node& n, RefLedger& L, const RefUtxo& expect);
std::string CompareUtxoCursor(Node& n, const RefUtxo& expect);

// Mine `count` empty blocks on the tip, registering them in the ledger. Returns hashes.
std::vector<uint256> MineEmpty(Node& n, RefLedger& L, int count);

int ThreadCount(); // number of threads in this process (/proc/self/task)

} // namespace ck
