// walletnode — a real descriptor CWallet attached to the in-process regtest node of chainkit (ck::Node) through the
// real interfaces::Chain notification path, plus an independent reference for "what the wallet should see".
//
//  wn::WalletNode   CWallet (in-memory SQLite, fixed master key, small keypool) subscribed with
//                   chain.handleNotifications(). Notifications must reach the wallet the way they do in production:
//                   *after* the validation / mempool call that produced them has finished (the wallet looks at the
//                   mempool from inside transactionRemovedFromMempool; with an immediate task runner it would still
//                   see the transaction that is being removed). So the node is built with wn::DeferredOpts()
//                   (SerialTaskRunner queue), the scheduler's service thread is stopped right away (the process is
//                   single-threaded again: fork() remains a sound snapshot) and the queue is drained on the calling
//                   thread by wn::Flush() after every node call (World::Mine / World::Submit do it).
//                   The wallet never broadcasts by itself (ck::Node has no PeerManager): "send" = CommitTransaction
//                   (wallet) + World::Submit (mempool).
//  wn::World        node + ledger + wallet + block/tx builders used by C41 / C44 / C56.
//  wn::RefView      the reference: balances and spendable coins obtained by a direct scan of the reference ledger's
//                   UTXO set of the active chain and of the mempool for the wallet's scripts, minus coins reserved by
//                   wallet-local transactions that are neither confirmed, in the mempool, conflicted nor abandoned.
#pragma once
#include <kits/chainkit.h>

#include <addresstype.h>
#include <outputtype.h>
#include <wallet/wallet.h>

#include <map>
#include <memory>
#include <set>
#include <string>
#include <vector>

namespace wn {

struct Opts {
    int keypool{8};
    unsigned char seed_byte{0x5a};      // the master key is a pure function of this byte
};

// options for a ck::Node whose validation signals are queued (see above); pass the result to ck::Node's constructor
ck::NodeOpts DeferredOpts(ck::NodeOpts o = {});
// deliver every queued notification on the calling thread
void Flush(ck::Node& n);

struct WalletNode {
    ck::Node& n;
    std::shared_ptr<wallet::CWallet> w;
    std::set<CScript> scripts;          // every scriptPubKey handed out through NewAddr / NewChange
    explicit WalletNode(ck::Node& node, Opts o = {});
    ~WalletNode();
    CTxDestination NewAddr(OutputType t);
    CTxDestination NewChange(OutputType t);
    CScript NewAddrSpk(OutputType t) { return GetScriptForDestination(NewAddr(t)); }
    CScript NewChangeSpk(OutputType t) { return GetScriptForDestination(NewChange(t)); }
    bool Sign(CMutableTransaction& m);                 // signs the inputs the wallet can sign; true if complete
    void Commit(const CTransactionRef& tx);            // CWallet::CommitTransaction (adds to the wallet; no broadcast)
};

// scriptPubKeys of the wallet's active internal (change) descriptors, indexes 0..count-1, with their output type.
// Obtained by parsing the descriptors' public strings and expanding them (descriptor code only, no wallet logic).
std::map<CScript, OutputType> InternalScripts(wallet::CWallet& w, int count);

// topologically ordered mempool content (parents first, ties by txid)
std::vector<CTransactionRef> MempoolTxs(ck::Node& n);

// ------------------------------------------------------------------------------------------- reference
struct KnownTx {
    CTransactionRef tx;
    bool abandoned{false};              // user action "abandon" (cleared when the tx becomes active or conflicted again)
};
enum class St { CONF, MEMPOOL, CONFLICTED, ABANDONED, INACTIVE };
const char* StName(St s);

struct RefCoinOut {
    COutPoint op;
    CAmount value;
    CScript spk;
    int depth;
    bool safe;
    bool operator<(const RefCoinOut& o) const { return op < o.op; }
};

// Scan of the active chain (genesis..tip) of a ledger: where every transaction confirmed and who spent what.
struct ChainScan {
    uint256 tip;
    int tip_height{0};
    std::map<Txid, int> conf_height;
    std::map<Txid, bool> is_coinbase;
    std::map<COutPoint, Txid> spent_by;
    static std::shared_ptr<const ChainScan> Of(ck::RefLedger& L, const uint256& tip);
};

struct RefView {
    // inputs
    std::shared_ptr<const ck::RefUtxo> utxo;
    std::shared_ptr<const ChainScan> chain;
    std::map<Txid, CTransactionRef> pool;
    const std::set<CScript>* scripts{nullptr};
    const std::map<Txid, KnownTx>* known{nullptr};
    std::set<COutPoint> locked;
    // outputs
    std::map<Txid, St> status;              // of every known tx
    std::map<Txid, bool> mempool_conflicted;
    CAmount trusted{0}, untrusted_pending{0}, immature{0};
    std::vector<RefCoinOut> coins_safe;     // AvailableCoins() default: spendable, safe, unlocked
    std::vector<RefCoinOut> coins_all;      // with m_include_unsafe_inputs
    void Compute();
    St StatusOf(const Txid& id);
    bool Trusted(const Txid& id);           // for a mempool tx
private:
    std::map<Txid, bool> m_trusted_memo;
    bool MempoolConflicted(const Txid& id);
    bool Reserved(const COutPoint& op) const { return m_reserved.count(op) > 0; }
    std::set<COutPoint> m_pool_spent, m_reserved;
};

// ------------------------------------------------------------------------------------------- world
struct World {
    ck::Node& n;
    ck::RefLedger L;
    std::unique_ptr<WalletNode> wn;
    std::map<Txid, KnownTx> known;          // wallet-relevant transactions the wallet has been told about
    std::vector<Txid> order;                // ... in the order they became known
    std::set<uint256> noted_blocks;

    explicit World(ck::Node& node) : n(node) {}
    // genesis ledger + mock time + wallet created at genesis (it sees every later block)
    void Init(Opts o = {});
    wallet::CWallet& W() { return *wn->w; }

    // Build a block on `parent` with txs (fees from the ledger), register it in the ledger and deliver it.
    // Returns the hash; throws if the ledger thinks the block is valid but the node refuses the delivery itself.
    // extra_nonce < 0: the number of children the parent already has in the ledger (sibling blocks differ, and a block
    // stays a pure function of (parent, contents, number of elder siblings)).
    uint256 Mine(const uint256& parent, const std::vector<CTransactionRef>& txs, const CScript& coinbase_spk = {}, int extra_nonce = -1);
    uint256 MineTip(const std::vector<CTransactionRef>& txs, const CScript& coinbase_spk = {}, int extra_nonce = -1) { return Mine(n.tip()->GetBlockHash(), txs, coinbase_spk, extra_nonce); }
    void MineEmpty(int count) { for (int i = 0; i < count; i++) MineTip({}); }
    // mempool submission (+ delivery of the notifications)
    MempoolAcceptResult Submit(const CTransactionRef& tx, bool test_accept = false);

    // anyone-can-spend coins of the active chain that are mature at the next height and not spent in the mempool
    struct Ext { COutPoint op; CAmount value; int height; };
    std::vector<Ext> ExternalCoins();
    // external payment: spends the OP_TRUE coin `from` into `value` for spk (+ the rest minus fee back to OP_TRUE)
    static CTransactionRef Pay(const Ext& from, const std::vector<std::pair<CScript, CAmount>>& outs, CAmount fee = 2000, uint32_t sequence = 0xfffffffd);

    // ---- the eight prepared coin kinds of C41 / C56
    enum Kind { K_P2WPKH = 0, K_P2PKH, K_P2TR, K_P2SH_P2WPKH, K_IMMATURE_CB, K_LOCKED, K_UNCONF_SELF, K_UNCONF_EXT, K_COUNT };
    static const char* KindName(int k);
    struct Prepared {
        std::map<int, COutPoint> op;            // kind -> the wallet coin of that kind
        std::map<COutPoint, CTxOut> prevouts;   // every output of every wallet-relevant tx + the external coin
        COutPoint ext_op;                       // a confirmed P2WPKH coin of ext_key (not the wallet's)
        CTxOut ext_out;
        CKey ext_key;
    };
    // Gives the wallet exactly the coins in `mask` (bit k = kind k): one block with the confirmed payments (+ the external
    // coin), optionally one block whose coinbase pays the wallet, then the mempool transactions; locks the K_LOCKED coin.
    Prepared PrepareCoins(unsigned mask);

    // does the transaction touch the wallet (pays one of its scripts or spends an output of a known tx paying one)?
    bool Relevant(const CTransaction& tx) const;
    void Note(const CTransactionRef& tx) { if (Relevant(*tx) && known.emplace(tx->GetHash(), KnownTx{tx, false}).second) order.push_back(tx->GetHash()); }
    // After an operation: every relevant tx of the active chain / mempool is known to the wallet; flags of txs that
    // are active or conflicted are reset.
    RefView View();
    // compares GetBalance + AvailableCoins (safe and unsafe) with the view; returns "" or the first difference
    std::string Compare(RefView& v);
};

} // namespace wn
