// poolsim — explicit-state exploration of the real regtest node *with its mempool* (fork-per-transition,
// vx/forksim.h).  Shared engine of C22, C23, C26, C27, C28 (and C55/C29): every property is its own monitor
// (ps::Monitor) over the same reachable-state set.
//
// Node: ck::Node with tiny mempool limits (NodeOpts.mempool_tweak), check_ratio=1, a base chain of `base_blocks`
// blocks whose coinbases pay P2WSH(OP_TRUE), optionally `prefill` low-feerate filler transactions so that the
// size limit is within reach of a depth-3 history.
//
// Events are strings and every event is a pure function of the current (canonical) state:
//   N:<ver>:<f>          spend the first free mature coin into 2 outputs, version ver (2|3), fee code f
//   NS:<f>               same as N:2 with an additional pay-to-pubkey output (1 legacy sigop = sigop cost 4)
//   NY:<f>               same, but the coin whose coinbase matures exactly at the next block (reorg => immature)
//   NL:<f>               same as N:2 with nLockTime = tip height and a non-final sequence (reorg => non-final)
//   NQ:<f>               same as N:2 with a BIP68 relative height lock that is satisfied exactly at the next block
//   C:<i>:<o>:<ver>:<f>  child of pool tx i (index in txid order) spending its output o, 1 output
//   CP:<i>:<o>:<ver>:<sz> same, padded with an OP_RETURN output to exactly sz virtual bytes, fee 10x minrelay
//   J:<f>                one tx spending the last output of the first two pool txs that have it unspent (joins clusters)
//   R:<i>:<t>            conflict of pool tx i (spends all of i's inputs, 1 output), fee at threshold t of the RBF rules
//   RB:<i>:<t>           same, padded to ~3x the size of i (feerate-diagram rule rather than the fee rules decides)
//   RS:<i>               conflict of pool tx i that also spends an output of i (must never be accepted)
//   RD                   conflict of the first pool tx (txid order) that has a child with a free output: spends all of that
//                        tx's inputs AND an output of its child (a descendant of what it evicts), fee 2S+10inc (must never be accepted)
//   SB:<i>:<t>           TRUC sibling of the v3 child i (spends another output of i's parent) at threshold t
//   PK:<ver>:<pf>:<cf>   package parent(first free coin, fee pf)+child(spends parent:0, fee cf)
//   PE:<k>:<pf>:<cf>     ephemeral dust package: parent has a 0-value output, fee pf; child spends k=b(oth)|m(ain only)|d(ust only)
//   PR:<i>:<t>           package RBF: parent conflicts with pool tx i and pays minrelay-1, child makes the package hit threshold t
//   D:<f>                single tx with a dust output at fee f
//   W:<k>                spend a P2WSH(OP_IF OP_1 OP_ELSE OP_1 OP_ENDIF) base coin with IF argument k: a=0x01 (standard),
//                        b=0x02 (MINIMALIF: policy-only failure), c=empty (ELSE branch), d=wrong witness script (consensus failure)
//   NF NU NI NM          always-rejected probes: non-final locktime, unsatisfied BIP68 lock, immature coinbase, missing input
//   S:<i>                resubmit pool tx i (already in mempool)
//   M:<k>                mine a block with the first k (0|1|a=all) pool txs in pool order
//   MC:<i>               mine a block with a tx that conflicts with pool tx i
//   I                    InvalidateBlock(tip)      (reorg depth 1, transactions return to the pool)
//   X                    two empty blocks on the tip's parent (reorg depth 1 through ActivateBestChain)
//   T                    mock time + 2 weeks + 1 s (expiry, rolling minimum fee decay)
//   P:<i>:<s>            PrioritiseTransaction(pool tx i, s = + | -  => +-1000 sat);  P:n:+ prioritises the tx N:2:z would make,
//                        P:d:+ the tx D:z would make (+1000), P:d:- the dusty parent of PE:b:m:k by minus its base fee
// fee codes f: z=0  l=minrelay-1  m=minrelay  d=2x  h=10x  k=50x   (minrelay = min_relay_feerate.GetFee(vsize))
// thresholds t (S = sum of modified fees of i and its descendants, inc = incremental_relay_feerate.GetFee(new vsize)):
//   a=S-1  b=S  c=S+inc-1  d=S+inc  e=S+inc+1  h=2S+10inc
#pragma once
#include <kits/chainkit.h>
#include <vx/forksim.h>

#include <addresstype.h>
#include <chainparams.h>
#include <consensus/tx_verify.h>
#include <node/miner.h>
#include <policy/packages.h>
#include <policy/policy.h>
#include <policy/truc_policy.h>
#include <txmempool.h>
#include <util/time.h>
#include <validation.h>

namespace ps {

using namespace ck;

// ---------------------------------------------------------------------------------------------- observation
struct BaseCoin { COutPoint op; CAmount value; int height; };
struct PoolTx {
    CTransactionRef tx;
    CAmount fee{0};   // base fee as reported by the pool
    CAmount delta{0}; // nFeeDelta as reported by the pool
    int32_t vsize{0};
    int64_t time{0};
    CAmount mod() const { return fee + delta; }
};

// What the pool shows through its public interface + an independent dependency graph computed from the inputs.
struct Snap {
    std::vector<PoolTx> txs;            // in pool order (infoAll)
    std::map<Txid, size_t> idx;         // txid -> position
    std::map<Txid, CAmount> deltas;     // prioritisation map (GetPrioritisedTransactions)
    uint256 tip;
    int height{0};
    int64_t now{0};
    size_t usage{0};
    std::vector<std::set<size_t>> parents, children;
    mutable std::shared_ptr<std::vector<struct BaseCoin>> free_cache; // filled by Sim::FreeCoins

    bool has(const Txid& t) const { return idx.count(t) > 0; }
    std::set<size_t> Desc(size_t i) const
    {
        std::set<size_t> s{i};
        std::vector<size_t> st{i};
        while (!st.empty()) { size_t c = st.back(); st.pop_back(); for (size_t k : children[c]) if (s.insert(k).second) st.push_back(k); }
        return s;
    }
    std::set<size_t> Anc(size_t i) const
    {
        std::set<size_t> s{i};
        std::vector<size_t> st{i};
        while (!st.empty()) { size_t c = st.back(); st.pop_back(); for (size_t k : parents[c]) if (s.insert(k).second) st.push_back(k); }
        return s;
    }
    std::set<size_t> Cluster(size_t i) const
    {
        std::set<size_t> s{i};
        std::vector<size_t> st{i};
        while (!st.empty()) {
            size_t c = st.back(); st.pop_back();
            for (size_t k : parents[c]) if (s.insert(k).second) st.push_back(k);
            for (size_t k : children[c]) if (s.insert(k).second) st.push_back(k);
        }
        return s;
    }
    // pool tx spending this outpoint, or -1
    int Spender(const COutPoint& op) const
    {
        for (size_t i = 0; i < txs.size(); i++) for (auto& in : txs[i].tx->vin) if (in.prevout == op) return (int)i;
        return -1;
    }
    std::vector<size_t> ByTxid() const
    {
        std::vector<size_t> v;
        for (auto& [t, i] : idx) v.push_back(i);
        return v; // std::map<Txid,..> iterates in txid order
    }
    void Link()
    {
        idx.clear();
        for (size_t i = 0; i < txs.size(); i++) idx[txs[i].tx->GetHash()] = i;
        parents.assign(txs.size(), {});
        children.assign(txs.size(), {});
        for (size_t i = 0; i < txs.size(); i++)
            for (auto& in : txs[i].tx->vin) {
                auto it = idx.find(in.prevout.hash);
                if (it != idx.end() && it->second != i) { parents[i].insert(it->second); children[it->second].insert(i); }
            }
    }
};

// serialization-level sizes, independent of policy.cpp
inline int64_t RefWeight(const CTransaction& tx)
{
    return (int64_t)::GetSerializeSize(TX_NO_WITNESS(tx)) * 3 + (int64_t)::GetSerializeSize(TX_WITH_WITNESS(tx));
}
inline int64_t RefVsize(const CTransaction& tx) { return (RefWeight(tx) + 3) / 4; }

// ---------------------------------------------------------------------------------------------- reference feerate diagram
struct RefChunk { __int128 fee; int64_t size; };
// Optimal chunking of a pool (brute force: repeatedly take the highest-feerate ancestor-closed subset of each
// cluster; clusters must be small), chunks of all clusters merged by decreasing feerate.
inline std::vector<RefChunk> RefDiagram(const Snap& s)
{
    std::vector<RefChunk> chunks;
    std::vector<char> done(s.txs.size(), 0);
    for (size_t r = 0; r < s.txs.size(); r++) {
        if (done[r]) continue;
        auto cl = s.Cluster(r);
        std::vector<size_t> m(cl.begin(), cl.end());
        for (size_t x : m) done[x] = 1;
        size_t n = m.size();
        if (n > 16) throw std::runtime_error("RefDiagram: cluster too large for brute force");
        uint32_t remaining = (1u << n) - 1;
        std::vector<uint32_t> par(n, 0);
        for (size_t a = 0; a < n; a++) for (size_t b = 0; b < n; b++) if (s.parents[m[a]].count(m[b])) par[a] |= 1u << b;
        while (remaining) {
            bool have = false;
            __int128 bf = 0; int64_t bs = 1; uint32_t bset = 0;
            for (uint32_t sub = remaining; sub; sub = (sub - 1) & remaining) {
                bool closed = true;
                __int128 f = 0; int64_t z = 0;
                for (size_t a = 0; a < n && closed; a++) if (sub >> a & 1) {
                    if ((par[a] & remaining) & ~sub) closed = false;
                    f += s.txs[m[a]].mod(); z += RefWeight(*s.txs[m[a]].tx);
                }
                if (!closed) continue;
                // higher feerate wins; on equal feerate the larger set (keeps the chunking canonical)
                __int128 l = f * bs, rr = bf * z;
                if (!have || l > rr || (l == rr && z > bs)) { have = true; bf = f; bs = z; bset = sub; }
            }
            chunks.push_back({bf, bs});
            remaining &= ~bset;
        }
    }
    std::stable_sort(chunks.begin(), chunks.end(), [](const RefChunk& a, const RefChunk& b) { return a.fee * b.size > b.fee * a.size; });
    return chunks;
}
// value of the diagram (piecewise linear through the cumulative chunk points, horizontal after the end) at size x, times `scale`
// returned as an exact rational numerator over denominator den (den > 0)
inline void RefDiagramAt(const std::vector<RefChunk>& c, int64_t x, __int128& num, __int128& den)
{
    __int128 accf = 0; int64_t accs = 0;
    for (auto& k : c) {
        if (x <= accs + k.size) { num = accf * k.size + k.fee * (x - accs); den = k.size; return; }
        accf += k.fee; accs += k.size;
    }
    num = accf; den = 1;
}
// +1: a strictly better than b (>= everywhere, > somewhere), 0 equal, -1 b strictly better, 2 incomparable
inline int RefDiagramCompare(const std::vector<RefChunk>& a, const std::vector<RefChunk>& b)
{
    std::set<int64_t> xs;
    int64_t acc = 0;
    for (auto& k : a) { acc += k.size; xs.insert(acc); }
    acc = 0;
    for (auto& k : b) { acc += k.size; xs.insert(acc); }
    bool ab = false, ba = false;
    for (int64_t x : xs) {
        __int128 na, da, nb, db;
        RefDiagramAt(a, x, na, da);
        RefDiagramAt(b, x, nb, db);
        __int128 l = na * db, r = nb * da;
        if (l > r) ab = true;
        if (l < r) ba = true;
    }
    if (ab && ba) return 2;
    return ab ? 1 : ba ? -1 : 0;
}

inline CScript P2pkSpk() { return CScript() << std::vector<unsigned char>{0x02, 0x11, 0x11, 0x11, 0x11, 0x11, 0x11, 0x11, 0x11, 0x11, 0x11, 0x11, 0x11, 0x11, 0x11, 0x11, 0x11, 0x11, 0x11, 0x11, 0x11, 0x11, 0x11, 0x11, 0x11, 0x11, 0x11, 0x11, 0x11, 0x11, 0x11, 0x11, 0x11} << OP_CHECKSIG; }
inline CScript IfScript() { return CScript() << OP_IF << OP_1 << OP_ELSE << OP_1 << OP_ENDIF; }
inline CScript IfSpk() { return GetScriptForDestination(WitnessV0ScriptHash(IfScript())); }

// ---------------------------------------------------------------------------------------------- configuration
struct Opts {
    int base_blocks{120};
    int script_coins{0};                 // the first script_coins base blocks pay to the IF-script coin (event W)
    int prefill{0};                      // filler txs (1-in-1-out, fee = 2x minrelay) accepted before the exploration starts
    int64_t max_size_bytes{16000};       // must be >= 40 * cluster_size_vbytes (CTxMemPool rejects smaller)
    unsigned cluster_count{4};
    int64_t cluster_size_vbytes{400};
    bool require_standard{true};
    std::set<std::string> classes;       // enabled event classes (N N3 NY NL NQ C CV CP J R RB RS SB PK PE PR D M MC I X T P)
    std::string fees{"zlmh"};            // fee alphabet of N (version 2)
    std::string fees3{};                 // fee alphabet of N version 3 (empty: same as fees)
    std::string fees_special{"m"};       // fee alphabet of NY NL NQ
    std::string child_fees{"mh"};        // fee alphabet of C / J
    std::string thr{"abcde"};            // thresholds of R
    std::string thr_rb{"cd"}, thr_sb{"cd"}, thr_pr{"cd"}; // thresholds of RB / SB / PR
    std::string pk_parent{"zl"}, pk_child{"hk"};
    std::vector<int> pad_sizes{};        // CP sizes
    int max_idx{3};                      // pool-indexed events address only the first max_idx non-filler pool txs (txid order)
    int max_inval{2}, max_time{1};
    bool prio_minus{true}, prio_next{true}; // P:<i>:- and P:n:+ enabled
    // state-based guards that keep small tiers small: special coins / packages only while the pool holds no menu tx,
    // time jumps only with a non-empty pool, reorgs only when they can touch the pool or a mined block
    bool guarded{false};
    bool n_only_when_empty{false};       // N / N3 only while the pool holds no menu tx (one seed tx per history)
    int child_outs{2};                   // C spends outputs 0..child_outs-1
    bool pe_all{true};                   // all PE variants (else only PE:b:z:k and PE:m:z:k)
    bool test_before_submit{false};      // C28: run test_accept first, in the same transition
    std::function<std::string(struct Sim&, const struct Snap&)> obs{}; // optional monitor-defined observation, captured before / between / after
    int depth_quick{3}, depth_thorough{4};
    int split{1};
    bool has(const char* c) const { return classes.count(c) > 0; }
};

struct Act {
    enum Kind { NONE, SUBMIT, PACKAGE, BLOCK, INVALIDATE, XREORG, TIME, PRIO } kind{NONE};
    std::vector<CTransactionRef> txs;
    Txid prio_txid;
    CAmount prio_delta{0};
    // for replacement-type candidates: what the builder aimed at (input generation only, never an oracle)
    int target{-1};
};

struct Step {
    std::string label;
    Act act;
    Snap pre, post;
    std::unique_ptr<MempoolAcceptResult> test;    // test_accept result (only with Opts.test_before_submit)
    std::unique_ptr<Snap> mid;                    // observation between test_accept and the real submission
    uint64_t key_pre{0}, key_mid{0};
    std::string obs_pre, obs_mid;
    std::unique_ptr<MempoolAcceptResult> res;     // SUBMIT
    std::unique_ptr<PackageMempoolAcceptResult> pres; // PACKAGE
    BlockResult bres;                             // BLOCK
    bool accepted() const { return res && res->m_result_type == MempoolAcceptResult::ResultType::VALID; }
};

struct Sim;
struct Monitor {
    virtual ~Monitor() = default;
    virtual void after(Sim&, const Step&) {}  // after every transition, in the process that applied it
    virtual void state(Sim&) {}               // once per distinct state, after its subtree is explored (may mutate freely)
    virtual std::string what() const { return ""; }
    virtual int gate(Sim&) { return 0; }      // root, after the run: sanity gates (return 2 = HARNESS-ERROR)
};

// outcome classes (vx::ForkShared::outcome_classes) maintained by the engine; 10..15 are free for monitors
enum Outcome { O_ACCEPT = 0, O_REJECT, O_REPLACED, O_BLOCK_WITH_POOLTX, O_REORG_READD, O_EXPIRED, O_TRIMMED, O_PKG_ACCEPT, O_BLOCK_CONFLICT, O_REORG_EVICT };

struct Sim {
    Node& n;
    Opts o;
    Monitor* mon{nullptr};
    RefLedger L;
    std::vector<BaseCoin> coins;        // OP_TRUE coinbase outputs of the base chain, by height
    std::vector<BaseCoin> wcoins;       // IF-script coinbase outputs
    std::set<Txid> fillers;
    int base_height{0};
    int64_t base_time{0};
    int n_inval{0}, n_time{0};
    vx::ForkSim fs;
    std::string pid;
    static constexpr int64_t TWO_WEEKS = 14 * 24 * 3600;
    static constexpr CAmount PRIO_DELTA = 1000;

    Sim(Node& node, Opts opts) : n(node), o(std::move(opts)) {}

    CTxMemPool& pool() { return n.pool(); }

    // ------------------------------------------------------------------ base chain
    void Init()
    {
        L.AddGenesis(Params().GenesisBlock());
        // mock time just past the future tip, so the node is not in initial block download
        base_time = Params().GenesisBlock().nTime + 600 * (int64_t)(o.base_blocks + 1);
        SetMockTime(base_time);
        for (int k = 0; k < o.base_blocks; k++) {
            BlockOpts bo;
            if (k < o.script_coins) bo.coinbase_spk = IfSpk();
            CBlock b = MakeBlock(n, n.tip(), {}, bo);
            BlockResult r = n.ProcessBlock(b);
            if (!r.pnb_ret || n.tip()->GetBlockHash() != b.GetHash()) throw std::runtime_error("poolsim: base block not accepted: " + r.reason);
            (k < o.script_coins ? wcoins : coins).push_back({COutPoint(b.vtx[0]->GetHash(), 0), b.vtx[0]->vout[0].nValue, n.height()});
        }
        base_height = n.height();
        for (int k = 0; k < o.prefill; k++) {
            Snap s = Take();
            auto free = FreeCoins(s);
            if (free.empty()) throw std::runtime_error("poolsim: not enough coins for the prefill");
            // fillers differ from every menu tx: 3 outputs
            int64_t vs = RefVsize(*Mk({free[0].op}, {free[0].value}, 3, 0, 2));
            CAmount fee = 2 * MinRelay(vs);
            auto tx = Mk({free[0].op}, {free[0].value}, 3, fee, 2);
            auto r = n.SubmitTx(tx);
            if (r.m_result_type != MempoolAcceptResult::ResultType::VALID) throw std::runtime_error("poolsim: filler rejected: " + r.m_state.ToString());
            fillers.insert(tx->GetHash());
        }
    }

    // ------------------------------------------------------------------ observation
    Snap Take()
    {
        Snap s;
        for (auto& i : pool().infoAll()) s.txs.push_back({i.tx, i.fee, i.nFeeDelta, i.vsize, (int64_t)i.m_time.count()});
        for (auto& d : pool().GetPrioritisedTransactions()) s.deltas[d.txid] = d.delta;
        const CBlockIndex* t = n.tip();
        s.tip = t->GetBlockHash();
        s.height = t->nHeight;
        s.now = GetTime();
        s.usage = pool().DynamicMemoryUsage();
        s.Link();
        return s;
    }

    // canonical key: everything the pool can show or that steers its future behaviour
    uint64_t KeyOf(const Snap& s)
    {
        std::string k = s.tip.ToString() + "|" + std::to_string(n_inval) + "|" + std::to_string(n_time) + "|";
        std::vector<std::string> parts;
        for (auto& t : s.txs) parts.push_back(t.tx->GetWitnessHash().ToString().substr(0, 20) + ":" + std::to_string(t.fee) + ":" + std::to_string(t.delta) + ":" + std::to_string(t.time - base_time));
        std::sort(parts.begin(), parts.end());
        for (auto& p : parts) k += p + ",";
        k += "|order:";
        for (auto& t : s.txs) k += t.tx->GetHash().ToString().substr(0, 8);
        k += "|deltas:";
        for (auto& [t, d] : s.deltas) k += t.ToString().substr(0, 12) + "=" + std::to_string(d) + ",";
        k += "|usage:" + std::to_string(s.usage);
        {
            LOCK2(cs_main, pool().cs);
            uint64_t bits;
            double r = pool().rollingMinimumFeeRate;
            memcpy(&bits, &r, 8);
            k += "|roll:" + std::to_string(bits) + ":" + std::to_string(pool().lastRollingFeeUpdate - base_time) + ":" + std::to_string((int)pool().blockSinceLastRollingFeeBump);
            k += "|unb:";
            for (auto& u : pool().m_unbroadcast_txids) k += u.ToString().substr(0, 8);
            k += "|cache:" + std::to_string(n.cs().CoinsTip().GetCacheSize());
        }
        return vx::fnv1a(k);
    }
    uint64_t Key() { return KeyOf(Take()); }

    // ------------------------------------------------------------------ coins
    std::optional<CAmount> ValueOf(const Snap& s, const COutPoint& op)
    {
        auto it = s.idx.find(op.hash);
        if (it != s.idx.end()) {
            const CTransaction& p = *s.txs[it->second].tx;
            if (op.n >= p.vout.size()) return std::nullopt;
            return p.vout[op.n].nValue;
        }
        auto c = n.GetCoin(op);
        if (!c) return std::nullopt;
        return c->out.nValue;
    }
    // base coins that are mature for the next block, unspent in the chain and not spent by a pool tx
    std::vector<BaseCoin> FreeCoins(const Snap& s)
    {
        if (s.free_cache) return *s.free_cache;
        std::vector<BaseCoin> v;
        for (auto& c : coins) {
            if (s.height + 1 - c.height < COINBASE_MATURITY) continue;
            if (!n.GetCoin(c.op)) continue;
            if (pool().isSpent(c.op)) continue;
            v.push_back(c);
        }
        s.free_cache = std::make_shared<std::vector<BaseCoin>>(v);
        return v;
    }

    CAmount MinRelay(int64_t vsize) { return pool().m_opts.min_relay_feerate.GetFee(vsize); }
    CAmount Incr(int64_t vsize) { return pool().m_opts.incremental_relay_feerate.GetFee(vsize); }
    std::optional<CAmount> FeeCode(char c, int64_t vsize)
    {
        CAmount m = MinRelay(vsize);
        switch (c) {
        case 'z': return 0;
        case 'l': return m - 1;
        case 'm': return m;
        case 'd': return 2 * m;
        case 'h': return 10 * m;
        case 'k': return 50 * m;
        }
        return std::nullopt;
    }
    std::optional<CAmount> ThrCode(char c, CAmount S, CAmount inc)
    {
        switch (c) {
        case 'a': return S - 1;
        case 'b': return S;
        case 'c': return S + inc - 1;
        case 'd': return S + inc;
        case 'e': return S + inc + 1;
        case 'h': return 2 * S + 10 * inc;
        }
        return std::nullopt;
    }

    // ------------------------------------------------------------------ tx builder
    // `nout` OP_TRUE outputs sharing (sum(in_values) - fee); optional extras
    CTransactionRef Mk(const std::vector<COutPoint>& ins, const std::vector<CAmount>& in_values, int nout, CAmount fee, int32_t version = 2, uint32_t locktime = 0, uint32_t sequence = 0xffffffff, bool dust_out = false, int pad_bytes = -1)
    {
        CAmount total = 0;
        for (auto v : in_values) total += v;
        total -= fee;
        std::vector<TxIn> vi;
        for (auto& p : ins) vi.push_back({p, sequence, true});
        std::vector<TxOut> vo;
        CAmount each = total / nout;
        for (int k = 0; k < nout; k++) vo.push_back({k + 1 == nout ? total - each * (nout - 1) : each, OpTrueSpk()});
        if (dust_out) vo.push_back({0, OpTrueSpk()});
        if (pad_bytes >= 0) vo.push_back({0, CScript() << OP_RETURN << std::vector<unsigned char>((size_t)pad_bytes, 0x51)});
        return MakeTransactionRef(MakeTx(vi, vo, version, locktime));
    }
    // build with a fee that depends on the final vsize (sizes do not depend on amounts)
    template <typename F>
    CTransactionRef MkFee(const std::vector<COutPoint>& ins, const std::vector<CAmount>& vals, int nout, F fee_of_vsize, int32_t version = 2, uint32_t locktime = 0, uint32_t sequence = 0xffffffff, bool dust_out = false, int pad_bytes = -1)
    {
        auto probe = Mk(ins, vals, nout, 0, version, locktime, sequence, dust_out, pad_bytes);
        std::optional<CAmount> fee = fee_of_vsize(RefVsize(*probe));
        if (!fee) return nullptr;
        CAmount total = 0;
        for (auto v : vals) total += v;
        if (*fee > total || total - *fee < 0) return nullptr;
        return Mk(ins, vals, nout, *fee, version, locktime, sequence, dust_out, pad_bytes);
    }
    // pad with OP_RETURN data so that the tx has exactly `target` vbytes (nullptr if impossible)
    template <typename F>
    CTransactionRef MkPadded(const std::vector<COutPoint>& ins, const std::vector<CAmount>& vals, int nout, int64_t target, F fee_of_vsize, int32_t version)
    {
        for (int pad = std::max<int64_t>(0, target - 400); pad <= target; pad++) {
            auto probe = Mk(ins, vals, nout, 0, version, 0, 0xffffffff, false, pad);
            int64_t vs = RefVsize(*probe);
            if (vs == target) return MkFee(ins, vals, nout, fee_of_vsize, version, 0, 0xffffffff, false, pad);
            if (vs > target) break;
        }
        return nullptr;
    }

    // pool txs that pool-indexed events may address: non-filler txs in txid order, at most max_idx
    std::vector<size_t> Addressable(const Snap& s)
    {
        std::vector<size_t> v;
        for (size_t i : s.ByTxid()) {
            if (fillers.count(s.txs[i].tx->GetHash())) continue;
            v.push_back(i);
            if ((int)v.size() >= o.max_idx) break;
        }
        // one filler stays addressable (replacing / mining conflicts of an old low-feerate tx)
        for (size_t i : s.ByTxid()) if (fillers.count(s.txs[i].tx->GetHash())) { v.push_back(i); break; }
        return v;
    }

    static std::vector<std::string> SplitLabel(const std::string& e)
    {
        std::vector<std::string> p;
        size_t pos = 0;
        while (true) {
            size_t c = e.find(':', pos);
            p.push_back(e.substr(pos, c == std::string::npos ? std::string::npos : c - pos));
            if (c == std::string::npos) break;
            pos = c + 1;
        }
        return p;
    }

    CAmount ModSum(const Snap& s, const std::set<size_t>& set)
    {
        CAmount t = 0;
        for (size_t i : set) t += s.txs[i].mod();
        return t;
    }

    // ------------------------------------------------------------------ label -> action (pure function of the state)
    Act Build(const std::string& e, const Snap& s)
    {
        Act a;
        auto p = SplitLabel(e);
        const std::string& c = p[0];
        auto addr = Addressable(s);
        auto pool_idx = [&](const std::string& t) -> int {
            int i = atoi(t.c_str());
            if (i < 0 || i >= (int)addr.size()) return -1;
            return (int)addr[i];
        };
        auto ins_of = [&](const CTransaction& tx, std::vector<COutPoint>& ins, std::vector<CAmount>& vals) -> bool {
            for (auto& in : tx.vin) {
                auto v = ValueOf(s, in.prevout);
                if (!v) return false;
                ins.push_back(in.prevout);
                vals.push_back(*v);
            }
            return true;
        };
        if (c == "N" || c == "NY" || c == "NL" || c == "NQ") {
            auto free = FreeCoins(s);
            if (free.empty()) return a;
            BaseCoin coin = free[0];
            int32_t ver = 2;
            uint32_t lock = 0, seq = 0xffffffff;
            char f;
            if (c == "N") { ver = atoi(p[1].c_str()); f = p[2][0]; } else f = p[1][0];
            if (c == "NY") {
                bool found = false;
                for (auto& fc : free) if (s.height + 1 - fc.height == COINBASE_MATURITY) { coin = fc; found = true; }
                if (!found) return a;
                lock = 1; // distinguishes it from N txs should both pick the same coin
            }
            if (c == "NL") { lock = (uint32_t)s.height; seq = 0xfffffffe; }
            if (c == "NQ") { seq = (uint32_t)(s.height + 1 - coin.height); lock = 2; }
            auto tx = MkFee({coin.op}, {coin.value}, 2, [&](int64_t vs) { return FeeCode(f, vs); }, ver, lock, seq);
            if (!tx) return a;
            a.kind = Act::SUBMIT; a.txs = {tx};
        } else if (c == "C" || c == "CP") {
            int i = pool_idx(p[1]);
            if (i < 0) return a;
            uint32_t out = atoi(p[2].c_str());
            int32_t ver = atoi(p[3].c_str());
            const CTransaction& par = *s.txs[i].tx;
            if (out >= par.vout.size() || par.vout[out].scriptPubKey != OpTrueSpk()) return a;
            COutPoint op(par.GetHash(), out);
            CTransactionRef tx;
            if (c == "C") tx = MkFee({op}, {par.vout[out].nValue}, 1, [&](int64_t vs) { return FeeCode(p[4][0], vs); }, ver);
            else tx = MkPadded({op}, {par.vout[out].nValue}, 1, atoi(p[4].c_str()), [&](int64_t vs) { return FeeCode('h', vs); }, ver);
            if (!tx) return a;
            a.kind = Act::SUBMIT; a.txs = {tx};
        } else if (c == "J") {
            std::vector<COutPoint> ins; std::vector<CAmount> vals;
            for (size_t i : s.ByTxid()) {
                if (fillers.count(s.txs[i].tx->GetHash())) continue;
                const CTransaction& t = *s.txs[i].tx;
                uint32_t last = t.vout.size() - 1;
                if (t.vout[last].scriptPubKey != OpTrueSpk() || t.vout[last].nValue == 0) continue;
                COutPoint op(t.GetHash(), last);
                if (s.Spender(op) >= 0) continue;
                ins.push_back(op); vals.push_back(t.vout[last].nValue);
                if (ins.size() == 2) break;
            }
            if (ins.size() < 2) return a;
            auto tx = MkFee(ins, vals, 1, [&](int64_t vs) { return FeeCode(p[1][0], vs); }, s.txs[s.idx.at(ins[0].hash)].tx->version);
            if (!tx) return a;
            a.kind = Act::SUBMIT; a.txs = {tx};
        } else if (c == "R" || c == "RB" || c == "RS") {
            int i = pool_idx(p[1]);
            if (i < 0) return a;
            const CTransaction& old = *s.txs[i].tx;
            std::vector<COutPoint> ins; std::vector<CAmount> vals;
            if (!ins_of(old, ins, vals)) return a;
            CAmount S = ModSum(s, s.Desc(i));
            a.target = i;
            CTransactionRef tx;
            if (c == "RS") {
                if (old.vout.empty() || old.vout[0].scriptPubKey != OpTrueSpk()) return a;
                ins.push_back(COutPoint(old.GetHash(), 0)); vals.push_back(old.vout[0].nValue);
                tx = MkFee(ins, vals, 1, [&](int64_t vs) { return ThrCode('h', S, Incr(vs)); }, old.version);
            } else if (c == "R") {
                tx = MkFee(ins, vals, 1, [&](int64_t vs) { return ThrCode(p[2][0], S, Incr(vs)); }, old.version);
            } else {
                int64_t target = 3 * s.txs[i].vsize;
                tx = MkPadded(ins, vals, 1, target, [&](int64_t vs) { return ThrCode(p[2][0], S, Incr(vs)); }, old.version);
            }
            if (!tx || tx->GetHash() == old.GetHash()) return a;
            a.kind = Act::SUBMIT; a.txs = {tx};
        } else if (c == "RD") {
            for (size_t i : s.ByTxid()) {
                const CTransaction& old = *s.txs[i].tx;
                for (size_t d : s.children[i]) {
                    const CTransaction& dtx = *s.txs[d].tx;
                    for (uint32_t k = 0; k < dtx.vout.size() && a.kind == Act::NONE; k++) {
                        if (dtx.vout[k].scriptPubKey != OpTrueSpk() || dtx.vout[k].nValue == 0) continue;
                        COutPoint dop(dtx.GetHash(), k);
                        if (s.Spender(dop) >= 0) continue;
                        std::vector<COutPoint> ins; std::vector<CAmount> vals;
                        if (!ins_of(old, ins, vals)) continue;
                        ins.push_back(dop); vals.push_back(dtx.vout[k].nValue);
                        CAmount S = ModSum(s, s.Desc(i));
                        auto tx = MkFee(ins, vals, 1, [&](int64_t vs) { return ThrCode('h', S, Incr(vs)); }, old.version);
                        if (!tx) continue;
                        a.target = (int)i;
                        a.kind = Act::SUBMIT; a.txs = {tx};
                    }
                    if (a.kind != Act::NONE) break;
                }
                if (a.kind != Act::NONE) break;
            }
        } else if (c == "SB") {
            int i = pool_idx(p[1]);
            if (i < 0) return a;
            const CTransaction& sib = *s.txs[i].tx;
            if (sib.version != TRUC_VERSION || s.parents[i].size() != 1) return a;
            size_t pi = *s.parents[i].begin();
            const CTransaction& par = *s.txs[pi].tx;
            if (par.version != TRUC_VERSION) return a;
            int freeout = -1;
            for (uint32_t k = 0; k < par.vout.size(); k++)
                if (par.vout[k].scriptPubKey == OpTrueSpk() && s.Spender(COutPoint(par.GetHash(), k)) < 0) { freeout = k; break; }
            if (freeout < 0) return a;
            CAmount S = ModSum(s, s.Desc(i));
            a.target = i;
            auto tx = MkFee({COutPoint(par.GetHash(), freeout)}, {par.vout[freeout].nValue}, 1, [&](int64_t vs) { return ThrCode(p[2][0], S, Incr(vs)); }, 3);
            if (!tx) return a;
            a.kind = Act::SUBMIT; a.txs = {tx};
        } else if (c == "PK") {
            auto free = FreeCoins(s);
            if (free.empty()) return a;
            int32_t ver = atoi(p[1].c_str());
            auto par = MkFee({free[0].op}, {free[0].value}, 2, [&](int64_t vs) { return FeeCode(p[2][0], vs); }, ver);
            if (!par) return a;
            auto ch = MkFee({COutPoint(par->GetHash(), 0)}, {par->vout[0].nValue}, 1, [&](int64_t vs) { return FeeCode(p[3][0], vs); }, ver);
            if (!ch) return a;
            a.kind = Act::PACKAGE; a.txs = {par, ch};
        } else if (c == "PE") {
            auto free = FreeCoins(s);
            if (free.empty()) return a;
            auto par = MkFee({free[0].op}, {free[0].value}, 1, [&](int64_t vs) { return FeeCode(p[2][0], vs); }, 3, 0, 0xffffffff, /*dust_out=*/true);
            if (!par) return a;
            std::vector<COutPoint> ins; std::vector<CAmount> vals;
            if (p[1] == "b" || p[1] == "m") { ins.push_back(COutPoint(par->GetHash(), 0)); vals.push_back(par->vout[0].nValue); }
            if (p[1] == "b" || p[1] == "d") { ins.push_back(COutPoint(par->GetHash(), 1)); vals.push_back(0); }
            if (p[1] == "d") { // the dust alone cannot pay a fee: add a second confirmed coin
                if (free.size() < 2) return a;
                ins.push_back(free[1].op); vals.push_back(free[1].value);
            }
            auto ch = MkFee(ins, vals, 1, [&](int64_t vs) { return FeeCode(p[3][0], vs); }, 3);
            if (!ch) return a;
            a.kind = Act::PACKAGE; a.txs = {par, ch};
        } else if (c == "PR") {
            int i = pool_idx(p[1]);
            if (i < 0) return a;
            const CTransaction& old = *s.txs[i].tx;
            std::vector<COutPoint> ins; std::vector<CAmount> vals;
            if (!ins_of(old, ins, vals)) return a;
            CAmount S = ModSum(s, s.Desc(i));
            a.target = i;
            auto par = MkFee(ins, vals, 1, [&](int64_t vs) { return FeeCode('l', vs); }, old.version);
            if (!par || par->GetHash() == old.GetHash()) return a;
            int64_t pvs = RefVsize(*par);
            CAmount pfee = *FeeCode('l', pvs);
            auto ch = MkFee({COutPoint(par->GetHash(), 0)}, {par->vout[0].nValue}, 1, [&](int64_t vs) -> std::optional<CAmount> {
                auto t = ThrCode(p[2][0], S, Incr(vs + pvs));
                if (!t || *t - pfee < 0) return std::nullopt;
                return *t - pfee; }, old.version);
            if (!ch) return a;
            a.kind = Act::PACKAGE; a.txs = {par, ch};
        } else if (c == "D") {
            auto free = FreeCoins(s);
            if (free.empty()) return a;
            auto tx = MkFee({free[0].op}, {free[0].value}, 1, [&](int64_t vs) { return FeeCode(p[1][0], vs); }, 2, 0, 0xffffffff, /*dust_out=*/true);
            if (!tx) return a;
            a.kind = Act::SUBMIT; a.txs = {tx};
        } else if (c == "NS") {
            auto free = FreeCoins(s);
            if (free.empty()) return a;
            auto probe = MakeTx({{free[0].op}}, {{free[0].value, OpTrueSpk()}, {10000, P2pkSpk()}});
            auto fee = FeeCode(p[1][0], RefVsize(CTransaction(probe)));
            if (!fee) return a;
            auto m = MakeTx({{free[0].op}}, {{free[0].value - 10000 - *fee, OpTrueSpk()}, {10000, P2pkSpk()}});
            a.kind = Act::SUBMIT; a.txs = {MakeTransactionRef(m)};
        } else if (c == "W") {
            const BaseCoin* wc = nullptr;
            for (auto& x : wcoins) if (s.height + 1 - x.height >= COINBASE_MATURITY && n.GetCoin(x.op) && !pool().isSpent(x.op)) { wc = &x; break; }
            if (!wc) return a;
            CMutableTransaction m = MakeTx({{wc->op, 0xffffffff, false}}, {{wc->value - 5000, OpTrueSpk()}, {0, CScript() << OP_RETURN << std::vector<unsigned char>{(unsigned char)p[1][0]}}});
            CScript ws = p[1] == "d" ? (CScript() << OP_IF << OP_1 << OP_ELSE << OP_2 << OP_ENDIF) : IfScript();
            std::vector<unsigned char> arg = p[1] == "b" ? std::vector<unsigned char>{2} : p[1] == "c" ? std::vector<unsigned char>{} : std::vector<unsigned char>{1};
            m.vin[0].scriptWitness.stack = {arg, std::vector<unsigned char>(ws.begin(), ws.end())};
            a.kind = Act::SUBMIT; a.txs = {MakeTransactionRef(m)};
        } else if (c == "NF" || c == "NU" || c == "NI" || c == "NM") {
            auto free = FreeCoins(s);
            if (free.empty()) return a;
            BaseCoin coin = free[0];
            uint32_t lock = 0, seq = 0xffffffff;
            if (c == "NF") { lock = (uint32_t)s.height + 1; seq = 0xfffffffe; }
            if (c == "NU") { seq = (uint32_t)(s.height + 2 - coin.height); lock = 2; }
            if (c == "NI") {
                bool found = false;
                for (auto& x : coins) if (s.height + 1 - x.height == COINBASE_MATURITY - 1 && n.GetCoin(x.op)) { coin = x; found = true; }
                if (!found) return a;
            }
            if (c == "NM") coin.op = COutPoint(coin.op.hash, 7);
            auto tx = MkFee({coin.op}, {coin.value}, 2, [&](int64_t vs) { return FeeCode('h', vs); }, 2, lock, seq);
            if (!tx) return a;
            a.kind = Act::SUBMIT; a.txs = {tx};
        } else if (c == "S") {
            int i = pool_idx(p[1]);
            if (i < 0) return a;
            a.kind = Act::SUBMIT; a.txs = {s.txs[i].tx};
        } else if (c == "M") {
            size_t k = p[1] == "a" ? s.txs.size() : std::min<size_t>(s.txs.size(), atoi(p[1].c_str()));
            if (p[1] != "0" && s.txs.empty()) return a;
            if (p[1] == "1" && s.txs.size() < 2) return a; // identical to M:a
            a.kind = Act::BLOCK;
            for (size_t i = 0; i < k; i++) a.txs.push_back(s.txs[i].tx);
        } else if (c == "MC") {
            int i = pool_idx(p[1]);
            if (i < 0) return a;
            const CTransaction& old = *s.txs[i].tx;
            if (!s.parents[i].empty()) return a; // inputs must be confirmed coins
            std::vector<COutPoint> ins; std::vector<CAmount> vals;
            if (!ins_of(old, ins, vals)) return a;
            a.target = i;
            auto tx = Mk(ins, vals, 4, 5000, 2);
            a.kind = Act::BLOCK; a.txs = {tx};
        } else if (c == "I") {
            if (n_inval >= o.max_inval || s.height < base_height) return a;
            a.kind = Act::INVALIDATE;
        } else if (c == "X") {
            if (n_inval >= o.max_inval || s.height < base_height) return a;
            a.kind = Act::XREORG;
        } else if (c == "T") {
            if (n_time >= o.max_time) return a;
            a.kind = Act::TIME;
        } else if (c == "P") {
            a.prio_delta = p[2] == "+" ? PRIO_DELTA : -PRIO_DELTA;
            if (p[1] == "d") {
                // P:d:+  prioritise the tx D:z would make by +1000;  P:d:-  prioritise the parent of PE:b:m:k by minus its fee
                Act dx = Build(p[2] == "+" ? "D:z" : "PE:b:m:k", s);
                if (dx.kind == Act::NONE) return a;
                a.prio_txid = dx.txs[0]->GetHash();
                if (s.deltas.count(a.prio_txid)) return a;
                if (p[2] == "-") {
                    CAmount in = 0, out = 0;
                    for (auto& i : dx.txs[0]->vin) in += ValueOf(s, i.prevout).value_or(0);
                    for (auto& o2 : dx.txs[0]->vout) out += o2.nValue;
                    a.prio_delta = -(in - out);
                }
            } else if (p[1] == "n") {
                Act nx = Build("N:2:z", s);
                if (nx.kind != Act::SUBMIT) return a;
                a.prio_txid = nx.txs[0]->GetHash();
                // only one pending prioritisation of a future tx at a time
                if (s.deltas.count(a.prio_txid)) return a;
            } else {
                int i = pool_idx(p[1]);
                if (i < 0) return a;
                a.prio_txid = s.txs[i].tx->GetHash();
                a.target = i;
                // keep |delta| bounded
                auto d = s.deltas.find(a.prio_txid);
                CAmount cur = d == s.deltas.end() ? 0 : d->second;
                if (std::abs(cur + a.prio_delta) > 2 * PRIO_DELTA) return a;
            }
            a.kind = Act::PRIO;
        } else {
            throw std::logic_error("poolsim: unknown event " + e);
        }
        return a;
    }

    // ------------------------------------------------------------------ enabled events
    // Distinct (state, event) pairs: a state met first deep in the tree and later nearer the root is expanded twice by
    // forksim (in an order that depends on worker timing); the evidence counts every transition once.
    std::atomic<uint64_t>* exp_table{nullptr};
    std::atomic<uint64_t>* distinct_transitions{nullptr};
    static constexpr size_t EXP_BITS = 21;
    bool MarkExpanded(uint64_t k)
    {
        if (k == 0) k = 1;
        size_t mask = ((size_t)1 << EXP_BITS) - 1;
        size_t i = (k * 0x9E3779B97F4A7C15ULL >> 20) & mask;
        for (size_t probes = 0; probes <= mask; probes++, i = (i + 1) & mask) {
            uint64_t cur = exp_table[i].load();
            if (cur == k) return false;
            if (cur == 0) {
                if (exp_table[i].compare_exchange_strong(cur, k)) return true;
                if (cur == k) return false;
            }
        }
        throw std::runtime_error("poolsim: expanded-state table full");
    }

    std::vector<std::string> Events()
    {
        Snap s = Take();
        std::vector<std::string> cand;
        auto addr = Addressable(s);
        auto S = [](char c) { return std::string(1, c); };
        if (o.has("N")) for (char f : o.fees) cand.push_back("N:2:" + S(f));
        if (o.has("N3")) for (char f : (o.fees3.empty() ? o.fees : o.fees3)) cand.push_back("N:3:" + S(f));
        if (o.has("NS")) for (char f : o.fees_special) cand.push_back("NS:" + S(f));
        if (o.has("NY")) for (char f : o.fees_special) cand.push_back("NY:" + S(f));
        if (o.has("NL")) for (char f : o.fees_special) cand.push_back("NL:" + S(f));
        if (o.has("NQ")) for (char f : o.fees_special) cand.push_back("NQ:" + S(f));
        for (size_t i = 0; i < addr.size(); i++) {
            std::string I = std::to_string(i);
            const CTransaction& t = *s.txs[addr[i]].tx;
            if (o.has("C")) for (int out = 0; out < o.child_outs; out++) for (char f : o.child_fees) {
                cand.push_back("C:" + I + ":" + std::to_string(out) + ":" + std::to_string(t.version) + ":" + S(f));
            }
            if (o.has("CV")) cand.push_back("C:" + I + ":1:" + std::to_string(t.version == 3 ? 2 : 3) + ":h");
            if (o.has("CP")) for (int sz : o.pad_sizes) cand.push_back("CP:" + I + ":1:" + std::to_string(t.version) + ":" + std::to_string(sz));
            if (o.has("R")) for (char th : o.thr) cand.push_back("R:" + I + ":" + S(th));
            if (o.has("RB")) for (char th : o.thr_rb) cand.push_back("RB:" + I + ":" + S(th));
            if (o.has("RS")) cand.push_back("RS:" + I);
            if (o.has("SB")) for (char th : o.thr_sb) cand.push_back("SB:" + I + ":" + S(th));
            if (o.has("PR")) for (char th : o.thr_pr) cand.push_back("PR:" + I + ":" + S(th));
            if (o.has("MC")) cand.push_back("MC:" + I);
            if (o.has("P")) { cand.push_back("P:" + I + ":+"); if (o.prio_minus) cand.push_back("P:" + I + ":-"); }
        }
        if (o.has("RD")) cand.push_back("RD");
        if (o.has("J")) for (char f : o.child_fees) cand.push_back("J:" + S(f));
        if (o.has("PK")) for (char pf : o.pk_parent) for (char cf : o.pk_child) cand.push_back("PK:2:" + S(pf) + ":" + S(cf));
        if (o.has("PK3")) for (char pf : o.pk_parent) for (char cf : o.pk_child) cand.push_back("PK:3:" + S(pf) + ":" + S(cf));
        if (o.has("PE")) { for (const char* k : {"b", "m", "d"}) if (o.pe_all || k[0] != 'd') cand.push_back(std::string("PE:") + k + ":z:k"); cand.push_back("PE:b:m:k"); }
        if (o.has("D")) { cand.push_back("D:z"); cand.push_back("D:h"); }
        if (o.has("W")) for (const char* k : {"a", "b", "c", "d"}) cand.push_back(std::string("W:") + k);
        if (o.has("NX")) { for (const char* k : {"NF", "NU", "NI", "NM"}) cand.push_back(k); if (!addr.empty()) cand.push_back("S:0"); }
        if (o.has("P") && o.prio_next) cand.push_back("P:n:+");
        if (o.has("P") && o.has("D")) { cand.push_back("P:d:+"); cand.push_back("P:d:-"); }
        if (o.has("M")) { cand.push_back("M:0"); cand.push_back("M:1"); cand.push_back("M:a"); }
        if (o.has("I")) cand.push_back("I");
        if (o.has("X")) cand.push_back("X");
        if (o.has("T")) cand.push_back("T");
        std::vector<std::string> ev;
        bool menu_tx_in_pool = false;
        for (auto& t : s.txs) if (!fillers.count(t.tx->GetHash())) menu_tx_in_pool = true;
        for (auto& c : cand) {
            if (o.n_only_when_empty && menu_tx_in_pool && SplitLabel(c)[0] == "N") continue;
            if (o.guarded) {
                std::string k = SplitLabel(c)[0];
                if (menu_tx_in_pool && (k == "NY" || k == "NL" || k == "NQ" || k == "PK" || k == "PE" || k == "D" || c.rfind("P:d", 0) == 0 || c.rfind("P:n", 0) == 0)) continue;
                if (s.txs.empty() && k == "T") continue;
                if (!menu_tx_in_pool && s.height <= base_height && (k == "I" || k == "X")) continue;
            }
            if (Build(c, s).kind != Act::NONE) ev.push_back(c);
        }
        if (exp_table && MarkExpanded(KeyOf(s))) *distinct_transitions += ev.size();
        return ev;
    }

    void Bump(int cls) { if (fs.sh) fs.sh->outcome_classes[cls]++; }

    // ------------------------------------------------------------------ one transition
    void Apply(const std::string& e)
    {
        Step st;
        st.label = e;
        st.pre = Take();
        st.act = Build(e, st.pre);
        const Act& a = st.act;
        switch (a.kind) {
        case Act::NONE: return;
        case Act::SUBMIT: {
            if (o.test_before_submit) {
                st.key_pre = KeyOf(st.pre);
                if (o.obs) st.obs_pre = o.obs(*this, st.pre);
                st.test = std::make_unique<MempoolAcceptResult>(n.SubmitTx(a.txs[0], /*test_accept=*/true));
                st.mid = std::make_unique<Snap>(Take());
                st.key_mid = KeyOf(*st.mid);
                if (o.obs) st.obs_mid = o.obs(*this, *st.mid);
            }
            st.res = std::make_unique<MempoolAcceptResult>(n.SubmitTx(a.txs[0]));
            break;
        }
        case Act::PACKAGE: {
            LOCK(cs_main);
            st.pres = std::make_unique<PackageMempoolAcceptResult>(ProcessNewPackage(n.cs(), pool(), a.txs, /*test_accept=*/false, /*client_maxfeerate=*/{}));
            break;
        }
        case Act::BLOCK: {
            CAmount fees = 0;
            for (auto& t : a.txs) {
                auto it = st.pre.idx.find(t->GetHash());
                if (it != st.pre.idx.end()) fees += st.pre.txs[it->second].fee;
                else { // not a pool tx (MC): fee from the input values
                    CAmount in = 0, out = 0;
                    for (auto& i : t->vin) in += ValueOf(st.pre, i.prevout).value_or(0);
                    for (auto& o2 : t->vout) out += o2.nValue;
                    fees += in - out;
                }
            }
            BlockOpts bo;
            bo.fees = fees;
            bo.extra_nonce = 1 + n_inval;
            CBlock b = MakeBlock(n, n.tip(), a.txs, bo);
            st.bres = n.ProcessBlock(b);
            break;
        }
        case Act::INVALIDATE:
            n.Invalidate(st.pre.tip);
            n_inval++;
            break;
        case Act::XREORG: {
            const CBlockIndex* t = n.tip();
            BlockOpts bo;
            bo.extra_nonce = 50 + n_inval;
            CBlock b1 = MakeBlock(n, t->pprev, {}, bo);
            n.ProcessBlock(b1);
            const CBlockIndex* i1 = n.index_of(b1.GetHash());
            if (i1) { CBlock b2 = MakeBlock(n, i1, {}, bo); n.ProcessBlock(b2); }
            n_inval++;
            break;
        }
        case Act::TIME:
            n_time++;
            SetMockTime(base_time + (int64_t)n_time * (TWO_WEEKS + 1));
            break;
        case Act::PRIO:
            pool().PrioritiseTransaction(a.prio_txid, a.prio_delta);
            break;
        }
        // the repo's own consistency checker (aborts => the process dies => reported by forksim)
        {
            LOCK(cs_main);
            pool().check(n.cs().CoinsTip(), n.cs().m_chain.Height() + 1);
        }
        st.post = Take();
        if (getenv("VX_POOLDIAG")) {
            if (st.res) printf("  result: type=%d %s\n", (int)st.res->m_result_type, st.res->m_state.ToString().c_str());
            if (st.test) printf("  test result: type=%d %s\n", (int)st.test->m_result_type, st.test->m_state.ToString().c_str());
            if (st.pres) { printf("  package: %s\n", st.pres->m_state.ToString().c_str()); for (auto& [w, r] : st.pres->m_tx_results) printf("    %s type=%d %s\n", w.ToString().substr(0, 12).c_str(), (int)r.m_result_type, r.m_state.ToString().c_str()); }
            if (a.kind == Act::BLOCK) printf("  block: ret=%d valid=%d %s\n", (int)st.bres.pnb_ret, (int)st.bres.valid, st.bres.reason.c_str());
        }
        Classify(st);
        if (mon) mon->after(*this, st);
    }

    void Classify(const Step& st)
    {
        const Act& a = st.act;
        std::set<Txid> pre, post;
        for (auto& t : st.pre.txs) pre.insert(t.tx->GetHash());
        for (auto& t : st.post.txs) post.insert(t.tx->GetHash());
        size_t removed = 0, added = 0;
        for (auto& t : pre) if (!post.count(t)) removed++;
        for (auto& t : post) if (!pre.count(t)) added++;
        if (a.kind == Act::SUBMIT) {
            if (st.accepted()) {
                Bump(O_ACCEPT);
                if (!st.res->m_replaced_transactions.empty()) Bump(O_REPLACED);
                if (removed > st.res->m_replaced_transactions.size()) Bump(st.pre.now - base_time > 0 && ExpiredAny(st) ? O_EXPIRED : O_TRIMMED);
            } else {
                Bump(O_REJECT);
                if (removed) Bump(ExpiredAny(st) ? O_EXPIRED : O_TRIMMED);
            }
        } else if (a.kind == Act::PACKAGE) {
            if (added >= 2) Bump(O_PKG_ACCEPT);
            if (added) Bump(O_ACCEPT); else Bump(O_REJECT);
            for (auto& [w, r] : st.pres->m_tx_results) if (!r.m_replaced_transactions.empty()) { Bump(O_REPLACED); break; }
        } else if (a.kind == Act::BLOCK) {
            bool any = false;
            for (auto& t : a.txs) if (pre.count(t->GetHash())) any = true;
            if (any && st.post.tip != st.pre.tip) Bump(O_BLOCK_WITH_POOLTX);
            if (a.target >= 0 && st.post.tip != st.pre.tip && removed) Bump(O_BLOCK_CONFLICT);
            if (st.post.tip == st.pre.tip) fs.report(pid + "-engine-block-rejected:" + SplitLabel(st.label)[0], "block built by '" + st.label + "' from pool transactions in pool order was not connected: " + st.bres.reason);
        } else if (a.kind == Act::INVALIDATE || a.kind == Act::XREORG) {
            if (added) Bump(O_REORG_READD);
            if (removed) Bump(O_REORG_EVICT);
        }
    }
    bool ExpiredAny(const Step& st)
    {
        int64_t cutoff = st.post.now - (int64_t)pool().m_opts.expiry.count();
        for (auto& t : st.pre.txs) if (t.time < cutoff) return true;
        return false;
    }

    // ------------------------------------------------------------------ run
    void Run(const std::string& property_id, int depth)
    {
        pid = property_id;
        if (ThreadCount() != 1) throw std::runtime_error("poolsim: process is not single-threaded, fork exploration is unsound");
        fs.max_depth = depth;
        fs.split_depth = o.split;
        fs.events = [&] { return Events(); };
        fs.apply = [&](const std::string& e) { Apply(e); };
        fs.key = [&] { return Key(); };
        fs.post = [&] { if (mon) mon->state(*this); };
        fs.on_worker_start = [&](unsigned w) {
            fs::path d = n.BlocksDir().parent_path() / ("w" + std::to_string(w));
            n.RepointBlocksDir(d);
        };
        size_t n_exp = (size_t)1 << EXP_BITS;
        exp_table = (std::atomic<uint64_t>*)mmap(nullptr, (n_exp + 1) * 8, PROT_READ | PROT_WRITE, MAP_SHARED | MAP_ANONYMOUS, -1, 0);
        if (exp_table == MAP_FAILED) throw std::runtime_error("poolsim: mmap failed");
        distinct_transitions = exp_table + n_exp;
        vx::Evidence& E = vx::ev();
        uint64_t before = E.transitions.load();
        fs.run();
        uint64_t executed = E.transitions.load() - before;
        uint64_t distinct = distinct_transitions->load();
        if (!fs.sh->deadline_hit.load()) {
            // every distinct transition was executed at least once; re-expansions are reported separately
            E.transitions -= executed; E.transitions += distinct;
            E.traces_validated -= executed; E.traces_validated += distinct;
        }
        executed_transitions += executed;
        exp_table = nullptr;
    }
    uint64_t executed_transitions{0};
};

inline NodeOpts MakeNodeOpts(const Opts& o)
{
    NodeOpts no;
    Opts oc = o;
    no.mempool_check_ratio = 1;
    // zero-size signature / script-execution caches: every script check really runs, and the forked process image stays small
    no.min_validation_cache = true;
    no.mempool_tweak = [oc](CTxMemPool::Options& mpo) {
        mpo.check_ratio = 1;
        mpo.max_size_bytes = oc.max_size_bytes;
        mpo.limits.cluster_count = oc.cluster_count;
        mpo.limits.cluster_size_vbytes = oc.cluster_size_vbytes;
        mpo.require_standard = oc.require_standard;
    };
    return no;
}

} // namespace ps
