#include <kits/chainkit.h>

#include <addresstype.h>
#include <arith_uint256.h>
#include <chainparams.h>
#include <common/args.h>
#include <consensus/merkle.h>
#include <consensus/tx_check.h>
#include <crypto/sha256.h>
#include <kernel/chainstatemanager_opts.h>
#include <kernel/context.h>
#include <node/blockmanager_args.h>
#include <node/blockstorage.h>
#include <node/caches.h>
#include <node/chainstate.h>
#include <node/kernel_notifications.h>
#include <node/warnings.h>
#include <pow.h>
#include <scheduler.h>
#include <test/util/txmempool.h>
#include <txdb.h>
#include <util/check.h>
#include <util/fs.h>
#include <util/task_runner.h>
#include <util/thread.h>
#include <util/time.h>

#include <dirent.h>
#include <future>

using node::BlockManager;
using node::KernelNotifications;

namespace ck {

static uint64_t vx_fnv(const void* p, size_t n, uint64_t h)
{
    const unsigned char* c = (const unsigned char*)p;
    for (size_t i = 0; i < n; i++) { h ^= c[i]; h *= 1099511628211ULL; }
    return h;
}

static TestOpts BasicOpts(const NodeOpts& o)
{
    TestOpts t;
    t.extra_args = {"-nodebuglogfile", "-debug=0", "-loglevel=info"};
    for (auto a : o.extra_args) t.extra_args.push_back(a);
    t.coins_db_in_memory = o.coins_db_in_memory;
    t.block_tree_db_in_memory = o.block_tree_db_in_memory;
    t.setup_net = false;
    t.setup_validation_interface = true;
    t.min_validation_cache = o.min_validation_cache;
    return t;
}

Node::Node(NodeOpts opts)
    : BasicTestingSetup(ChainType::REGTEST, BasicOpts(opts)), m_opts(opts), m_kernel_cache_sizes{node::CalculateCacheSizes(m_args).kernel}
{
    const CChainParams& chainparams = Params();
    if (!opts.datadir.empty()) {
        // use a caller-owned datadir (crash/recovery work); the temp dir made by the base class stays empty
        fs::create_directories(fs::PathFromString(opts.datadir));
        m_args.ForceSetArg("-datadir", opts.datadir);
        gArgs.ForceSetArg("-datadir", opts.datadir);
        m_args.ClearPathCache();
        gArgs.ClearPathCache();
        fs::create_directories(m_args.GetDataDirNet());
        fs::create_directories(m_args.GetBlocksDirPath());
    }
    if (opts.immediate_signals) {
        m_node.validation_signals = std::make_unique<ValidationSignals>(std::make_unique<util::ImmediateTaskRunner>());
    } else {
        m_node.scheduler = std::make_unique<CScheduler>();
        m_node.scheduler->m_service_thread = std::thread(util::TraceThread, "scheduler", [&] { m_node.scheduler->serviceQueue(); });
        m_node.validation_signals = std::make_unique<ValidationSignals>(std::make_unique<SerialTaskRunner>(*m_node.scheduler));
    }
    bilingual_str error{};
    CTxMemPool::Options mpo = MemPoolOptionsForTest(m_node);
    mpo.check_ratio = opts.mempool_check_ratio;
    if (opts.mempool_tweak) opts.mempool_tweak(mpo);
    m_node.mempool = std::make_unique<CTxMemPool>(mpo, error);
    Assert(error.empty());
    m_node.warnings = std::make_unique<node::Warnings>();
    m_node.notifications = std::make_unique<KernelNotifications>(Assert(m_node.shutdown_request), m_node.exit_status, *Assert(m_node.warnings));

    ChainstateManager::Options chainman_opts{
        .chainparams = chainparams,
        .datadir = m_args.GetDataDirNet(),
        .check_block_index = opts.check_block_index ? 1 : 0,
        .notifications = *m_node.notifications,
        .signals = m_node.validation_signals.get(),
        .worker_threads_num = opts.worker_threads,
        .prevoutfetch_threads_num = opts.prevoutfetch_threads,
    };
    if (opts.min_validation_cache) {
        chainman_opts.script_execution_cache_bytes = 0;
        chainman_opts.signature_cache_bytes = 0;
    }
    if (opts.assumed_valid) chainman_opts.assumed_valid_block = *opts.assumed_valid;
    if (opts.minimum_chain_work) chainman_opts.minimum_chain_work = *opts.minimum_chain_work;
    if (opts.chainman_tweak) opts.chainman_tweak(chainman_opts);
    BlockManager::Options blockman_opts{
        .chainparams = chainman_opts.chainparams,
        .blocks_dir = m_args.GetBlocksDirPath(),
        .notifications = chainman_opts.notifications,
        .block_tree_db_params = DBParams{
            .path = m_args.GetDataDirNet() / "blocks" / "index",
            .cache_bytes = m_kernel_cache_sizes.block_tree_db,
            .memory_only = opts.block_tree_db_in_memory,
            .wipe_data = false,
        },
    };
    {
        // honour -prune / -fastprune given in extra_args
        auto r = node::ApplyArgsManOptions(m_args, blockman_opts);
        Assert(r);
        // extra_args are parsed into the global ArgsManager (m_node.args), not into m_args
        if (m_node.args && m_node.args != &m_args) {
            auto r2 = node::ApplyArgsManOptions(*m_node.args, blockman_opts);
            Assert(r2);
        }
    }
    m_node.chainman = std::make_unique<ChainstateManager>(*Assert(m_node.shutdown_signal), chainman_opts, blockman_opts);

    if (opts.load_chainstate) {
        std::string err = Load(/*activate=*/true);
        if (!err.empty()) throw std::runtime_error("ck::Node " + err);
    }
    m_node.validation_signals->RegisterValidationInterface(this);
}

std::string Node::Load(bool activate)
{
    auto& chainman{*m_node.chainman};
    node::ChainstateLoadOptions options;
    options.mempool = m_node.mempool.get();
    options.coins_db_in_memory = m_opts.coins_db_in_memory;
    options.wipe_chainstate_db = false;
    options.prune = chainman.m_blockman.IsPruneMode();
    options.check_blocks = m_args.GetIntArg("-checkblocks", DEFAULT_CHECKBLOCKS);
    options.check_level = m_args.GetIntArg("-checklevel", DEFAULT_CHECKLEVEL);
    options.require_full_verification = m_args.IsArgSet("-checkblocks") || m_args.IsArgSet("-checklevel");
    auto [status, err] = LoadChainstate(chainman, m_kernel_cache_sizes, options);
    if (status != node::ChainstateLoadStatus::SUCCESS) return "LoadChainstate failed (status " + std::to_string((int)status) + "): " + err.original;
    std::tie(status, err) = VerifyLoadedChainstate(chainman, options);
    if (status != node::ChainstateLoadStatus::SUCCESS) return "VerifyLoadedChainstate failed (status " + std::to_string((int)status) + "): " + err.original;
    m_node.notifications->setChainstateLoaded(true);
    if (activate) return Activate();
    return "";
}

std::string Node::Activate()
{
    BlockValidationState state;
    if (!m_node.chainman->ActiveChainstate().ActivateBestChain(state)) return "ActivateBestChain failed: " + state.ToString();
    return "";
}

Node::~Node()
{
    if (m_node.validation_signals) m_node.validation_signals->UnregisterValidationInterface(this);
    if (m_node.scheduler) m_node.scheduler->stop();
    if (m_node.validation_signals) m_node.validation_signals->FlushBackgroundCallbacks();
    m_node.args = nullptr;
    m_node.mempool.reset();
    m_node.chainman.reset();
    m_node.validation_signals.reset();
    m_node.scheduler.reset();
}

void Node::BlockChecked(const std::shared_ptr<const CBlock>& b, const BlockValidationState& st)
{
    m_last_checked_hash = b->GetHash();
    m_last_checked_state = st;
    m_last_checked_fired = true;
}

BlockResult Node::ProcessBlock(const CBlock& b, bool force, bool min_pow_checked)
{
    BlockResult r;
    m_last_checked_fired = false;
    auto sp = std::make_shared<const CBlock>(b);
    r.pnb_ret = chainman().ProcessNewBlock(sp, force, min_pow_checked, &r.new_block);
    if (m_last_checked_fired && m_last_checked_hash == b.GetHash()) {
        r.checked = true;
        r.valid = m_last_checked_state.IsValid();
        r.reason = m_last_checked_state.GetRejectReason();
        r.result = m_last_checked_state.GetResult();
    }
    return r;
}

bool Node::ProcessHeader(const CBlockHeader& h, BlockValidationState& st)
{
    std::vector<CBlockHeader> v{h};
    return chainman().ProcessNewBlockHeaders(v, /*min_pow_checked=*/true, st);
}

MempoolAcceptResult Node::SubmitTx(const CTransactionRef& tx, bool test_accept)
{
    LOCK(cs_main);
    return chainman().ProcessTransaction(tx, test_accept);
}

bool Node::Invalidate(const uint256& h)
{
    CBlockIndex* pi;
    {
        LOCK(cs_main);
        pi = chainman().m_blockman.LookupBlockIndex(h);
    }
    if (!pi) return false;
    BlockValidationState st;
    bool ok = cs().InvalidateBlock(st, pi);
    if (ok) { BlockValidationState st2; cs().ActivateBestChain(st2); }
    return ok;
}

void Node::Reconsider(const uint256& h)
{
    {
        LOCK(cs_main);
        CBlockIndex* pi = chainman().m_blockman.LookupBlockIndex(h);
        if (!pi) return;
        cs().ResetBlockFailureFlags(pi);
        chainman().RecalculateBestHeader();
    }
    BlockValidationState st;
    cs().ActivateBestChain(st);
}

bool Node::Precious(const uint256& h)
{
    CBlockIndex* pi;
    {
        LOCK(cs_main);
        pi = chainman().m_blockman.LookupBlockIndex(h);
    }
    if (!pi) return false;
    BlockValidationState st;
    return cs().PreciousBlock(st, pi);
}

void Node::Flush() { cs().ForceFlushStateToDisk(); }

std::optional<Coin> Node::GetCoin(const COutPoint& op)
{
    LOCK(cs_main);
    return cs().CoinsTip().GetCoin(op);
}

std::map<COutPoint, Coin> Node::UtxoByCursor()
{
    std::map<COutPoint, Coin> out;
    cs().ForceFlushStateToDisk(/*wipe_cache=*/false);
    LOCK(cs_main);
    std::unique_ptr<CCoinsViewCursor> cur = cs().CoinsDB().Cursor();
    while (cur->Valid()) {
        COutPoint k;
        Coin c;
        if (cur->GetKey(k) && cur->GetValue(c)) out.emplace(k, std::move(c));
        cur->Next();
    }
    return out;
}

fs::path Node::BlocksDir() { return chainman().m_blockman.m_block_file_seq.m_dir; }

void Node::RepointBlocksDir(const fs::path& newdir)
{
    auto& bm = chainman().m_blockman;
    fs::path old = bm.m_block_file_seq.m_dir;
    fs::create_directories(newdir);
    for (const auto& e : fs::directory_iterator(old)) {
        if (e.is_regular_file()) fs::copy_file(e.path(), newdir / fs::PathFromString(fs::PathToString(e.path().filename())), fs::copy_options::overwrite_existing);
    }
    const_cast<fs::path&>(bm.m_block_file_seq.m_dir) = newdir;
    const_cast<fs::path&>(bm.m_undo_file_seq.m_dir) = newdir;
}

// ----------------------------------------------------------------------------------------- builders
CScript OpTrueScript() { return CScript() << OP_TRUE; }
CScript OpTrueSpk()
{
    CScript ws = OpTrueScript();
    return GetScriptForDestination(WitnessV0ScriptHash(ws));
}
CScriptWitness OpTrueWitness()
{
    CScriptWitness w;
    CScript ws = OpTrueScript();
    w.stack.emplace_back(ws.begin(), ws.end());
    return w;
}

CMutableTransaction MakeTx(const std::vector<TxIn>& ins, const std::vector<TxOut>& outs, int32_t version, uint32_t locktime)
{
    CMutableTransaction m;
    m.version = version;
    m.nLockTime = locktime;
    for (auto& i : ins) {
        CTxIn in(i.prevout, CScript(), i.sequence);
        if (i.optrue_witness) in.scriptWitness = OpTrueWitness();
        m.vin.push_back(in);
    }
    for (auto& o : outs) m.vout.emplace_back(o.value, o.spk);
    return m;
}

CTransactionRef SpendTx(const std::vector<COutPoint>& ins, const std::vector<CAmount>& out_values, uint32_t sequence, uint32_t locktime, int32_t version)
{
    std::vector<TxIn> vi;
    for (auto& p : ins) vi.push_back({p, sequence, true});
    std::vector<TxOut> vo;
    for (auto v : out_values) vo.push_back({v, OpTrueSpk()});
    return MakeTransactionRef(MakeTx(vi, vo, version, locktime));
}

void Grind(CBlockHeader& h, const Consensus::Params& p)
{
    while (!CheckProofOfWork(h.GetHash(), h.nBits, p)) ++h.nNonce;
}

static void AddCommitment(Node& n, CBlock& b, const CBlockIndex* prev)
{
    // strip an existing commitment output (if any) then regenerate
    CMutableTransaction cb(*b.vtx[0]);
    int idx = GetWitnessCommitmentIndex(b);
    if (idx != NO_WITNESS_COMMITMENT) cb.vout.erase(cb.vout.begin() + idx);
    cb.vin[0].scriptWitness.SetNull();
    b.vtx[0] = MakeTransactionRef(cb);
    n.chainman().GenerateCoinbaseCommitment(b, prev);
}

CBlock MakeBlock(Node& n, const CBlockIndex* prev, const std::vector<CTransactionRef>& txs, const BlockOpts& o)
{
    const Consensus::Params& params = Params().GetConsensus();
    CBlock b;
    b.nVersion = o.version;
    b.hashPrevBlock = prev->GetBlockHash();
    b.nTime = o.time ? (uint32_t)o.time : prev->nTime + 600;
    b.nBits = o.nbits ? *o.nbits : GetNextWorkRequired(prev, &b, params);
    b.nNonce = 0;
    int height = prev->nHeight + 1;
    CMutableTransaction cb;
    cb.version = 2;
    cb.vin.resize(1);
    cb.vin[0].prevout.SetNull();
    int h34 = o.bip34_height_override >= 0 ? o.bip34_height_override : height;
    if (o.bip34_height) cb.vin[0].scriptSig = CScript() << h34 << CScriptNum(o.extra_nonce) << OP_0;
    else cb.vin[0].scriptSig = CScript() << CScriptNum(o.extra_nonce) << OP_0 << OP_0;
    CAmount val = o.coinbase_value >= 0 ? o.coinbase_value : RefLedger::Subsidy(height, params.nSubsidyHalvingInterval) + o.fees;
    cb.vout.emplace_back(val, o.coinbase_spk.empty() ? OpTrueSpk() : o.coinbase_spk);
    for (auto& e : o.extra_coinbase_outputs) cb.vout.emplace_back(e.value, e.spk);
    b.vtx.push_back(MakeTransactionRef(cb));
    for (auto& t : txs) b.vtx.push_back(t);
    bool has_wit = false;
    for (auto& t : txs) has_wit |= t->HasWitness();
    if (o.witness_commitment && has_wit) AddCommitment(n, b, prev);
    if (o.fix_merkle) b.hashMerkleRoot = BlockMerkleRoot(b);
    if (o.grind) Grind(b, params);
    return b;
}

void Refinalize(Node& n, CBlock& b, const CBlockIndex* prev, bool redo_commitment, bool grind)
{
    if (redo_commitment) AddCommitment(n, b, prev);
    b.hashMerkleRoot = BlockMerkleRoot(b);
    if (grind) Grind(b, Params().GetConsensus());
}

// ----------------------------------------------------------------------------------------- reference ledger
CAmount RefLedger::Subsidy(int height, int interval)
{
    int halvings = height / interval;
    if (halvings >= 64) return 0;
    return (CAmount)((uint64_t)(50LL * 100000000LL) >> halvings);
}

void RefLedger::AddGenesis(const CBlock& g)
{
    RefBlock rb;
    rb.block = g;
    rb.hash = g.GetHash();
    rb.prev.SetNull();
    rb.height = 0;
    blocks[rb.hash] = rb;
    // the genesis coinbase is not spendable: UTXO after genesis is empty
    utxo_cache[rb.hash] = std::make_shared<const RefUtxo>();
}

void RefLedger::Add(const CBlock& b)
{
    uint256 h = b.GetHash();
    if (blocks.count(h)) return;
    auto it = blocks.find(b.hashPrevBlock);
    if (it == blocks.end()) throw std::logic_error("RefLedger::Add: unknown parent");
    RefBlock rb;
    rb.block = b;
    rb.hash = h;
    rb.prev = b.hashPrevBlock;
    rb.height = it->second.height + 1;
    blocks[h] = rb;
}

static bool RefUnspendable(const CScript& s)
{
    return (s.size() > 0 && s[0] == OP_RETURN) || s.size() > 10000;
}
static bool RefMoneyRange(CAmount v) { return v >= 0 && v <= 21000000LL * 100000000LL; }

std::optional<CAmount> RefLedger::Fee(const RefUtxo& view, const CTransaction& tx)
{
    __int128 in = 0, out = 0;
    for (auto& i : tx.vin) {
        auto it = view.find(i.prevout);
        if (it == view.end()) return std::nullopt;
        in += it->second.value;
    }
    for (auto& o : tx.vout) out += o.nValue;
    return (CAmount)(in - out);
}

std::optional<CAmount> RefLedger::Fees(const uint256& prev, const std::vector<CTransactionRef>& txs)
{
    auto base = UtxoAt(prev);
    if (!base) return std::nullopt;
    RefUtxo v = *base;
    int h = Height(prev) + 1;
    CAmount total = 0;
    for (auto& t : txs) {
        auto f = Fee(v, *t);
        if (!f) return std::nullopt;
        total += *f;
        for (auto& i : t->vin) v.erase(i.prevout);
        for (size_t k = 0; k < t->vout.size(); k++)
            if (!RefUnspendable(t->vout[k].scriptPubKey)) v[COutPoint(t->GetHash(), k)] = RefCoin{t->vout[k].nValue, t->vout[k].scriptPubKey, h, false};
    }
    return total;
}

std::shared_ptr<const RefUtxo> RefLedger::UtxoAt(const uint256& h)
{
    auto c = utxo_cache.find(h);
    if (c != utxo_cache.end()) return c->second;
    auto bit = blocks.find(h);
    if (bit == blocks.end()) throw std::logic_error("RefLedger::UtxoAt: unknown block");
    const RefBlock& rb = bit->second;
    auto parent = UtxoAt(rb.prev);
    if (!parent) { utxo_cache[h] = nullptr; return nullptr; }
    auto u = std::make_shared<RefUtxo>(*parent);
    const int interval = Params().GetConsensus().nSubsidyHalvingInterval;
    __int128 fees = 0;
    bool ok = true;
    for (size_t ti = 0; ti < rb.block.vtx.size() && ok; ti++) {
        const CTransaction& tx = *rb.block.vtx[ti];
        bool is_cb = ti == 0;
        __int128 out = 0;
        for (auto& o : tx.vout) {
            if (!RefMoneyRange(o.nValue)) { ok = false; last_error = "output value out of range"; }
            out += o.nValue;
        }
        if (ok && !RefMoneyRange((CAmount)out)) { ok = false; last_error = "output total out of range"; }
        if (!ok) break;
        if (!is_cb) {
            __int128 in = 0;
            for (auto& i : tx.vin) {
                auto it = u->find(i.prevout);
                if (it == u->end()) { ok = false; last_error = "missing or spent input"; break; }
                if (it->second.coinbase && rb.height - it->second.height < 100) { ok = false; last_error = "premature coinbase spend"; break; }
                in += it->second.value;
                u->erase(it);
            }
            if (!ok) break;
            if (in < out) { ok = false; last_error = "in < out"; break; }
            fees += in - out;
        }
        for (size_t k = 0; k < tx.vout.size(); k++)
            if (!RefUnspendable(tx.vout[k].scriptPubKey)) (*u)[COutPoint(tx.GetHash(), k)] = RefCoin{tx.vout[k].nValue, tx.vout[k].scriptPubKey, rb.height, is_cb};
    }
    if (ok) {
        __int128 cbout = 0;
        for (auto& o : rb.block.vtx[0]->vout) cbout += o.nValue;
        if (cbout > fees + Subsidy(rb.height, interval)) { ok = false; last_error = "coinbase pays too much"; }
    }
    std::shared_ptr<const RefUtxo> res = ok ? std::shared_ptr<const RefUtxo>(u) : nullptr;
    utxo_cache[h] = res;
    return res;
}

std::vector<uint256> RefLedger::Chain(const uint256& tip) const
{
    std::vector<uint256> v;
    uint256 h = tip;
    while (!h.IsNull()) {
        v.push_back(h);
        h = blocks.at(h).prev;
    }
    std::reverse(v.begin(), v.end());
    return v;
}

uint64_t RefLedger::Digest(const RefUtxo& u)
{
    uint64_t h = 1469598103934665603ULL;
    for (auto& [op, c] : u) {
        h = vx_fnv(op.hash.begin(), 32, h);
        h = vx_fnv(&op.n, 4, h);
        h = vx_fnv(&c.value, 8, h);
        h = vx_fnv(&c.height, 4, h);
        unsigned char cb = c.coinbase;
        h = vx_fnv(&cb, 1, h);
        if (c.spk.size()) h = vx_fnv(c.spk.data(), c.spk.size(), h);
    }
    return h;
}

static std::string CoinStr(const Coin& c)
{
    return strprintf("value=%d h=%d cb=%d spk=%s", c.out.nValue, c.nHeight, (int)c.fCoinBase, HexStr(c.out.scriptPubKey).substr(0, 24));
}
static std::string RefStr(const RefCoin& c)
{
    return strprintf("value=%d h=%d cb=%d spk=%s", c.value, c.height, (int)c.coinbase, HexStr(c.spk).substr(0, 24));
}
static bool Same(const Coin& c, const RefCoin& r)
{
    return c.out.nValue == r.value && c.out.scriptPubKey == r.spk && (int)c.nHeight == r.height && (bool)c.fCoinBase == r.coinbase;
}

std::string CompareUtxo(Node& n, RefLedger& L, const RefUtxo& expect)
{
    // universe: every output of every known block
    for (auto& [bh, rb] : L.blocks) {
        for (auto& tx : rb.block.vtx) {
            for (uint32_t k = 0; k < tx->vout.size(); k++) {
                COutPoint op(tx->GetHash(), k);
                auto got = n.GetCoin(op);
                auto it = expect.find(op);
                if (it == expect.end()) {
                    if (got) return "node has coin the reference does not: " + op.ToString() + " " + CoinStr(*got);
                } else {
                    if (!got) return "node lacks coin " + op.ToString() + " " + RefStr(it->second);
                    if (!Same(*got, it->second)) return "coin differs " + op.ToString() + " node{" + CoinStr(*got) + "} ref{" + RefStr(it->second) + "}";
                }
            }
        }
    }
    return "";
}

std::string CompareUtxoCursor(Node& n, const RefUtxo& expect)
{
    auto got = n.UtxoByCursor();
    for (auto& [op, c] : got) {
        auto it = expect.find(op);
        if (it == expect.end()) return "DB has coin the reference does not: " + op.ToString() + " " + CoinStr(c);
        if (!Same(c, it->second)) return "DB coin differs " + op.ToString() + " node{" + CoinStr(c) + "} ref{" + RefStr(it->second) + "}";
    }
    for (auto& [op, r] : expect)
        if (!got.count(op)) return "DB lacks coin " + op.ToString() + " " + RefStr(r);
    return "";
}

std::vector<uint256> MineEmpty(Node& n, RefLedger& L, int count)
{
    std::vector<uint256> v;
    for (int i = 0; i < count; i++) {
        const CBlockIndex* tip = n.tip();
        CBlock b = MakeBlock(n, tip, {});
        L.Add(b);
        BlockResult r = n.ProcessBlock(b);
        if (!r.pnb_ret || n.tip()->GetBlockHash() != b.GetHash()) throw std::runtime_error("MineEmpty: block not accepted: " + r.reason);
        v.push_back(b.GetHash());
    }
    return v;
}

int ThreadCount()
{
    int n = 0;
    if (DIR* d = opendir("/proc/self/task")) {
        while (dirent* e = readdir(d))
            if (e->d_name[0] != '.') n++;
        closedir(d);
    }
    return n;
}

} // namespace ck
