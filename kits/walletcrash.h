// walletcrash.h — helpers shared by the VX-CRASH wallet checks (C42, C43, C62) on top of vx/crash.h.
//
//  wc::TreeOfDir            in-memory tree of a real directory (the "initial" tree of a recording that starts on a
//                           copied wallet file)
//  wc::SelfCheck            recorder self-check: Materialise(initial + complete log) must be byte-identical to the real
//                           directory after the run
//  wc::StableFrom           largest op index s <= limit at which every earlier disk-changing op is already durable.
//                           A crash state with cut j < s and crash point k >= s applies exactly the ops of the state
//                           (cut s, crash k), so enumerating cuts from s loses no state whose crash point is >= s.
//  wc::DistinctStates       vxc::Enumerate from a cut, deduplicated by the bytes of the materialised tree (for equal
//                           bytes the state with the latest crash point is kept: most acknowledged marks, strongest oracle)
#pragma once
#include <vx/crash.h>

#include <filesystem>
#include <functional>
#include <poll.h>
#include <sys/wait.h>

namespace wc {
namespace sfs = std::filesystem;

inline std::string ReadFile(const std::string& p)
{
    std::ifstream f(p, std::ios::binary);
    return std::string((std::istreambuf_iterator<char>(f)), std::istreambuf_iterator<char>());
}
inline bool WriteFile(const std::string& p, const std::string& data)
{
    std::ofstream f(p, std::ios::binary | std::ios::trunc);
    f.write(data.data(), (std::streamsize)data.size());
    return (bool)f;
}

inline vxc::Tree TreeOfDir(const std::string& dir)
{
    vxc::Tree t;
    if (!sfs::exists(dir)) return t;
    for (auto& e : sfs::recursive_directory_iterator(dir)) {
        std::string rel = e.path().string().substr(dir.size() + 1);
        if (e.is_directory()) t.dirs.insert(rel);
        else if (e.is_regular_file()) t.files[rel] = ReadFile(e.path().string());
    }
    return t;
}

// "" if the tree materialised from the complete log equals the real directory, else a description
inline std::string SelfCheck(const vxc::Log& log, const vxc::Tree& initial, const std::string& realdir, size_t* nfiles = nullptr)
{
    vxc::State all;
    all.j = log.ops.size();
    all.k = log.ops.size();
    vxc::Tree t = vxc::Materialise(log, all, &initial);
    vxc::Tree real = TreeOfDir(realdir);
    if (nfiles) *nfiles = real.files.size();
    for (auto& [p, d] : real.files) {
        auto it = t.files.find(p);
        if (it == t.files.end()) return "file " + p + " exists on disk (" + std::to_string(d.size()) + " bytes) but not in the op log";
        if (it->second != d) return "file " + p + " differs: op log has " + std::to_string(it->second.size()) + " bytes, disk " + std::to_string(d.size());
    }
    for (auto& [p, d] : t.files) if (!real.files.count(p)) return "file " + p + " is in the op log (" + std::to_string(d.size()) + " bytes) but not on disk";
    return "";
}

// first index k such that op i is durable at crash point k (SIZE_MAX: never within the log)
inline std::vector<size_t> DurableAt(const vxc::Log& L)
{
    const size_t N = L.ops.size();
    std::vector<size_t> d(N, 0);
    for (size_t i = 0; i < N; i++) {
        const vxc::Op& o = L.ops[i];
        if (o.kind == vxc::MARK || o.kind == vxc::FSYNC) { d[i] = 0; continue; }
        d[i] = SIZE_MAX;
        for (size_t k = i + 2; k <= N; k++) {
            if (L.ops[k - 1].kind != vxc::FSYNC) continue;
            if (vxc::Durable(L, i, k)) { d[i] = k; break; }
        }
    }
    return d;
}

inline size_t StableFrom(const vxc::Log& L, size_t limit)
{
    std::vector<size_t> d = DurableAt(L);
    std::vector<size_t> pm(L.ops.size() + 1, 0); // pm[s] = max d[i], i < s
    for (size_t i = 0; i < L.ops.size(); i++) pm[i + 1] = std::max(pm[i], d[i]);
    size_t s = std::min(limit, L.ops.size());
    while (s > 0 && pm[s] > s) s--;
    return s;
}

// Runs fn in a fork()ed child and returns the string it produced. *died is set (and a description returned) when the
// child terminated abnormally: an assert/abort/crash inside the code under test.
inline std::string ForkCall(const std::function<std::string()>& fn, bool* died)
{
    int fds[2];
    if (pipe(fds) != 0) throw std::runtime_error("wc::ForkCall: pipe failed");
    fflush(stdout);
    fflush(stderr);
    pid_t c = fork();
    if (c < 0) throw std::runtime_error("wc::ForkCall: fork failed");
    if (c == 0) {
        close(fds[0]);
        std::string r;
        try { r = fn(); } catch (const std::exception& e) { r = std::string("EXCEPTION\t") + e.what(); }
        size_t off = 0;
        while (off < r.size()) { ssize_t w = ::write(fds[1], r.data() + off, r.size() - off); if (w <= 0) break; off += (size_t)w; }
        close(fds[1]);
        fflush(stdout);
        _exit(0);
    }
    close(fds[1]);
    std::string out;
    char buf[4096];
    ssize_t n;
    while ((n = read(fds[0], buf, sizeof buf)) > 0 || (n < 0 && errno == EINTR)) if (n > 0) out.append(buf, (size_t)n);
    close(fds[0]);
    int st = 0;
    while (waitpid(c, &st, 0) < 0 && errno == EINTR) {}
    bool bad = !WIFEXITED(st) || WEXITSTATUS(st) != 0;
    if (died) *died = bad;
    if (bad) return WIFSIGNALED(st) ? "signal " + std::to_string(WTERMSIG(st)) : "exit status " + std::to_string(WIFEXITED(st) ? WEXITSTATUS(st) : -1);
    return out;
}

// A server process forked from the caller at a fixed point; every request is executed in a fresh child of the server.
// The server itself allocates nothing after start(), so every child starts from the same heap image, whatever the
// root and the worker pool did in the meantime: the allocation pattern of the code under test — and with it every
// order that depends on pointer values (std::set<ScriptPubKeyMan*>) — is a function of the request alone.
// Requests are short text lines; the handler's int result comes back as the request's status (-1: child died).
struct ForkServer {
    struct Req { uint32_t id; uint32_t quit; char text[1016]; };
    struct Resp { uint32_t id; int32_t status; };
    pid_t pid{-1};
    int to_fd{-1}, from_fd{-1};
    unsigned max_parallel{4};

    void start(const std::function<int(const char*)>& handler)
    {
        int a[2], b[2];
        if (pipe(a) != 0 || pipe(b) != 0) throw std::runtime_error("wc::ForkServer: pipe failed");
        fflush(stdout);
        fflush(stderr);
        pid = fork();
        if (pid < 0) throw std::runtime_error("wc::ForkServer: fork failed");
        if (pid == 0) {
            close(a[1]);
            close(b[0]);
            serve(a[0], b[1], handler);
            _exit(0);
        }
        close(a[0]);
        close(b[1]);
        to_fd = a[1];
        from_fd = b[0];
    }
    // server side: no heap allocation in here
    void serve(int in, int out, const std::function<int(const char*)>& handler)
    {
        static const int MAXC = 64;
        pid_t cpid[MAXC];
        uint32_t cid[MAXC];
        int running = 0;
        bool quit = false;
        while (!quit || running) {
            // reap
            for (;;) {
                int st = 0;
                pid_t w = running ? waitpid(-1, &st, quit ? 0 : WNOHANG) : 0;
                if (w <= 0) break;
                for (int i = 0; i < running; i++) {
                    if (cpid[i] != w) continue;
                    Resp r{cid[i], (WIFEXITED(st) ? (int32_t)WEXITSTATUS(st) : -1)};
                    if (WIFEXITED(st) && WEXITSTATUS(st) == 250) r.status = -1;
                    (void)!::write(out, &r, sizeof r);
                    cpid[i] = cpid[running - 1];
                    cid[i] = cid[running - 1];
                    running--;
                    break;
                }
            }
            if (quit) continue;
            struct pollfd pf{in, POLLIN, 0};
            int pr = poll(&pf, 1, 5);
            if (pr <= 0 || !(pf.revents & (POLLIN | POLLHUP))) continue;
            Req rq;
            size_t got = 0;
            while (got < sizeof rq) {
                ssize_t n = read(in, (char*)&rq + got, sizeof rq - got);
                if (n < 0 && errno == EINTR) continue;
                if (n <= 0) { quit = true; break; }
                got += (size_t)n;
            }
            if (quit || rq.quit) { quit = true; continue; }
            pid_t c = fork();
            if (c == 0) {
                close(in);
                close(out);
                int rc = 250;
                try { rc = handler(rq.text); } catch (...) { rc = 250; }
                fflush(stdout);
                fflush(stderr);
                _exit(rc & 0xff);
            }
            if (c < 0) { Resp r{rq.id, -1}; (void)!::write(out, &r, sizeof r); continue; }
            cpid[running] = c;
            cid[running] = rq.id;
            running++;
        }
    }
    // Runs all requests (at most max_parallel at a time). statuses[i] = handler result, -1 = child died, -2 = not run (deadline).
    std::vector<int> run(const std::vector<std::string>& reqs)
    {
        std::vector<int> status(reqs.size(), -2);
        size_t next = 0, outstanding = 0;
        while (next < reqs.size() || outstanding) {
            while (next < reqs.size() && outstanding < std::min<unsigned>(max_parallel, 64)) {
                if (vx::deadline_reached()) { next = reqs.size(); break; }
                Req rq{};
                rq.id = (uint32_t)next;
                if (reqs[next].size() >= sizeof rq.text) throw std::runtime_error("wc::ForkServer: request too long");
                memcpy(rq.text, reqs[next].c_str(), reqs[next].size() + 1);
                if (::write(to_fd, &rq, sizeof rq) != (ssize_t)sizeof rq) throw std::runtime_error("wc::ForkServer: write failed");
                next++;
                outstanding++;
            }
            if (!outstanding) break;
            Resp r;
            size_t got = 0;
            while (got < sizeof r) {
                ssize_t n = read(from_fd, (char*)&r + got, sizeof r - got);
                if (n < 0 && errno == EINTR) continue;
                if (n <= 0) throw std::runtime_error("wc::ForkServer: server went away");
                got += (size_t)n;
            }
            if (r.id < status.size()) status[r.id] = r.status;
            outstanding--;
        }
        return status;
    }
    void stop()
    {
        if (pid <= 0) return;
        Req rq{};
        rq.quit = 1;
        (void)!::write(to_fd, &rq, sizeof rq);
        close(to_fd);
        close(from_fd);
        int st = 0;
        while (waitpid(pid, &st, 0) < 0 && errno == EINTR) {}
        pid = -1;
    }
    ~ForkServer() { stop(); }
};

struct PickedState {
    vxc::State st;
    uint64_t content{0};
};

inline std::vector<PickedState> DistinctStates(const vxc::Log& log, size_t from, const vxc::Tree& initial, bool kill, bool powerloss, bool torn, size_t* enumerated = nullptr)
{
    std::vector<vxc::State> states = vxc::Enumerate(log, from, kill, powerloss, torn);
    if (enumerated) *enumerated = states.size();
    // base tree at `from` is shared by all states
    vxc::State base;
    base.j = from;
    base.k = from;
    vxc::Tree bt = vxc::Materialise(log, base, &initial);
    std::map<uint64_t, size_t> by_content;
    std::vector<PickedState> out;
    for (auto& s : states) {
        vxc::Tree t = bt;
        for (size_t i = from; i < s.j && i < log.ops.size(); i++) t.apply(log.ops[i]);
        if (s.torn_index >= 0) t.apply(log.ops[s.torn_index], (long)s.torn_bytes);
        for (size_t e : s.extra) t.apply(log.ops[e]);
        uint64_t h = t.hash();
        auto it = by_content.find(h);
        if (it == by_content.end()) { by_content[h] = out.size(); out.push_back({s, h}); }
        else if (out[it->second].st.k < s.k) out[it->second].st = s;
    }
    return out;
}

} // namespace wc
