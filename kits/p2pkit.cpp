#include <kits/p2pkit.h>

#include <chainparams.h>
#include <common/args.h>
#include <netbase.h>
#include <netmessagemaker.h>
#include <node/peerman_args.h>
#include <node/warnings.h>
#include <streams.h>
#include <test/util/random.h>
#include <util/check.h>

namespace pk {

const char* ConnTypeName(ConnectionType t)
{
    switch (t) {
    case ConnectionType::INBOUND: return "inbound";
    case ConnectionType::OUTBOUND_FULL_RELAY: return "outbound-full-relay";
    case ConnectionType::MANUAL: return "manual";
    case ConnectionType::FEELER: return "feeler";
    case ConnectionType::BLOCK_RELAY: return "block-relay-only";
    case ConnectionType::ADDR_FETCH: return "addr-fetch";
    case ConnectionType::PRIVATE_BROADCAST: return "private-broadcast";
    }
    return "?";
}

// ------------------------------------------------------------------------------------ Net
Net::Net(ck::Node& node, NetOpts opts) : n(node), o(std::move(opts))
{
    SeedRandomStateForTest(SeedRand::ZEROS);
    netgroupman = std::make_unique<NetGroupManager>(NetGroupManager::NoAsmap());
    addrman = std::make_unique<AddrMan>(*netgroupman, /*deterministic=*/true, /*consistency_check_ratio=*/0);
    banman = std::make_unique<BanMan>(n.m_args.GetDataDirBase() / "banlist", nullptr, DEFAULT_MISBEHAVING_BANTIME);
    connman = std::make_unique<ConnmanTestMsg>(0x1337, 0x1337, *addrman, *netgroupman, Params());
    PeerManager::Options po;
    node::ApplyArgsManOptions(n.m_args, po);
    po.deterministic_rng = true;
    po.ignore_incoming_txs = o.blocksonly;
    if (o.peerman_tweak) o.peerman_tweak(po);
    peerman = PeerManager::make(*connman, *addrman, banman.get(), n.chainman(), n.pool(), *Assert(n.m_node.warnings), po);
    {
        CConnman::Options co;
        co.m_msgproc = peerman.get();
        co.m_banman = banman.get();
        co.nSendBufferMaxSize = 1000 * DEFAULT_MAXSENDBUFFER;
        co.nReceiveFloodSize = 1000 * DEFAULT_MAXRECEIVEBUFFER;
        if (o.connman_tweak) o.connman_tweak(co);
        connman->Init(co);
    }
    // as init.cpp does: block/tip notifications reach net_processing (BlockChecked => punishment, BlockConnected => filters)
    n.m_node.validation_signals->RegisterValidationInterface(peerman.get());
}

Net::~Net()
{
    for (auto& p : peers) if (!p->finalized) Finalize(*p);
    if (n.m_node.validation_signals) n.m_node.validation_signals->UnregisterValidationInterface(peerman.get());
}

static Msg FromSer(CSerializedNetMsg&& m)
{
    Msg r;
    r.type = m.m_type;
    r.payload.assign(m.data.begin(), m.data.end());
    return r;
}

Peer& Net::AddPeer(const PeerSpec& s)
{
    auto p = std::make_unique<Peer>();
    p->spec = s;
    p->sink = std::make_shared<std::vector<unsigned char>>();
    NodeId id = next_id++;
    auto na = LookupHost(s.ip, /*fAllowLookup=*/false);
    if (!na) throw std::runtime_error("p2pkit: bad ip " + s.ip);
    CAddress addr(CService(*na, (uint16_t)(18444 + id)), NODE_NONE);
    p->node = std::make_unique<CNode>(id,
                                      std::make_shared<CaptureSock>(p->sink),
                                      addr,
                                      /*nKeyedNetGroupIn=*/0,
                                      /*nLocalHostNonceIn=*/0,
                                      CAddress(),
                                      /*addrNameIn=*/"",
                                      s.type,
                                      /*inbound_onion=*/false,
                                      /*network_key=*/0,
                                      CNodeOptions{.permission_flags = s.perms});
    CNode& node = *p->node;
    Peer& ref = *p;
    peers.push_back(std::move(p));

    {
        LOCK(NetEventsInterface::g_msgproc_mutex); // not recursive: ProcessOnce/Send take it themselves
        peerman->InitializeNode(node, ServiceFlags(NODE_NETWORK | NODE_WITNESS));
        connman->AddTestNode(node);
        peerman->SendMessages(node); // outbound connections: our version message
    }
    if (s.stage == Stage::PRE_VERSION) return ref;

    Deliver(ref, FromSer(NetMsg::Make(NetMsgType::VERSION,
                                      s.version,
                                      Using<CustomUintFormatter<8>>(s.services),
                                      int64_t{},                 // time
                                      int64_t{},                 // ignored service bits
                                      CNetAddr::V1(CService{}),  // addr_recv
                                      int64_t{},                 // ignored service bits
                                      CNetAddr::V1(CService{}),  // addr_from
                                      uint64_t{1},               // nonce
                                      std::string{},             // subver
                                      int32_t{},                 // starting height
                                      s.relay_txs)));
    ProcessOnce(ref);
    Send(ref);
    if (node.fDisconnect || s.stage == Stage::VERSION_ONLY) return ref;
    if (s.wtxid_relay) { Deliver(ref, MsgEmpty(NetMsgType::WTXIDRELAY)); ProcessOnce(ref); }
    Deliver(ref, MsgEmpty(NetMsgType::VERACK));
    ProcessOnce(ref);
    Send(ref);
    if (node.fDisconnect) return ref;
    if (s.send_cmpct) {
        Deliver(ref, FromSer(NetMsg::Make(NetMsgType::SENDCMPCT, /*high_bandwidth=*/false, /*version=*/uint64_t{2})));
        ProcessOnce(ref);
        Send(ref);
    }
    return ref;
}

void Net::Deliver(Peer& p, const Msg& m)
{
    CSerializedNetMsg ser;
    ser.m_type = m.type;
    ser.data.assign(m.payload.begin(), m.payload.end());
    (void)connman->ReceiveMsgFrom(*p.node, std::move(ser));
}

bool Net::ProcessOnce(Peer& p)
{
    LOCK(NetEventsInterface::g_msgproc_mutex);
    return connman->ProcessMessagesOnce(*p.node);
}

void Net::Send(Peer& p)
{
    LOCK(NetEventsInterface::g_msgproc_mutex);
    peerman->SendMessages(*p.node);
}

void Net::Finalize(Peer& p)
{
    if (p.finalized) return;
    {
        LOCK(connman->m_nodes_mutex);
        auto& v = connman->m_nodes;
        auto it = std::find(v.begin(), v.end(), p.node.get());
        if (it != v.end()) {
            v.erase(it);
            if (p.node->IsManualOrFullOutboundConn()) --connman->m_network_conn_counts[p.node->addr.GetNetwork()];
        }
    }
    p.node->fDisconnect = true;
    peerman->FinalizeNode(*p.node);
    p.finalized = true;
}

std::vector<Msg> Peer::TakeSent()
{
    std::vector<Msg> out;
    const auto& b = *sink;
    while (b.size() - parsed >= 24) {
        const unsigned char* h = b.data() + parsed;
        uint32_t len = (uint32_t)h[16] | ((uint32_t)h[17] << 8) | ((uint32_t)h[18] << 16) | ((uint32_t)h[19] << 24);
        if (b.size() - parsed < 24 + (size_t)len) break;
        Msg m;
        size_t tl = 0;
        while (tl < 12 && h[4 + tl] != 0) tl++;
        m.type.assign((const char*)h + 4, tl);
        m.payload.assign(h + 24, h + 24 + len);
        out.push_back(std::move(m));
        parsed += 24 + len;
    }
    return out;
}

// ------------------------------------------------------------------------------------ builders
Msg MsgRaw(const std::string& type, std::vector<unsigned char> payload)
{
    Msg m;
    m.type = type;
    m.payload = std::move(payload);
    return m;
}
Msg MsgEmpty(const std::string& type) { return MsgRaw(type, {}); }
Msg MsgTx(const CTransaction& tx, bool with_witness)
{
    return with_witness ? FromSer(NetMsg::Make(NetMsgType::TX, TX_WITH_WITNESS(tx))) : FromSer(NetMsg::Make(NetMsgType::TX, TX_NO_WITNESS(tx)));
}
Msg MsgBlock(const CBlock& b) { return FromSer(NetMsg::Make(NetMsgType::BLOCK, TX_WITH_WITNESS(b))); }
Msg MsgHeaders(const std::vector<CBlockHeader>& hs)
{
    std::vector<CBlock> v;
    for (auto& h : hs) v.emplace_back(h);
    return FromSer(NetMsg::Make(NetMsgType::HEADERS, TX_WITH_WITNESS(v)));
}
Msg MsgCmpctBlock(const CBlock& b, uint64_t nonce)
{
    CBlockHeaderAndShortTxIDs c{b, nonce};
    return FromSer(NetMsg::Make(NetMsgType::CMPCTBLOCK, c));
}
Msg MsgInv(const std::vector<CInv>& v) { return FromSer(NetMsg::Make(NetMsgType::INV, v)); }
Msg MsgGetData(const std::vector<CInv>& v) { return FromSer(NetMsg::Make(NetMsgType::GETDATA, v)); }
Msg MsgNotFound(const std::vector<CInv>& v) { return FromSer(NetMsg::Make(NetMsgType::NOTFOUND, v)); }

std::vector<CInv> ParseInvVector(const Msg& m)
{
    std::vector<CInv> v;
    try {
        DataStream s{m.payload};
        s >> v;
    } catch (const std::exception&) {
        v.clear();
    }
    return v;
}

} // namespace pk
