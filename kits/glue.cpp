// Symbols every executable linking the repo's libraries must define.
#include <util/translation.h>
#include <functional>
#include <string>
#include <vector>
// weak: libtest_util.a(setup_common.cpp.o) has a strong definition that wins when that member is linked
extern const TranslateFn G_TRANSLATION_FUN __attribute__((weak));
const TranslateFn G_TRANSLATION_FUN{nullptr};
// Extra command line arguments for BasicTestingSetup-derived setups; harnesses may push to this.
std::vector<const char*> g_vx_test_args;
extern const std::function<std::vector<const char*>()> G_TEST_COMMAND_LINE_ARGUMENTS;
const std::function<std::vector<const char*>()> G_TEST_COMMAND_LINE_ARGUMENTS = []() { return g_vx_test_args; };
extern const std::function<std::string()> G_TEST_GET_FULL_NAME;
const std::function<std::string()> G_TEST_GET_FULL_NAME = []() { return std::string{"vx"}; };
