// Shared main() body for the chainsim-based checks.
#pragma once
#include <kits/chainsim.h>

namespace cs {
struct Plan {
    int depth{3};
    int split{2};
    int base_blocks{110};
    std::string what;   // one line for the evidence
    double budget_frac{0}; // >0: use at most this fraction of the tier deadline
};
// configure(sim) fills kinds/parents/event switches and returns the plan
// Explore() = everything between vx::init and vx::finish (so a check can combine it with other parts).
// Returns -1 normally, or an exit code when it handled --replay itself.
inline int Explore(const char* id, ck::NodeOpts nopts, const std::function<Plan(Sim&)>& configure)
{
    vx::scratch_dir(); // TMPDIR -> tmpfs
    auto& E = vx::ev();
    ck::Node node(nopts);
    Sim sim(node);
    Plan plan = configure(sim);
    sim.Init(plan.base_blocks);
    sim.pid = id;
    if (getenv("VX_NOCURSOR")) sim.cursor_check = false;
    if (!vx::ctx().replay.empty()) {
        std::ifstream f(vx::ctx().replay);
        std::string line, hist;
        while (std::getline(f, line)) if (line.rfind("history: ", 0) == 0) hist = line.substr(9);
        sim.fs.sh = new vx::ForkShared();
        sim.fs.log_fd = 1;
        printf("base tip %s (height %d)\n", sim.base_tip.ToString().substr(0, 12).c_str(), sim.base_height);
        size_t pos = 0;
        while (pos < hist.size()) {
            size_t e = hist.find(" | ", pos);
            std::string ev = hist.substr(pos, e == std::string::npos ? std::string::npos : e - pos);
            printf("replay: %s (tip height %d)\n", ev.c_str(), node.height());
            sim.fs.hist.push_back(ev);
            sim.Apply(ev);
            printf("   -> tip %s height %d\n", node.tip()->GetBlockHash().ToString().substr(0, 12).c_str(), node.height());
            if (e == std::string::npos) break;
            pos = e + 3;
        }
        sim.PostCheck();
        printf("replay done: tip height %d, reports=%d\n", node.height(), (int)sim.fs.sh->violations.load());
        return sim.fs.sh->violations.load() ? 1 : 0;
    }
    if (plan.budget_frac > 0) sim.fs.budget_s = vx::elapsed() + plan.budget_frac * vx::ctx().deadline_s;
    sim.Run(id, plan.depth, plan.split);
    std::string kinds, parents;
    for (auto& k : sim.kinds) kinds += k + " ";
    for (auto& p : sim.parents) parents += p + " ";
    E.rule = "explicit-state search of the real regtest node (fork per transition). state = canonical (tip, delivered blocks, node-visible block status, invalidated set, coin-cache size/dirty count); transition = one real ProcessNewBlock / ProcessNewBlockHeaders / ForceFlushStateToDisk / InvalidateBlock / ReconsiderBlock / PreciousBlock call; each block is a pure function of (parent, kind); " + plan.what;
    E.assume("regtest, in-memory LevelDBs, 0 script-check and prevout-fetch workers, synchronous validation signals (single-threaded, so fork() is a sound snapshot)");
    E.set_str("block_kinds", kinds);
    E.set_str("parent_selectors", parents);
    E.set("depth", (uint64_t)plan.depth);
    E.sample("event alphabet per state: B:{" + parents + "}:{" + kinds + "}" + (sim.ev_headers ? " H:..." : "") + (sim.ev_flush ? " F" : "") + (sim.ev_invalidate ? " I:t0 I:t1" : "") + (sim.ev_reconsider ? " R" : "") + (sim.ev_precious ? " P:s" : ""));
    E.sample("example history: B:t0:spend1 | B:t1:chain2 | F | I:t0 | R");
    return -1;
}
inline int Main(int argc, char** argv, const char* id, ck::NodeOpts nopts, const std::function<Plan(Sim&)>& configure)
{
    vx::init(argc, argv, id, "model_checking", 170, 1500);
    int rc = Explore(id, nopts, configure);
    if (rc >= 0) return rc;
    return vx::finish();
}
} // namespace cs
