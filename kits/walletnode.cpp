#include <kits/walletnode.h>

#include <chainparams.h>
#include <interfaces/chain.h>
#include <key.h>
#include <scheduler.h>
#include <script/descriptor.h>
#include <wallet/scriptpubkeyman.h>
#include <util/check.h>
#include <util/time.h>
#include <wallet/coincontrol.h>
#include <wallet/receive.h>
#include <wallet/spend.h>
#include <wallet/sqlite.h>
#include <wallet/walletdb.h>

#include <algorithm>

using wallet::CWallet;

namespace wn {

ck::NodeOpts DeferredOpts(ck::NodeOpts o)
{
    o.immediate_signals = false;
    return o;
}

void Flush(ck::Node& n) { n.m_node.validation_signals->FlushBackgroundCallbacks(); }

// ------------------------------------------------------------------------------------------- wallet
WalletNode::WalletNode(ck::Node& node, Opts o) : n(node)
{
    if (n.m_opts.immediate_signals) throw std::logic_error("walletnode: build the node with wn::DeferredOpts()");
    // no service thread: queued callbacks are run by Flush() on the calling thread
    if (n.m_node.scheduler) n.m_node.scheduler->stop();
    interfaces::Chain& chain = *Assert(n.m_node.chain);
    w = std::make_shared<CWallet>(&chain, "", wallet::MakeInMemoryWalletDatabase());
    w->m_keypool_size = o.keypool;
    {
        LOCK2(w->cs_wallet, ::cs_main);
        const CBlockIndex* tip = n.chainman().ActiveChain().Tip();
        w->SetLastBlockProcessed(tip->nHeight, tip->GetBlockHash());
    }
    {
        LOCK(w->cs_wallet);
        w->SetWalletFlag(wallet::WALLET_FLAG_DESCRIPTORS);
        std::vector<unsigned char> raw(32, o.seed_byte);
        CExtKey master;
        master.SetSeed(MakeByteSpan(raw));
        wallet::WalletBatch batch(w->GetDatabase());
        w->SetupDescriptorScriptPubKeyMans(batch, master);
    }
    w->m_chain_notifications_handler = chain.handleNotifications(w);
}

WalletNode::~WalletNode()
{
    if (w) {
        Flush(n);
        if (w->m_chain_notifications_handler) w->m_chain_notifications_handler->disconnect();
        Flush(n);
        w->m_chain_notifications_handler.reset();
        w.reset();
    }
}

CTxDestination WalletNode::NewAddr(OutputType t)
{
    auto r = w->GetNewDestination(t, "");
    if (!r) throw std::runtime_error("walletnode: GetNewDestination failed: " + util::ErrorString(r).original);
    scripts.insert(GetScriptForDestination(*r));
    return *r;
}

CTxDestination WalletNode::NewChange(OutputType t)
{
    auto r = w->GetNewChangeDestination(t);
    if (!r) throw std::runtime_error("walletnode: GetNewChangeDestination failed: " + util::ErrorString(r).original);
    scripts.insert(GetScriptForDestination(*r));
    return *r;
}

bool WalletNode::Sign(CMutableTransaction& m)
{
    LOCK(w->cs_wallet);
    return w->SignTransaction(m);
}

void WalletNode::Commit(const CTransactionRef& tx) { w->CommitTransaction(tx); }

std::map<CScript, OutputType> InternalScripts(wallet::CWallet& w, int count)
{
    std::map<CScript, OutputType> out;
    LOCK(w.cs_wallet);
    for (OutputType t : OUTPUT_TYPES) {
        auto* spkm = dynamic_cast<wallet::DescriptorScriptPubKeyMan*>(w.GetScriptPubKeyMan(t, /*internal=*/true));
        if (!spkm) continue;
        std::string desc_str;
        if (!spkm->GetDescriptorString(desc_str, /*priv=*/false)) throw std::runtime_error("walletnode: no descriptor string");
        FlatSigningProvider keys;
        std::string err;
        auto parsed = Parse(desc_str, keys, err, /*require_checksum=*/true);
        if (parsed.size() != 1) throw std::runtime_error("walletnode: cannot parse " + desc_str + ": " + err);
        for (int i = 0; i < count; i++) {
            std::vector<CScript> spks;
            FlatSigningProvider o;
            if (!parsed[0]->Expand(i, keys, spks, o)) throw std::runtime_error("walletnode: cannot expand " + desc_str);
            for (auto& s : spks) out[s] = t;
        }
    }
    return out;
}

std::vector<CTransactionRef> MempoolTxs(ck::Node& n)
{
    std::vector<CTransactionRef> all;
    for (const auto& info : n.pool().infoAll()) all.push_back(info.tx);
    std::sort(all.begin(), all.end(), [](const CTransactionRef& a, const CTransactionRef& b) { return a->GetHash() < b->GetHash(); });
    std::set<Txid> in_pool, done;
    for (auto& t : all) in_pool.insert(t->GetHash());
    std::vector<CTransactionRef> out;
    while (out.size() < all.size()) {
        bool progress = false;
        for (auto& t : all) {
            if (done.count(t->GetHash())) continue;
            bool ready = true;
            for (auto& i : t->vin)
                if (in_pool.count(i.prevout.hash) && !done.count(i.prevout.hash)) ready = false;
            if (!ready) continue;
            done.insert(t->GetHash());
            out.push_back(t);
            progress = true;
        }
        if (!progress) throw std::logic_error("walletnode: mempool has a dependency cycle");
    }
    return out;
}

// ------------------------------------------------------------------------------------------- reference
const char* StName(St s)
{
    switch (s) {
    case St::CONF: return "confirmed";
    case St::MEMPOOL: return "mempool";
    case St::CONFLICTED: return "conflicted";
    case St::ABANDONED: return "abandoned";
    case St::INACTIVE: return "inactive";
    }
    return "?";
}

std::shared_ptr<const ChainScan> ChainScan::Of(ck::RefLedger& L, const uint256& tip)
{
    static std::map<uint256, std::shared_ptr<const ChainScan>> cache;
    auto it = cache.find(tip);
    if (it != cache.end()) return it->second;
    // iterative: find the nearest cached ancestor
    std::vector<uint256> path;
    uint256 h = tip;
    std::shared_ptr<const ChainScan> base;
    while (!h.IsNull()) {
        auto c = cache.find(h);
        if (c != cache.end()) { base = c->second; break; }
        path.push_back(h);
        h = L.blocks.at(h).prev;
    }
    std::reverse(path.begin(), path.end());
    for (auto& bh : path) {
        auto s = base ? std::make_shared<ChainScan>(*base) : std::make_shared<ChainScan>();
        const ck::RefBlock& rb = L.blocks.at(bh);
        s->tip = bh;
        s->tip_height = rb.height;
        for (size_t i = 0; i < rb.block.vtx.size(); i++) {
            const CTransaction& tx = *rb.block.vtx[i];
            s->conf_height[tx.GetHash()] = rb.height;
            s->is_coinbase[tx.GetHash()] = i == 0;
            if (i > 0) for (auto& in : tx.vin) s->spent_by[in.prevout] = tx.GetHash();
        }
        cache[bh] = s;
        base = s;
    }
    return base;
}

St RefView::StatusOf(const Txid& id)
{
    auto m = status.find(id);
    if (m != status.end()) return m->second;
    const KnownTx& k = known->at(id);
    St s;
    if (chain->conf_height.count(id)) s = St::CONF;
    else if (pool.count(id)) s = St::MEMPOOL;
    else {
        bool conflicted = false;
        if (k.tx->IsCoinBase()) {
            // a coinbase outside the active chain: never counted and spends nothing
            status[id] = St::ABANDONED;
            return St::ABANDONED;
        }
        for (auto& in : k.tx->vin) {
            auto sb = chain->spent_by.find(in.prevout);
            if (sb != chain->spent_by.end() && sb->second != id) conflicted = true;
            if (!conflicted && known->count(in.prevout.hash) && StatusOf(in.prevout.hash) == St::CONFLICTED) conflicted = true;
            if (conflicted) break;
        }
        s = conflicted ? St::CONFLICTED : k.abandoned ? St::ABANDONED : St::INACTIVE;
    }
    status[id] = s;
    return s;
}

bool RefView::MempoolConflicted(const Txid& id)
{
    auto m = mempool_conflicted.find(id);
    if (m != mempool_conflicted.end()) return m->second;
    mempool_conflicted[id] = false; // recursion guard (the graph is acyclic anyway)
    const KnownTx& k = known->at(id);
    bool mc = false;
    for (auto& in : k.tx->vin) {
        for (auto& [pid, ptx] : pool) {
            if (pid == id) continue;
            for (auto& pin : ptx->vin) if (pin.prevout == in.prevout) mc = true;
        }
        if (!mc && known->count(in.prevout.hash)) {
            St ps = StatusOf(in.prevout.hash);
            if (ps != St::CONF && ps != St::MEMPOOL && MempoolConflicted(in.prevout.hash)) mc = true;
        }
        if (mc) break;
    }
    mempool_conflicted[id] = mc;
    return mc;
}

bool RefView::Trusted(const Txid& id)
{
    auto m = m_trusted_memo.find(id);
    if (m != m_trusted_memo.end()) return m->second;
    bool t = true;
    const CTransactionRef& tx = pool.at(id);
    for (auto& in : tx->vin) {
        auto k = known->find(in.prevout.hash);
        if (k == known->end()) { t = false; break; }
        const CTransaction& ptx = *k->second.tx;
        if (in.prevout.n >= ptx.vout.size() || !scripts->count(ptx.vout[in.prevout.n].scriptPubKey)) { t = false; break; }
        St ps = StatusOf(in.prevout.hash);
        if (ps == St::CONF) continue;
        if (ps == St::MEMPOOL && Trusted(in.prevout.hash)) continue;
        t = false;
        break;
    }
    m_trusted_memo[id] = t;
    return t;
}

void RefView::Compute()
{
    status.clear(); mempool_conflicted.clear(); m_trusted_memo.clear();
    m_pool_spent.clear(); m_reserved.clear();
    coins_safe.clear(); coins_all.clear();
    trusted = untrusted_pending = immature = 0;
    for (auto& [id, k] : *known) { (void)k; StatusOf(id); }
    for (auto& [id, tx] : pool) { (void)id; for (auto& in : tx->vin) m_pool_spent.insert(in.prevout); }
    // coins reserved by wallet-local transactions that are not (yet / any more) active, not conflicted and not abandoned
    for (auto& [id, k] : *known) {
        if (status.at(id) != St::INACTIVE) continue;
        if (MempoolConflicted(id)) continue;
        for (auto& in : k.tx->vin) m_reserved.insert(in.prevout);
    }
    const int tip_h = chain->tip_height;
    // (1) the confirmed UTXO set of the active chain, filtered by the wallet's scripts
    for (auto& [op, c] : *utxo) {
        if (!scripts->count(c.spk)) continue;
        int depth = tip_h - c.height + 1;
        if (c.coinbase && depth <= 100) { immature += c.value; continue; } // matures (spendable in the next block) at depth 101 as the wallet counts
        if (m_pool_spent.count(op) || Reserved(op)) continue;
        trusted += c.value;
        if (c.value < 1) continue;
        if (locked.count(op)) continue;
        RefCoinOut o{op, c.value, c.spk, depth, true};
        coins_safe.push_back(o);
        coins_all.push_back(o);
    }
    // (2) outputs of mempool transactions
    for (auto& [id, tx] : pool) {
        bool any = false;
        for (auto& o : tx->vout) any |= scripts->count(o.scriptPubKey) > 0;
        if (!any) continue;
        bool tr = known->count(id) && Trusted(id);
        for (uint32_t i = 0; i < tx->vout.size(); i++) {
            const CTxOut& o = tx->vout[i];
            if (!scripts->count(o.scriptPubKey)) continue;
            COutPoint op(id, i);
            if (m_pool_spent.count(op) || Reserved(op)) continue;
            (tr ? trusted : untrusted_pending) += o.nValue;
            if (o.nValue < 1 || locked.count(op)) continue;
            RefCoinOut rc{op, o.nValue, o.scriptPubKey, 0, tr};
            if (tr) coins_safe.push_back(rc);
            coins_all.push_back(rc);
        }
    }
    std::sort(coins_safe.begin(), coins_safe.end());
    std::sort(coins_all.begin(), coins_all.end());
}

// ------------------------------------------------------------------------------------------- world
void World::Init(Opts o)
{
    const CBlock& g = Params().GenesisBlock();
    L.AddGenesis(g);
    // wallet keys are born at the genesis time so that no block is skipped as "older than the wallet"
    SetMockTime(g.nTime);
    wn = std::make_unique<WalletNode>(n, o);
    SetMockTime(g.nTime + 600 * 400);
}

uint256 World::Mine(const uint256& parent, const std::vector<CTransactionRef>& txs, const CScript& coinbase_spk, int extra_nonce)
{
    const CBlockIndex* pi = n.index_of(parent);
    if (!pi) throw std::logic_error("World::Mine: unknown parent");
    ck::BlockOpts bo;
    if (extra_nonce < 0) {
        extra_nonce = 0;
        for (auto& [h, rb] : L.blocks) { (void)h; if (rb.prev == parent) extra_nonce++; }
    }
    bo.extra_nonce = extra_nonce;
    bo.coinbase_spk = coinbase_spk;
    auto f = L.Fees(parent, txs);
    if (!f) throw std::logic_error("World::Mine: a transaction spends a coin that does not exist on this branch");
    bo.fees = *f;
    CBlock b = ck::MakeBlock(n, pi, txs, bo);
    L.Add(b);
    if (!L.UtxoAt(b.GetHash())) throw std::logic_error("World::Mine: the ledger rejects the block: " + L.last_error);
    ck::BlockResult r = n.ProcessBlock(b);
    Flush(n);
    if (!r.pnb_ret) throw std::runtime_error("World::Mine: ProcessNewBlock refused a block the ledger accepts: " + r.reason);
    return b.GetHash();
}

MempoolAcceptResult World::Submit(const CTransactionRef& tx, bool test_accept)
{
    MempoolAcceptResult r = n.SubmitTx(tx, test_accept);
    Flush(n);
    return r;
}

std::vector<World::Ext> World::ExternalCoins()
{
    std::vector<Ext> v;
    const CBlockIndex* tip = n.tip();
    auto u = L.UtxoAt(tip->GetBlockHash());
    if (!u) return v;
    std::set<COutPoint> pool_spent;
    for (const auto& info : n.pool().infoAll()) for (auto& in : info.tx->vin) pool_spent.insert(in.prevout);
    const CScript optrue = ck::OpTrueSpk();
    for (auto& [op, c] : *u) {
        if (c.spk != optrue) continue;
        if (c.coinbase && tip->nHeight + 1 - c.height < 100) continue;
        if (pool_spent.count(op)) continue;
        v.push_back({op, c.value, c.height});
    }
    std::sort(v.begin(), v.end(), [](const Ext& a, const Ext& b) { return a.height != b.height ? a.height < b.height : a.op < b.op; });
    return v;
}

CTransactionRef World::Pay(const Ext& from, const std::vector<std::pair<CScript, CAmount>>& outs, CAmount fee, uint32_t sequence)
{
    std::vector<ck::TxOut> vo;
    CAmount total = 0;
    for (auto& [spk, v] : outs) { vo.push_back({v, spk}); total += v; }
    CAmount rest = from.value - total - fee;
    if (rest < 0) throw std::logic_error("World::Pay: coin too small");
    if (rest >= 1000) vo.push_back({rest, ck::OpTrueSpk()});
    return MakeTransactionRef(ck::MakeTx({{from.op, sequence, true}}, vo));
}

const char* World::KindName(int k)
{
    static const char* names[] = {"p2wpkh", "p2pkh", "p2tr", "p2sh-p2wpkh", "immature-coinbase", "locked", "unconfirmed-from-self", "unconfirmed-external"};
    return k >= 0 && k < K_COUNT ? names[k] : "?";
}

World::Prepared World::PrepareCoins(unsigned mask)
{
    Prepared P;
    std::vector<unsigned char> raw(32, 0x21);
    P.ext_key.Set(raw.begin(), raw.end(), /*fCompressedIn=*/true);
    const CScript ext_spk = GetScriptForDestination(WitnessV0KeyHash(P.ext_key.GetPubKey()));
    auto has = [&](int k) { return (mask >> k) & 1; };
    struct Want { int kind; OutputType type; CAmount value; };
    const Want wants[] = {
        {K_P2WPKH, OutputType::BECH32, 100000000}, {K_P2PKH, OutputType::LEGACY, 50000000}, {K_P2TR, OutputType::BECH32M, 25000000},
        {K_P2SH_P2WPKH, OutputType::P2SH_SEGWIT, 12500000}, {K_LOCKED, OutputType::BECH32, 30000000}, {K_UNCONF_SELF, OutputType::BECH32, 20000000}};
    // block A: the confirmed payments, each from its own external coin, and the external P2WPKH coin
    std::vector<CTransactionRef> pay;
    auto ext = ExternalCoins();
    size_t next = 0;
    std::map<int, COutPoint> conf;
    for (auto& wt : wants) {
        if (!has(wt.kind)) continue;
        auto tx = Pay(ext.at(next++), {{wn->NewAddrSpk(wt.type), wt.value}});
        pay.push_back(tx);
        conf[wt.kind] = COutPoint(tx->GetHash(), 0);
    }
    {
        auto tx = Pay(ext.at(next++), {{ext_spk, 40000000}});
        pay.push_back(tx);
        P.ext_op = COutPoint(tx->GetHash(), 0);
        P.ext_out = tx->vout[0];
    }
    MineTip(pay);
    for (auto& [k, op] : conf) if (k != K_UNCONF_SELF) P.op[k] = op;
    // block B: coinbase to the wallet (immature for the next 100 blocks)
    if (has(K_IMMATURE_CB)) {
        uint256 bh = MineTip({}, wn->NewAddrSpk(OutputType::BECH32));
        P.op[K_IMMATURE_CB] = COutPoint(L.blocks.at(bh).block.vtx[0]->GetHash(), 0);
    }
    // mempool: a wallet transaction spending its confirmed coin (change back to the wallet) ...
    if (has(K_UNCONF_SELF)) {
        CMutableTransaction m;
        m.version = 2;
        m.vin.emplace_back(conf.at(K_UNCONF_SELF), CScript(), 0xfffffffd);
        m.vout.emplace_back(15000000, wn->NewChangeSpk(OutputType::BECH32));
        m.vout.emplace_back(20000000 - 15000000 - 3000, ck::OpTrueSpk());
        if (!wn->Sign(m)) throw std::logic_error("PrepareCoins: wallet cannot sign");
        auto tx = MakeTransactionRef(m);
        wn->Commit(tx);
        Note(tx);
        auto r = Submit(tx);
        if (r.m_result_type != MempoolAcceptResult::ResultType::VALID) throw std::logic_error("PrepareCoins: own spend rejected: " + r.m_state.ToString());
        P.op[K_UNCONF_SELF] = COutPoint(tx->GetHash(), 0);
    }
    // ... and an external payment to the wallet
    if (has(K_UNCONF_EXT)) {
        auto e2 = ExternalCoins();
        auto tx = Pay(e2.at(0), {{wn->NewAddrSpk(OutputType::BECH32), 11000000}});
        auto r = Submit(tx);
        if (r.m_result_type != MempoolAcceptResult::ResultType::VALID) throw std::logic_error("PrepareCoins: external payment rejected: " + r.m_state.ToString());
        P.op[K_UNCONF_EXT] = COutPoint(tx->GetHash(), 0);
    }
    if (has(K_LOCKED)) {
        LOCK(W().cs_wallet);
        W().LockCoin(P.op.at(K_LOCKED), /*persist=*/false);
    }
    View(); // notes every relevant transaction
    for (auto& [id, k] : known)
        for (uint32_t i = 0; i < k.tx->vout.size(); i++) P.prevouts[COutPoint(id, i)] = k.tx->vout[i];
    P.prevouts[P.ext_op] = P.ext_out;
    return P;
}

bool World::Relevant(const CTransaction& tx) const
{
    for (auto& o : tx.vout) if (wn->scripts.count(o.scriptPubKey)) return true;
    if (tx.IsCoinBase()) return false;
    for (auto& in : tx.vin) {
        auto k = known.find(in.prevout.hash);
        if (k == known.end()) continue;
        const CTransaction& p = *k->second.tx;
        if (in.prevout.n < p.vout.size() && wn->scripts.count(p.vout[in.prevout.n].scriptPubKey)) return true;
    }
    return false;
}

RefView World::View()
{
    RefView v;
    uint256 tip = n.tip()->GetBlockHash();
    v.utxo = L.UtxoAt(tip);
    if (!v.utxo) throw std::logic_error("World::View: the active chain is invalid by the ledger: " + L.last_error);
    v.chain = ChainScan::Of(L, tip);
    // everything relevant in the active chain has been announced to the wallet (it is attached since genesis)
    for (auto& bh : L.Chain(tip)) {
        if (!noted_blocks.insert(bh).second) continue;
        for (auto& tx : L.blocks.at(bh).block.vtx) Note(tx);
    }
    for (auto& tx : MempoolTxs(n)) { v.pool[tx->GetHash()] = tx; Note(tx); }
    v.scripts = &wn->scripts;
    v.known = &known;
    {
        LOCK(W().cs_wallet);
        std::vector<COutPoint> lk;
        W().ListLockedCoins(lk);
        v.locked.insert(lk.begin(), lk.end());
    }
    v.Compute();
    // "abandoned" is forgotten as soon as the transaction is active or conflicted again
    for (auto& [id, k] : known) {
        St s = v.status.at(id);
        if (s == St::CONF || s == St::MEMPOOL || s == St::CONFLICTED) k.abandoned = false;
    }
    return v;
}

static std::string CoinStr(const COutPoint& op, CAmount v, int depth, bool safe)
{
    return strprintf("%s:%u value=%d depth=%d safe=%d", op.hash.ToString().substr(0, 10), op.n, v, depth, (int)safe);
}

static std::string DiffCoins(const std::vector<wallet::COutput>& got_in, const std::vector<RefCoinOut>& want, const char* which)
{
    std::vector<wallet::COutput> got = got_in;
    std::sort(got.begin(), got.end(), [](const wallet::COutput& a, const wallet::COutput& b) { return a.outpoint < b.outpoint; });
    size_t i = 0, j = 0;
    while (i < got.size() || j < want.size()) {
        if (j == want.size() || (i < got.size() && got[i].outpoint < want[j].op))
            return strprintf("AvailableCoins(%s) returns %s which the reference does not consider spendable", which, CoinStr(got[i].outpoint, got[i].txout.nValue, got[i].depth, got[i].safe));
        if (i == got.size() || want[j].op < got[i].outpoint)
            return strprintf("AvailableCoins(%s) lacks %s which is spendable by the reference", which, CoinStr(want[j].op, want[j].value, want[j].depth, want[j].safe));
        if (got[i].txout.nValue != want[j].value || got[i].txout.scriptPubKey != want[j].spk || got[i].depth != want[j].depth || got[i].safe != want[j].safe)
            return strprintf("AvailableCoins(%s) coin differs: wallet %s, reference %s", which, CoinStr(got[i].outpoint, got[i].txout.nValue, got[i].depth, got[i].safe), CoinStr(want[j].op, want[j].value, want[j].depth, want[j].safe));
        i++; j++;
    }
    return "";
}

std::string World::Compare(RefView& v)
{
    wallet::Balance b = wallet::GetBalance(W());
    if (b.m_mine_trusted != v.trusted) return strprintf("trusted balance: wallet %d, reference %d", b.m_mine_trusted, v.trusted);
    if (b.m_mine_untrusted_pending != v.untrusted_pending) return strprintf("untrusted pending balance: wallet %d, reference %d", b.m_mine_untrusted_pending, v.untrusted_pending);
    if (b.m_mine_immature != v.immature) return strprintf("immature balance: wallet %d, reference %d", b.m_mine_immature, v.immature);
    LOCK(W().cs_wallet);
    {
        wallet::CCoinControl cc;
        std::string d = DiffCoins(wallet::AvailableCoins(W(), &cc).All(), v.coins_safe, "default");
        if (!d.empty()) return d;
    }
    {
        wallet::CCoinControl cc;
        cc.m_include_unsafe_inputs = true;
        std::string d = DiffCoins(wallet::AvailableCoins(W(), &cc).All(), v.coins_all, "include_unsafe");
        if (!d.empty()) return d;
    }
    return "";
}

} // namespace wn
