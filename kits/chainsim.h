// chainsim — explicit-state exploration of the real regtest node over block-delivery histories
// (fork-per-transition, vx/forksim.h) with the reference ledger as oracle. Shared by C01, C02, C05, C08, C09.
//
// Events (labels):   B:<p>:<kind>   build the deterministic block <kind> on parent selector p and deliver it
//                    H:<p>:<kind>   deliver only the header of that block
//                    F              ForceFlushStateToDisk
//                    I:<p>          InvalidateBlock(parent selector p)
//                    R              ReconsiderBlock(most recently invalidated)
//                    P:<p>          PreciousBlock
// parent selectors:  t0 = tip, t1 = tip's parent, t2 = grandparent, s = most recently built block that is not
//                    on the active chain (a side branch head), x = most recently built invalid block
// Every block is a pure function of (parent hash, kind), so different delivery orders meet in the same states.
#pragma once
#include <kits/chainkit.h>
#include <vx/forksim.h>
#include <consensus/amount.h>
#include <script/script.h>
#include <chainparams.h>

namespace cs {

using namespace ck;

struct Built {
    uint256 hash, prev;
    std::string kind;
    bool ref_valid{false};     // verdict of the reference ledger for the chain ending here
    std::string ref_why;
    bool delivered{false};     // full block handed to ProcessNewBlock
    bool header_only{false};
    bool rule_invalid{false};  // invalid for a context-free / non-ledger reason (kind says so)
};

struct Sim {
    Node& n;
    RefLedger L;
    std::vector<Built> built;                 // in build order
    std::map<uint256, size_t> by_hash;
    std::set<uint256> manually_invalid;
    std::vector<uint256> invalidated_stack;
    uint256 base_tip;
    int base_height{0};
    vx::ForkSim fs;
    std::vector<std::string> kinds;           // block kinds of the menu
    std::vector<std::string> parents{"t0", "t1"};
    bool ev_flush{true}, ev_invalidate{true}, ev_reconsider{true}, ev_precious{false}, ev_headers{false};
    bool ev_reconsider_any{false};            // R:x / R:s — ReconsiderBlock on an invalid-built block / side-branch head (clears its ancestors and descendants)
    std::vector<std::string> tx_kinds;        // T:<kind> — submit the transactions of block kind <kind> (built on the tip) to the mempool
    int max_new_blocks{6};
    bool cursor_check{true};
    std::string pid;                          // property id for messages
    bool leave_ibd{false};                    // true: after the base chain set the mock clock next to the tip so the node leaves IBD (default: stay in IBD)
    std::function<void(const std::string&)> extra_check{};  // additional per-state monitor (after each event)

    explicit Sim(Node& node) : n(node) {}

    // ------------------------------------------------------------------ base chain
    void Init(int base_blocks)
    {
        L.AddGenesis(Params().GenesisBlock());
        SetMockTime(Params().GenesisBlock().nTime + 600 * 100000);
        MineEmpty(n, L, leave_ibd ? base_blocks - 1 : base_blocks);
        if (leave_ibd) {
            // block times are parent + 600: put "now" one hour after the tip and connect one more block so that
            // the node's IBD latch flips (some notifications are deliberately not fired during IBD)
            SetMockTime(n.tip()->GetBlockTime() + 3600);
            MineEmpty(n, L, 1);
            if (n.chainman().IsInitialBlockDownload()) throw std::runtime_error("chainsim: node did not leave IBD");
        }
        base_tip = n.tip()->GetBlockHash();
        base_height = n.height();
    }

    // ------------------------------------------------------------------ coins available on top of a parent
    struct Avail { COutPoint op; RefCoin c; };
    std::vector<Avail> CoinsAt(const uint256& parent, bool mature_only = true)
    {
        std::vector<Avail> v;
        auto u = L.UtxoAt(parent);
        if (!u) return v;
        int h = L.Height(parent) + 1;
        for (auto& [op, c] : *u) {
            if (c.spk != OpTrueSpk()) continue;
            if (mature_only && c.coinbase && h - c.height < 100) continue;
            v.push_back({op, c});
        }
        std::sort(v.begin(), v.end(), [](const Avail& a, const Avail& b) {
            if (a.c.height != b.c.height) return a.c.height < b.c.height;
            return a.op < b.op;
        });
        return v;
    }

    // ------------------------------------------------------------------ block kinds
    // returns false if the kind is not constructible on this parent
    bool BuildKind(const std::string& kind, const uint256& parent, CBlock& out, bool& rule_invalid)
    {
        const CBlockIndex* pi = n.index_of(parent);
        if (!pi) return false;
        auto coins = CoinsAt(parent);
        auto immature = [&]() -> std::optional<Avail> {
            auto all = CoinsAt(parent, false);
            std::optional<Avail> best;
            int h = L.Height(parent) + 1;
            for (auto& a : all)
                if (a.c.coinbase && h - a.c.height < 100 && (!best || a.c.height < best->c.height)) best = a; // the oldest immature coinbase
            return best;
        };
        std::vector<CTransactionRef> txs;
        BlockOpts o;
        rule_invalid = false;
        const CAmount MAXM = MAX_MONEY;
        auto need = [&](size_t k) { return coins.size() >= k; };
        auto fee_of = [&]() { auto f = L.Fees(parent, txs); return f ? *f : 0; };
        if (kind == "empty") {
            o.extra_nonce = 1; // differs from the base chain's blocks
        } else if (kind == "spend1") {            // 1 coin -> 2 outputs, fee 1000, coinbase claims exactly
            if (!need(1)) return false;
            CAmount v = coins[0].c.value;
            txs.push_back(SpendTx({coins[0].op}, {v / 2, v - v / 2 - 1000}));
            o.fees = fee_of();
        } else if (kind == "spend2") {            // second coin, fee 0
            if (!need(2)) return false;
            txs.push_back(SpendTx({coins[1].op}, {coins[1].c.value}));
        } else if (kind == "chain2") {            // create and spend in the same block
            if (!need(1)) return false;
            CAmount v = coins[0].c.value;
            auto t1 = SpendTx({coins[0].op}, {v - 500, 0});
            auto t2 = SpendTx({COutPoint(t1->GetHash(), 0)}, {v - 1500});
            txs = {t1, t2};
            o.fees = fee_of();
        } else if (kind == "chain2rev") {         // same two txs, child first (invalid: missing input)
            if (!need(1)) return false;
            CAmount v = coins[0].c.value;
            auto t1 = SpendTx({coins[0].op}, {v - 500, 0});
            auto t2 = SpendTx({COutPoint(t1->GetHash(), 0)}, {v - 1500});
            txs = {t2, t1};
            o.fees = 2000;
        } else if (kind == "merge2") {            // two coins -> one output
            if (!need(2)) return false;
            txs.push_back(SpendTx({coins[0].op, coins[1].op}, {coins[0].c.value + coins[1].c.value - 700}));
            o.fees = fee_of();
        } else if (kind == "spendlast") {         // spend the youngest spendable (non-coinbase) coin: crosses blocks above the base
            if (!need(1)) return false;
            auto& a = coins.back();
            if (a.c.coinbase) return false;
            txs.push_back(SpendTx({a.op}, {a.c.value - 300}));
            o.fees = fee_of();
        } else if (kind == "opret") {             // creates an unspendable output next to a spendable one
            if (!need(1)) return false;
            CMutableTransaction m = MakeTx({{coins[0].op}}, {{coins[0].c.value - 100, OpTrueSpk()}, {0, CScript() << OP_RETURN << std::vector<unsigned char>{1, 2, 3}}});
            txs.push_back(MakeTransactionRef(m));
            o.fees = fee_of();
        } else if (kind == "opret_mid") {         // unspendable output BETWEEN two spendable ones (disconnect must still remove the later one)
            if (!need(1)) return false;
            CAmount v = coins[0].c.value;
            CMutableTransaction m = MakeTx({{coins[0].op}}, {{v / 2, OpTrueSpk()}, {0, CScript() << OP_RETURN << std::vector<unsigned char>{4, 5}}, {v - v / 2 - 200, OpTrueSpk()}});
            txs.push_back(MakeTransactionRef(m));
            o.fees = fee_of();
        } else if (kind == "cb_plus1") {          // coinbase claims subsidy + fees + 1
            if (!need(1)) return false;
            txs.push_back(SpendTx({coins[0].op}, {coins[0].c.value - 1000}));
            o.fees = fee_of() + 1;
        } else if (kind == "cb_plus1_empty") {
            o.fees = 1;
        } else if (kind == "cb_minus1") {         // claims less: valid
            if (!need(1)) return false;
            txs.push_back(SpendTx({coins[0].op}, {coins[0].c.value - 1000}));
            o.fees = fee_of() - 1;
        } else if (kind == "cb_two_outs_plus1") { // overpay hidden in a second coinbase output
            o.extra_coinbase_outputs.push_back({1, OpTrueSpk()});
        } else if (kind == "out_gt_in") {
            if (!need(1)) return false;
            txs.push_back(SpendTx({coins[0].op}, {coins[0].c.value + 1}));
        } else if (kind == "out_gt_in_split") {   // each output < input, sum = input + 1
            if (!need(1)) return false;
            CAmount v = coins[0].c.value;
            txs.push_back(SpendTx({coins[0].op}, {v / 2 + 1, v - v / 2}));
        } else if (kind == "out_eq_in") {
            if (!need(1)) return false;
            txs.push_back(SpendTx({coins[0].op}, {coins[0].c.value}));
        } else if (kind == "out_negative") {
            if (!need(1)) return false;
            txs.push_back(SpendTx({coins[0].op}, {-1, coins[0].c.value}));
            rule_invalid = true;
        } else if (kind == "out_maxplus1") {
            if (!need(1)) return false;
            txs.push_back(SpendTx({coins[0].op}, {MAXM + 1}));
            rule_invalid = true;
        } else if (kind == "outs_sum_overflow") { // each in range, total > MAX_MONEY
            if (!need(1)) return false;
            txs.push_back(SpendTx({coins[0].op}, {MAXM, 1}));
            rule_invalid = true;
        } else if (kind == "fee_from_later_invalid") { // coinbase claims a fee of a tx whose input does not exist
            CMutableTransaction m = MakeTx({{COutPoint(Txid::FromUint256(uint256{7}), 0)}}, {{1000, OpTrueSpk()}});
            txs.push_back(MakeTransactionRef(m));
            o.fees = 5000;
        } else if (kind == "dup_input") {         // the same outpoint twice in one tx
            if (!need(1)) return false;
            txs.push_back(SpendTx({coins[0].op, coins[0].op}, {coins[0].c.value * 2 - 1000}));
            rule_invalid = true;
            o.fees = 1000;
        } else if (kind == "dup_input3") {        // duplicate at positions (0,2) of three inputs
            if (!need(2)) return false;
            txs.push_back(SpendTx({coins[0].op, coins[1].op, coins[0].op}, {coins[0].c.value}));
            rule_invalid = true;
        } else if (kind == "dup_same_tx3") {      // (F:0, F:1, F:0): the duplicate is separated by a sibling output of the same earlier tx
            const Avail *a = nullptr, *b = nullptr;
            for (size_t i = 0; i < coins.size() && !a; i++)
                for (size_t j = 0; j < coins.size(); j++)
                    if (i != j && coins[i].op.hash == coins[j].op.hash && coins[i].op.n < coins[j].op.n) { a = &coins[i]; b = &coins[j]; break; }
            if (!a) return false;
            txs.push_back(SpendTx({a->op, b->op, a->op}, {a->c.value * 2 + b->c.value - 1000}));
            rule_invalid = true;
            o.fees = 1000;
        } else if (kind == "two_spenders") {      // two txs of one block spend the same outpoint
            if (!need(1)) return false;
            CAmount v = coins[0].c.value;
            txs.push_back(SpendTx({coins[0].op}, {v - 1000}));
            txs.push_back(SpendTx({coins[0].op}, {v - 2000}));
            o.fees = 3000;
        } else if (kind == "respend_parent") {    // spends again what the parent block's first tx spent
            const CBlock& pb = L.blocks.at(parent).block;
            if (pb.vtx.size() < 2) return false;
            COutPoint op = pb.vtx[1]->vin[0].prevout;
            txs.push_back(SpendTx({op}, {1000}));
        } else if (kind == "respend_grandparent") {
            const uint256& gp = L.blocks.at(parent).prev;
            if (gp.IsNull()) return false;
            const CBlock& pb = L.blocks.at(gp).block;
            if (pb.vtx.size() < 2) return false;
            COutPoint op = pb.vtx[1]->vin[0].prevout;
            txs.push_back(SpendTx({op}, {1000}));
        } else if (kind == "spend_missing") {     // an outpoint that never existed
            txs.push_back(SpendTx({COutPoint(Txid::FromUint256(uint256{9}), 1)}, {1000}));
        } else if (kind == "spend_bad_index") {   // existing txid, output index one past the end
            if (!need(1)) return false;
            txs.push_back(SpendTx({COutPoint(coins[0].op.hash, coins[0].op.n + 1)}, {1000}));
        } else if (kind == "spend_opret") {       // spends the OP_RETURN output made by kind "opret" in the parent
            const CBlock& pb = L.blocks.at(parent).block;
            if (pb.vtx.size() < 2 || pb.vtx[1]->vout.size() < 2 || pb.vtx[1]->vout[1].scriptPubKey.empty() || pb.vtx[1]->vout[1].scriptPubKey[0] != OP_RETURN) return false;
            CMutableTransaction m = MakeTx({{COutPoint(pb.vtx[1]->GetHash(), 1), 0xffffffff, false}}, {{0, OpTrueSpk()}});
            txs.push_back(MakeTransactionRef(m));
        } else if (kind == "spend_immature") {    // coinbase at depth 99
            auto im = immature();
            if (!im) return false;
            txs.push_back(SpendTx({im->op}, {im->c.value - 1000}));
            o.fees = 1000;
        } else {
            throw std::logic_error("chainsim: unknown kind " + kind);
        }
        out = MakeBlock(n, pi, txs, o);
        return true;
    }

    // ------------------------------------------------------------------ parent selectors
    std::optional<uint256> Select(const std::string& sel)
    {
        const CBlockIndex* t = n.tip();
        if (sel == "t0") return t->GetBlockHash();
        if (sel == "t1") return t->pprev && t->nHeight > base_height - 3 ? std::optional<uint256>(t->pprev->GetBlockHash()) : std::nullopt;
        if (sel == "t2") return t->pprev && t->pprev->pprev && t->nHeight > base_height - 2 ? std::optional<uint256>(t->pprev->pprev->GetBlockHash()) : std::nullopt;
        if (sel == "s") {
            LOCK(cs_main);
            for (size_t i = built.size(); i-- > 0;) {
                if (!built[i].ref_valid || built[i].rule_invalid) continue;
                const CBlockIndex* pi = n.chainman().m_blockman.LookupBlockIndex(built[i].hash);
                if (pi && !n.chainman().ActiveChain().Contains(*pi)) return built[i].hash;
            }
            return std::nullopt;
        }
        if (sel == "x") {
            for (size_t i = built.size(); i-- > 0;)
                if ((!built[i].ref_valid || built[i].rule_invalid) && n.index_of(built[i].hash)) return built[i].hash;
            return std::nullopt;
        }
        throw std::logic_error("chainsim: unknown selector " + sel);
    }

    // ------------------------------------------------------------------ events
    std::vector<std::string> Events()
    {
        std::vector<std::string> ev;
        if ((int)built.size() < max_new_blocks) {
            for (auto& p : parents) {
                if (!Select(p)) continue;
                for (auto& k : kinds) ev.push_back("B:" + p + ":" + k);
                if (ev_headers) for (auto& k : kinds) ev.push_back("H:" + p + ":" + k);
            }
        }
        if (ev_flush) ev.push_back("F");
        if (ev_invalidate) {
            if (n.height() > base_height - 2) ev.push_back("I:t0");
            if (n.height() > base_height - 1) ev.push_back("I:t1");
        }
        if (ev_reconsider && !invalidated_stack.empty()) ev.push_back("R");
        if (ev_reconsider_any && !manually_invalid.empty()) { if (Select("x")) ev.push_back("R:x"); if (Select("s")) ev.push_back("R:s"); }
        for (auto& k : tx_kinds) ev.push_back("T:" + k);
        if (ev_precious && Select("s")) ev.push_back("P:s");
        return ev;
    }

    bool ChainRefValid(const uint256& h)
    {
        // valid by the ledger, no rule-invalid block and no manually invalidated block on the path
        uint256 c = h;
        while (!c.IsNull() && c != base_tip) {
            auto it = by_hash.find(c);
            if (it != by_hash.end()) {
                const Built& b = built[it->second];
                if (!b.ref_valid || b.rule_invalid) return false;
            }
            if (manually_invalid.count(c)) return false;
            if (L.Height(c) <= base_height) break;
            c = L.blocks.at(c).prev;
        }
        // manual invalidation marks (set by InvalidateBlock on the block and its then-known descendants) anywhere on the path
        for (uint256 w = h; !w.IsNull(); w = L.blocks.at(w).prev) if (manually_invalid.count(w)) return false;
        return L.UtxoAt(h) != nullptr;
    }
    bool AllDelivered(const uint256& h)
    {
        uint256 c = h;
        while (!c.IsNull()) {
            auto it = by_hash.find(c);
            if (it == by_hash.end()) return true; // base chain
            if (!built[it->second].delivered) return false;
            c = built[it->second].prev;
        }
        return true;
    }

    void Apply(const std::string& e)
    {
        uint256 tip_before = n.tip()->GetBlockHash();
        if (e[0] == 'B' || e[0] == 'H') {
            size_t c2 = e.find(':', 2);
            std::string sel = e.substr(2, c2 - 2), kind = e.substr(c2 + 1);
            auto parent = Select(sel);
            if (!parent) return;
            CBlock b;
            bool rule_invalid = false;
            if (!BuildKind(kind, *parent, b, rule_invalid)) return; // not constructible here: a no-op event
            uint256 h = b.GetHash();
            if (L.Known(h) && !by_hash.count(h)) {
                // identical to a block of the base chain: a duplicate delivery of an already connected block
                if (e[0] == 'B') n.ProcessBlock(b, true);
                CheckInvariants(e, tip_before);
                return;
            }
            if (!by_hash.count(h)) {
                L.Add(b);
                Built bt;
                bt.hash = h; bt.prev = *parent; bt.kind = kind; bt.rule_invalid = rule_invalid;
                bt.ref_valid = L.UtxoAt(h) != nullptr;
                bt.ref_why = bt.ref_valid ? "" : L.last_error;
                by_hash[h] = built.size();
                built.push_back(bt);
            }
            Built& bt = built[by_hash[h]];
            bool parent_chain_ok = ChainRefValid(*parent);
            bool expect_valid = parent_chain_ok && bt.ref_valid && !bt.rule_invalid;
            if (e[0] == 'H') {
                BlockValidationState st;
                n.ProcessHeader(b, st);
                bt.header_only = !bt.delivered;
            } else {
                BlockResult r = n.ProcessBlock(b, /*force=*/true);
                // a block delivered while its parent chain is invalid may legitimately be dropped by the node;
                // it only counts as delivered (candidate for the most-work oracle) when its parent chain was fine
                if (parent_chain_ok) { bt.delivered = true; bt.header_only = false; }
                // verdict oracle: a block whose chain the reference rejects must never become (part of) the active chain;
                // a block the reference accepts on a valid parent must be accepted (checked via the tip oracle below).
                if (!expect_valid) {
                    LOCK(cs_main);
                    const CBlockIndex* pi = n.chainman().m_blockman.LookupBlockIndex(h);
                    if (pi && n.chainman().ActiveChain().Contains(*pi))
                        fs.report(pid + "-invalid-block-active:" + kind, "block of kind '" + kind + "' is invalid by the reference (" + (bt.rule_invalid ? std::string("context-free rule") : bt.ref_why) + ") but is in the active chain");
                    if (r.checked && r.valid && parent_chain_ok && n.index_of(*parent) && tip_before == *parent)
                        fs.report(pid + "-invalid-block-checked-valid:" + kind, "BlockChecked reported valid for invalid block kind '" + kind + "'");
                }
            }
        } else if (e == "F") {
            n.Flush();
        } else if (e[0] == 'I') {
            auto h = Select(e.substr(2));
            if (!h) return;
            if (n.Invalidate(*h)) {
                // InvalidateBlock marks the block and every descendant the node has an index entry for (full or
                // header-only); each of them keeps its mark until a ReconsiderBlock reaches it individually
                manually_invalid.insert(*h);
                invalidated_stack.push_back(*h);
                for (auto& [bh, rb] : L.blocks) {
                    if (bh == *h || !n.index_of(bh)) continue;
                    for (uint256 w = rb.prev; !w.IsNull(); w = L.blocks.at(w).prev) if (w == *h) { manually_invalid.insert(bh); break; }
                }
            }
        } else if (e[0] == 'R') {
            uint256 h;
            if (e == "R") {
                if (invalidated_stack.empty()) return;
                h = invalidated_stack.back();
            } else {
                auto sel = Select(e.substr(2));
                if (!sel) return;
                h = *sel;
            }
            n.Reconsider(h);
            // ResetBlockFailureFlags clears the marks of exactly: the block, its ancestors and its descendants
            // (a sibling branch that was marked through a common invalidated ancestor keeps its mark)
            std::vector<uint256> cleared;
            for (auto& mi : manually_invalid) {
                bool related = false;
                for (uint256 w = mi; !w.IsNull(); w = L.blocks.at(w).prev) if (w == h) related = true;   // mi descends from (or is) h
                for (uint256 w = h; !w.IsNull(); w = L.blocks.at(w).prev) if (w == mi) related = true;   // mi is an ancestor of h
                if (related) cleared.push_back(mi);
            }
            for (auto& c : cleared) manually_invalid.erase(c);
            invalidated_stack.erase(std::remove_if(invalidated_stack.begin(), invalidated_stack.end(), [&](const uint256& x) { return !manually_invalid.count(x); }), invalidated_stack.end());
        } else if (e[0] == 'T') {
            // submit the transactions of block kind <kind> (as built on the current tip) to the mempool
            CBlock b;
            bool rule_invalid = false;
            if (!BuildKind(e.substr(2), tip_before, b, rule_invalid)) return;
            for (size_t i = 1; i < b.vtx.size(); i++) (void)n.SubmitTx(b.vtx[i]);
        } else if (e[0] == 'P') {
            auto h = Select(e.substr(2));
            if (h) n.Precious(*h);
        }
        CheckInvariants(e, tip_before);
    }

    // ------------------------------------------------------------------ invariants (every state)
    void CheckInvariants(const std::string& e, const uint256& tip_before)
    {
        uint256 tip = n.tip()->GetBlockHash();
        if (!L.Known(tip)) { fs.report(pid + "-tip-unknown", "active tip is a block the harness never built"); return; }
        // (1) active chain is valid by the reference and fully delivered
        if (!ChainRefValid(tip)) fs.report(pid + "-active-chain-invalid:" + e.substr(0, 1), "after '" + e + "' the active tip " + tip.ToString().substr(0, 12) + " has an invalid or manually invalidated block in its chain (" + L.last_error + ")");
        if (!AllDelivered(tip)) fs.report(pid + "-active-chain-undelivered", "active chain contains a block whose body was never delivered");
        // (2) most work: no delivered, reference-valid, not-invalidated chain is longer (regtest: equal work per block)
        int best = L.Height(base_tip) - 3, tiph = L.Height(tip);
        std::vector<uint256> cands;
        for (uint256 w = base_tip; !w.IsNull() && L.Height(w) >= base_height - 3; w = L.blocks.at(w).prev) cands.push_back(w);
        for (auto& b : built) if (b.delivered) cands.push_back(b.hash);
        uint256 best_h;
        for (auto& c : cands) {
            if (!AllDelivered(c) || !ChainRefValid(c)) continue;
            if (L.Height(c) > best) { best = L.Height(c); best_h = c; }
        }
        if (tiph < best) fs.report(pid + "-not-most-work:" + e.substr(0, 1), "after '" + e + "' tip height " + std::to_string(tiph) + " but a valid fully delivered chain of height " + std::to_string(best) + " exists (" + best_h.ToString().substr(0, 12) + ")");
        // (3) UTXO set == replay of the active chain from genesis (history independence)
        auto ref = L.UtxoAt(tip);
        if (ref) {
            std::string d = CompareUtxo(n, L, *ref);
            if (!d.empty()) fs.report(pid + "-utxo-mismatch:" + e.substr(0, 1), "after '" + e + "': " + d);
            // (4) no coins beyond the subsidy schedule
            __int128 total = 0, cap = 0;
            for (auto& [op, c] : *ref) { (void)op; total += c.value; }
            for (int h = 1; h <= tiph; h++) cap += RefLedger::Subsidy(h, Params().GetConsensus().nSubsidyHalvingInterval);
            if (total > cap) fs.report(pid + "-supply-exceeds-schedule", "sum of UTXO values exceeds the subsidy schedule");
        }
        (void)tip_before;
        if (extra_check) extra_check(e);
    }

    // DB-level check: flush, then walk the coins DB with a cursor. Runs in the holder of a state after its
    // subtree has been explored (vx::ForkSim::post), so the flush cannot leak into explored behaviour.
    void PostCheck()
    {
        if (!cursor_check) return;
        uint256 tip = n.tip()->GetBlockHash();
        if (!L.Known(tip)) return;
        auto ref = L.UtxoAt(tip);
        if (!ref) return;
        std::string d2 = CompareUtxoCursor(n, *ref);
        if (!d2.empty()) { fs.report(pid + "-utxo-db-mismatch", "cursor walk after flush: " + d2); return; }
        __int128 t2 = 0, cap = 0;
        for (auto& [op, c] : n.UtxoByCursor()) { (void)op; t2 += c.out.nValue; }
        for (int h = 1; h <= L.Height(tip); h++) cap += RefLedger::Subsidy(h, Params().GetConsensus().nSubsidyHalvingInterval);
        if (t2 > cap) fs.report(pid + "-supply-exceeds-schedule-db", "sum of DB UTXO values exceeds the subsidy schedule");
    }

    uint64_t Key()
    {
        std::string k = n.tip()->GetBlockHash().ToString();
        std::vector<std::string> parts;
        for (auto& b : built) parts.push_back(b.hash.ToString().substr(0, 16) + (b.delivered ? "D" : "h"));
        std::sort(parts.begin(), parts.end());
        for (auto& p : parts) k += p;
        for (auto& mi : manually_invalid) k += "I" + mi.ToString().substr(0, 16);
        for (auto& s : invalidated_stack) k += "S" + s.ToString().substr(0, 8);
        if (!tx_kinds.empty()) {
            std::vector<std::string> mp;
            for (auto& info : n.pool().infoAll()) mp.push_back(info.tx->GetHash().ToString().substr(0, 16));
            std::sort(mp.begin(), mp.end());
            for (auto& m : mp) k += "M" + m;
        }
        {
            LOCK(cs_main);
            k += "c" + std::to_string(n.cs().CoinsTip().GetCacheSize()) + "d" + std::to_string(n.cs().CoinsTip().GetDirtyCount());
            // node-visible status of each built block (validity the node believes)
            for (auto& b : built) {
                const CBlockIndex* pi = n.chainman().m_blockman.LookupBlockIndex(b.hash);
                k += pi ? std::to_string(pi->nStatus & (BLOCK_FAILED_VALID | BLOCK_HAVE_DATA)) + "," : "-,";
            }
        }
        return vx::fnv1a(k);
    }

    void Run(const std::string& property_id, int depth, int split)
    {
        pid = property_id;
        if (ThreadCount() != 1) throw std::runtime_error("chainsim: process is not single-threaded, fork exploration is unsound");
        fs.max_depth = depth;
        fs.split_depth = split;
        fs.events = [&] { return Events(); };
        fs.apply = [&](const std::string& e) { Apply(e); };
        fs.key = [&] { return Key(); };
        fs.post = [&] { PostCheck(); };
        fs.on_worker_start = [&](unsigned w) {
            fs::path d = n.BlocksDir().parent_path() / ("w" + std::to_string(w));
            n.RepointBlocksDir(d);
        };
        fs.run();
    }
};

} // namespace cs
