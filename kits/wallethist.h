// wallethist.h — breadth-first exploration of wallet operation histories with crash enumeration of the last operation
// (the scheme of checks/C62, factored out for C43).
//
//  * a history (vector of op numbers) is executed by cfg.record in a fresh child of a wc::ForkServer (canonical
//    process image), which writes the op log and an info file whose first line is the canonical key of the wallet
//    state reached ("SKIP" in the first line: the last operation is not enabled in that state, history dropped);
//  * the root loads the log, runs the recorder self-check, and builds reload jobs: the complete log (clean close) and,
//    if cfg.want_crash(run), every distinct crash state with crash point in the last operation;
//  * cfg.judge(run, job, out) runs in a pool worker: it materialises the state and reloads it in a child of its own;
//  * histories whose keys were seen before are not extended.
#pragma once
#include <kits/forkpool.h>
#include <kits/walletcrash.h>

namespace wh {
namespace sfs = std::filesystem;
using History = std::vector<int>;

struct Run {
    History h;
    std::string dir, logfile, infofile;
    vxc::Log log;
    std::string key;                 // first line of the info file
    std::string info;                // rest of the info file
    size_t last_op_mark{0};          // op-log index of the last "OP" mark
    int depth{0};
};
struct Job {
    size_t run;
    vxc::State st;
    uint64_t content{0};
    bool clean{false};
};

struct Config {
    std::string id;
    int n_ops{0};
    int max_depth{2};
    std::function<std::string(int)> op_name;
    std::function<bool(const Run&)> want_crash = [](const Run&) { return false; };
    std::function<bool(const Run&)> want_torn = [](const Run&) { return false; };
    std::function<void(Run&)> on_recorded = [](Run&) {};                       // root, after the log was loaded and self-checked
    std::function<void(const Run&, const Job&, fp::Out&)> judge;               // pool worker
    std::function<bool(const History&)> allow = [](const History&) { return true; };
    History only;                                                               // replay: just this history
    std::vector<History> extra;                                                 // additional histories beyond max_depth, run last, not extended
    size_t batch{48};
};

struct Stats {
    uint64_t histories{0}, skipped{0}, crash_histories{0}, states_enumerated{0}, selfchecked{0}, ops_logged{0};
    size_t distinct_states{0};
    int completed_depth{0};
    bool cut_short{false};
    bool error{false};
};

inline std::string HistStr(const Config& c, const History& h)
{
    std::string s;
    for (size_t i = 0; i < h.size(); i++) { if (i) s += ' '; s += c.op_name(h[i]); }
    return s;
}
inline History ParseHist(const Config& c, const std::string& text)
{
    History h;
    std::istringstream is(text);
    std::string t;
    while (is >> t) for (int i = 0; i < c.n_ops; i++) if (c.op_name(i) == t) h.push_back(i);
    return h;
}
// request text for the recorder server
inline std::string Request(const Config& c, const Run& r) { return HistStr(c, r.h) + "|" + r.dir + "|" + r.logfile + "|" + r.infofile; }
inline std::vector<std::string> SplitRequest(const char* text)
{
    std::vector<std::string> f;
    std::string s(text);
    for (size_t p = 0;;) { size_t t = s.find('|', p); f.push_back(s.substr(p, t == std::string::npos ? std::string::npos : t - p)); if (t == std::string::npos) break; p = t + 1; }
    return f;
}

inline Stats Explore(const Config& cfg, wc::ForkServer& recorder, fp::Pool& pool, const vxc::Tree& initial, const std::string& scratch)
{
    Stats S;
    std::set<std::string> seen;
    std::vector<History> frontier{History{}};
    const bool trace = getenv("VX_TRACE") != nullptr;
    for (int depth = 1; depth <= cfg.max_depth + 1 && !S.cut_short; depth++) {
        std::vector<History> todo;
        if (!cfg.only.empty()) { if (depth > 1) break; todo.push_back(cfg.only); }
        else if (depth == cfg.max_depth + 1) { for (auto& h : cfg.extra) if (h.size() > (size_t)cfg.max_depth) todo.push_back(h); if (todo.empty()) break; }
        else for (auto& h : frontier) for (int op = 0; op < cfg.n_ops; op++) { History n = h; n.push_back(op); if (cfg.allow(n)) todo.push_back(n); }
        std::vector<History> next_frontier;
        for (size_t b0 = 0; b0 < todo.size() && !S.cut_short; b0 += cfg.batch) {
            size_t nb = std::min(cfg.batch, todo.size() - b0);
            std::vector<Run> runs(nb);
            std::vector<std::string> reqs;
            for (size_t i = 0; i < nb; i++) {
                runs[i].h = todo[b0 + i];
                runs[i].depth = depth;
                char nm[64];
                snprintf(nm, sizeof nm, "/h%d_%05zu", depth, b0 + i);
                std::string d = scratch + nm;
                runs[i].dir = d + "/w";
                runs[i].logfile = d + "/oplog.bin";
                runs[i].infofile = d + "/info";
                sfs::create_directories(d);
                reqs.push_back(Request(cfg, runs[i]));
            }
            std::vector<int> st = recorder.run(reqs);
            for (size_t i = 0; i < nb; i++) {
                if (st[i] == -2) { S.cut_short = true; break; }
                if (st[i] != 0) { printf("HARNESS-ERROR property=%s recording history {%s} failed (status %d)\n", cfg.id.c_str(), HistStr(cfg, runs[i].h).c_str(), st[i]); S.error = true; return S; }
            }
            if (S.cut_short) break;
            if (trace) printf("[trace] depth %d batch %zu: recorded at %.1fs\n", depth, b0, vx::elapsed());
            std::vector<std::vector<Job>> per_run(nb);
            std::vector<bool> skipped(nb, false);
            for (size_t i = 0; i < nb; i++) {
                Run& r = runs[i];
                std::string info = wc::ReadFile(r.infofile);
                size_t nl = info.find('\n');
                r.key = info.substr(0, nl);
                r.info = nl == std::string::npos ? "" : info.substr(nl + 1);
                if (r.key == "SKIP") { skipped[i] = true; S.skipped++; continue; }
                if (!r.log.load(r.logfile, r.dir)) { printf("HARNESS-ERROR property=%s cannot load op log of history {%s}\n", cfg.id.c_str(), HistStr(cfg, r.h).c_str()); S.error = true; return S; }
                std::string sc = wc::SelfCheck(r.log, initial, r.dir);
                if (!sc.empty()) { printf("HARNESS-ERROR property=%s recorder incomplete for history {%s}: %s\n", cfg.id.c_str(), HistStr(cfg, r.h).c_str(), sc.c_str()); S.error = true; return S; }
                S.selfchecked++;
                S.ops_logged += r.log.ops.size();
                for (size_t k = 0; k < r.log.ops.size(); k++) if (r.log.ops[k].kind == vxc::MARK && r.log.ops[k].path.rfind("OP ", 0) == 0) r.last_op_mark = k;
                cfg.on_recorded(r);
                S.histories++;
                vxc::State all;
                all.j = r.log.ops.size(); all.k = r.log.ops.size(); all.mode = "clean";
                per_run[i].push_back({i, all, 0, true});
                if (!cfg.only.empty() || cfg.want_crash(r)) {
                    S.crash_histories++;
                    size_t from = wc::StableFrom(r.log, r.last_op_mark);
                    size_t en = 0;
                    std::vector<wc::PickedState> pl, kl;
                    for (auto& ps : wc::DistinctStates(r.log, from, initial, true, true, !cfg.only.empty() || cfg.want_torn(r), &en)) (ps.st.mode == "kill" ? kl : pl).push_back(ps);
                    // order: power-loss states losing the most work first, interleaved with kill states from the latest crash point backwards
                    std::stable_sort(pl.begin(), pl.end(), [](const wc::PickedState& a, const wc::PickedState& b) { return a.st.k - a.st.j > b.st.k - b.st.j; });
                    std::stable_sort(kl.begin(), kl.end(), [](const wc::PickedState& a, const wc::PickedState& b) { return a.st.k > b.st.k; });
                    for (size_t x = 0; x < std::max(pl.size(), kl.size()); x++) {
                        if (x < pl.size()) per_run[i].push_back({i, pl[x].st, pl[x].content, false});
                        if (x < kl.size()) per_run[i].push_back({i, kl[x].st, kl[x].content, false});
                    }
                    S.states_enumerated += en;
                }
            }
            // round-robin over the histories, so that a run cut short by the deadline has looked at every operation
            std::vector<Job> jobs;
            for (size_t pos = 0;; pos++) {
                bool any = false;
                for (size_t i = 0; i < nb; i++) if (pos < per_run[i].size()) { jobs.push_back(per_run[i][pos]); any = true; }
                if (!any) break;
            }
            if (trace) printf("[trace] depth %d batch %zu: %zu reload jobs at %.1fs\n", depth, b0, jobs.size(), vx::elapsed());
            pool.workers = 0;
            pool.run(jobs.size(), [&](uint64_t j, fp::Out& o) { cfg.judge(runs[jobs[j].run], jobs[j], o); },
                     [&](uint64_t j) { return "history: " + HistStr(cfg, runs[jobs[j].run].h) + "\nstate: " + jobs[j].st.describe(); });
            if (!pool.complete) S.cut_short = true;
            if (trace) printf("[trace] depth %d batch %zu: reloaded at %.1fs\n", depth, b0, vx::elapsed());
            for (size_t i = 0; i < nb; i++) {
                std::error_code ec;
                sfs::remove_all(sfs::path(runs[i].dir).parent_path(), ec);
                if (!S.cut_short && !skipped[i] && seen.insert(runs[i].key).second) next_frontier.push_back(runs[i].h);
            }
        }
        if (!S.cut_short && depth <= cfg.max_depth) S.completed_depth = depth;
        frontier = std::move(next_frontier);
    }
    S.distinct_states = seen.size();
    return S;
}

} // namespace wh
