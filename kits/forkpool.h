// forkpool.h — run N independent jobs in W fork()ed copies of the current (single-threaded) process image.
//
// Used by checks whose cases each need a pristine copy of a live object (a regtest node, a BlockManager on a
// directory) or must survive an abort inside the code under test. The parent stays untouched; every worker
// takes job numbers from a MAP_SHARED counter (dynamic load balancing) and streams its findings through a pipe:
// violations, named counters, named distinct-key sets and samples. All aggregates are sums / set unions, so
// the result does not depend on which worker ran which job.
//
//   fp::Pool pool;
//   pool.run(njobs, [&](uint64_t job, fp::Out& o) { ... o.count("evals"); o.distinct("layout", h); o.violation(k, what, replay); },
//            [&](uint64_t job) { return "description of job for crash reports"; });
//   pool.counts["evals"], pool.distinct_size("layout"), pool.complete
//
// A worker that dies (signal / abnormal exit) is reported as a violation naming the job it was running.
// Deadline: workers stop taking jobs once vx::deadline_reached(); pool.complete is then false.
#pragma once
#include <vx/vx.h>

#include <map>
#include <poll.h>
#include <sys/mman.h>
#include <sys/wait.h>
#include <unordered_set>

namespace fp {

inline std::string esc(const std::string& s)
{
    std::string o;
    for (char c : s) {
        if (c == '\n') o += "\\n";
        else if (c == '\t') o += "\\t";
        else if (c == '\\') o += "\\\\";
        else if (c == '\r') o += ' ';
        else o += c;
    }
    return o;
}
inline std::string unesc(const std::string& s)
{
    std::string o;
    for (size_t i = 0; i < s.size(); i++) {
        if (s[i] == '\\' && i + 1 < s.size()) {
            char n = s[++i];
            o += n == 'n' ? '\n' : n == 't' ? '\t' : n;
        } else o += s[i];
    }
    return o;
}

struct Out {
    int fd{-1};
    std::string buf;
    std::map<std::string, uint64_t> counts;
    void flush()
    {
        size_t off = 0;
        while (off < buf.size()) {
            ssize_t w = ::write(fd, buf.data() + off, buf.size() - off);
            if (w < 0) { if (errno == EINTR) continue; break; }
            off += (size_t)w;
        }
        buf.clear();
    }
    void line(const std::string& s)
    {
        buf += s;
        buf += '\n';
        if (buf.size() > (1 << 15)) flush();
    }
    void violation(const std::string& key, const std::string& what, const std::string& replay) { line("V\t" + esc(key) + "\t" + esc(what) + "\t" + esc(replay)); flush(); }
    void count(const std::string& name, uint64_t n = 1) { counts[name] += n; }
    void distinct(const std::string& set, uint64_t h)
    {
        char b[32];
        snprintf(b, sizeof b, "%016llx", (unsigned long long)h);
        line("D\t" + set + "\t" + b);
    }
    void distinct(const std::string& set, const std::string& key) { distinct(set, vx::fnv1a(key)); }
    void sample(const std::string& s) { line("S\t" + esc(s)); }
    void send_counts()
    {
        for (auto& [k, v] : counts) line("C\t" + k + "\t" + std::to_string(v));
        counts.clear();
    }
};

struct PoolShared {
    std::atomic<uint64_t> next;
    std::atomic<uint64_t> done;
    std::atomic<int> deadline_hit;
};

struct Pool {
    unsigned workers{0};                       // 0: min(ncpu, 16)
    bool isolate_jobs{false};                  // true: every job runs in its own fork of the worker (job may wreck the image)
    std::map<std::string, uint64_t> counts;
    std::map<std::string, std::unordered_set<uint64_t>> distinct;
    std::vector<std::string> samples;
    uint64_t jobs_done{0};
    bool complete{true};
    int crashes{0};
    std::function<void(unsigned)> on_worker_start = [](unsigned) {};
    std::function<void(unsigned)> on_worker_end = [](unsigned) {};

    size_t distinct_size(const std::string& set) { return distinct[set].size(); }

    void handle_line(const std::string& l)
    {
        if (l.size() < 2) return;
        std::vector<std::string> f;
        size_t p = 0;
        for (;;) {
            size_t t = l.find('\t', p);
            f.push_back(l.substr(p, t == std::string::npos ? std::string::npos : t - p));
            if (t == std::string::npos) break;
            p = t + 1;
        }
        if (f[0] == "V" && f.size() >= 4) vx::violation(unesc(f[1]), unesc(f[2]), unesc(f[3]));
        else if (f[0] == "C" && f.size() >= 3) counts[f[1]] += strtoull(f[2].c_str(), nullptr, 10);
        else if (f[0] == "D" && f.size() >= 3) distinct[f[1]].insert(strtoull(f[2].c_str(), nullptr, 16));
        else if (f[0] == "S" && f.size() >= 2) { if (samples.size() < 64) samples.push_back(unesc(f[1])); }
    }

    void run(uint64_t njobs, const std::function<void(uint64_t, Out&)>& fn, const std::function<std::string(uint64_t)>& describe)
    {
        if (workers == 0) workers = std::min<unsigned>(vx::ncpu(), 16);
        if (njobs < workers) workers = (unsigned)std::max<uint64_t>(njobs, 1);
        auto* sh = (PoolShared*)mmap(nullptr, sizeof(PoolShared), PROT_READ | PROT_WRITE, MAP_SHARED | MAP_ANONYMOUS, -1, 0);
        if (sh == MAP_FAILED) throw std::runtime_error("forkpool: mmap failed");
        new (sh) PoolShared();
        struct W { pid_t pid; int fd; std::string acc; uint64_t cur_job; bool has_job; bool open; };
        std::vector<W> ws;
        fflush(stdout);
        for (unsigned w = 0; w < workers; w++) {
            int pfd[2];
            if (pipe(pfd) != 0) throw std::runtime_error("forkpool: pipe failed");
            pid_t p = fork();
            if (p < 0) throw std::runtime_error("forkpool: fork failed");
            if (p == 0) {
                close(pfd[0]);
                for (auto& o : ws) close(o.fd);
                Out out;
                out.fd = pfd[1];
                on_worker_start(w);
                for (;;) {
                    if (vx::deadline_reached()) { sh->deadline_hit = 1; break; }
                    uint64_t j = sh->next.fetch_add(1);
                    if (j >= njobs) break;
                    out.line("J\t" + std::to_string(j));
                    out.flush();
                    if (isolate_jobs) {
                        // the job mutates the process image: run it in a throw-away grandchild
                        fflush(stdout);
                        pid_t g = fork();
                        if (g < 0) _exit(3);
                        if (g == 0) {
                            fn(j, out);
                            out.send_counts();
                            out.flush();
                            fflush(stdout);
                            _exit(0);
                        }
                        int gst = 0;
                        while (waitpid(g, &gst, 0) < 0 && errno == EINTR) {}
                        if (!WIFEXITED(gst) || WEXITSTATUS(gst) != 0) {
                            std::string how = WIFSIGNALED(gst) ? "signal " + std::to_string(WTERMSIG(gst)) : "exit code " + std::to_string(WIFEXITED(gst) ? WEXITSTATUS(gst) : -1);
                            std::string d = describe(j);
                            out.violation("process-died:" + std::to_string(j), "the process running a job died abnormally (" + how + "): " + d, d);
                        }
                    } else {
                        fn(j, out);
                        out.send_counts();
                    }
                    out.line("E\t" + std::to_string(j));
                    sh->done++;
                }
                out.flush();
                on_worker_end(w);
                fflush(stdout);
                _exit(0);
            }
            close(pfd[1]);
            ws.push_back({p, pfd[0], "", 0, false, true});
        }
        size_t open_n = ws.size();
        std::vector<char> rb(1 << 16);
        while (open_n) {
            std::vector<pollfd> pf;
            std::vector<size_t> idx;
            for (size_t i = 0; i < ws.size(); i++) if (ws[i].open) { pf.push_back({ws[i].fd, POLLIN, 0}); idx.push_back(i); }
            int r = poll(pf.data(), pf.size(), 1000);
            if (r < 0 && errno != EINTR) break;
            for (size_t k = 0; k < pf.size(); k++) {
                if (!(pf[k].revents & (POLLIN | POLLHUP | POLLERR))) continue;
                W& w = ws[idx[k]];
                ssize_t n = read(w.fd, rb.data(), rb.size());
                if (n > 0) {
                    w.acc.append(rb.data(), (size_t)n);
                    size_t pos = 0, nl;
                    while ((nl = w.acc.find('\n', pos)) != std::string::npos) {
                        std::string l = w.acc.substr(pos, nl - pos);
                        pos = nl + 1;
                        if (l.size() > 2 && l[0] == 'J') { w.cur_job = strtoull(l.c_str() + 2, nullptr, 10); w.has_job = true; }
                        else if (l.size() > 2 && l[0] == 'E') { w.has_job = false; jobs_done++; }
                        else handle_line(l);
                    }
                    w.acc.erase(0, pos);
                } else if (n == 0 || (n < 0 && errno != EINTR && errno != EAGAIN)) {
                    close(w.fd);
                    w.open = false;
                    open_n--;
                }
            }
        }
        for (auto& w : ws) {
            int st = 0;
            while (waitpid(w.pid, &st, 0) < 0 && errno == EINTR) {}
            if (!WIFEXITED(st) || WEXITSTATUS(st) != 0) {
                crashes++;
                std::string d = w.has_job ? describe(w.cur_job) : std::string("(between jobs)");
                std::string how = WIFSIGNALED(st) ? "signal " + std::to_string(WTERMSIG(st)) : "exit code " + std::to_string(WIFEXITED(st) ? WEXITSTATUS(st) : -1);
                vx::violation("process-died:" + (w.has_job ? std::to_string(w.cur_job) : std::string("idle")), "a worker process died abnormally (" + how + ") while running: " + d, d);
            }
        }
        if (sh->deadline_hit.load() || jobs_done < njobs) complete = false;
        munmap(sh, sizeof(PoolShared));
    }
};

// Runs the whole check body in a fork()ed child so that an abort()/assert/crash inside the code under test (outside
// any pool worker) is reported as a violation instead of killing the harness silently.
inline int guarded(const std::function<int()>& body, const std::string& what)
{
    if (!vx::ctx().replay.empty()) return body();
    fflush(stdout);
    pid_t p = fork();
    if (p < 0) return body();
    if (p == 0) {
        int rc = body();
        fflush(stdout);
        _exit(rc);
    }
    int st = 0;
    while (waitpid(p, &st, 0) < 0 && errno == EINTR) {}
    if (WIFEXITED(st)) return WEXITSTATUS(st);
    vx::violation("checking-process-died", "the checking process was killed by signal " + std::to_string(WTERMSIG(st)) + " (abort/assert/crash inside the code under test): " + what, what);
    vx::ev().exhaustive = false;
    return vx::finish();
}

} // namespace fp
