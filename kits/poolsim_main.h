// Shared main() body for the poolsim-based checks (C22, C23, C26, C27, C28, ...).
#pragma once
#include <kits/poolsim.h>

namespace ps {

inline std::string Join(const std::set<std::string>& s)
{
    std::string r;
    for (auto& x : s) r += x + " ";
    return r;
}

// Runs one exploration (one node configuration). `tag` distinguishes configurations in the evidence.
inline int RunOne(const char* id, const Opts& opts, Monitor& mon, const std::string& tag, bool replay_mode)
{
    auto& E = vx::ev();
    ck::Node node(MakeNodeOpts(opts));
    Sim sim(node, opts);
    sim.mon = &mon;
    sim.pid = id;
    sim.Init();
    if (getenv("VX_POOLDIAG")) {
        Snap s = sim.Take();
        printf("poolsim[%s]: base height %d, coins %zu, free %zu, prefill %zu, usage %zu / %lld, cluster limits %u / %lld vB\n", tag.c_str(), sim.base_height, sim.coins.size(),
               sim.FreeCoins(s).size(), s.txs.size(), s.usage, (long long)opts.max_size_bytes, opts.cluster_count, (long long)opts.cluster_size_vbytes);
        auto ev = sim.Events();
        printf("poolsim[%s]: %zu events in the initial state:", tag.c_str(), ev.size());
        for (auto& e : ev) printf(" %s", e.c_str());
        printf("\n");
    }
    if (replay_mode) {
        std::ifstream f(vx::ctx().replay);
        std::string line, hist;
        while (std::getline(f, line)) if (line.rfind("history: ", 0) == 0) hist = line.substr(9);
        sim.fs.sh = new vx::ForkShared();
        sim.fs.log_fd = 1;
        size_t pos = 0;
        while (pos < hist.size()) {
            size_t e = hist.find(" | ", pos);
            std::string ev = hist.substr(pos, e == std::string::npos ? std::string::npos : e - pos);
            Snap s = sim.Take();
            printf("replay: %s (tip height %d, pool %zu txs, usage %zu)\n", ev.c_str(), s.height, s.txs.size(), s.usage);
            sim.fs.hist.push_back(ev);
            sim.Apply(ev);
            if (e == std::string::npos) break;
            pos = e + 3;
        }
        mon.state(sim);
        Snap s = sim.Take();
        printf("replay done: tip height %d, pool %zu txs, reports=%d\n", s.height, s.txs.size(), (int)sim.fs.sh->violations.load());
        for (auto& t : s.txs) printf("  pool: %s v%d fee=%lld delta=%lld vsize=%d\n", t.tx->GetHash().ToString().substr(0, 16).c_str(), (int)t.tx->version, (long long)t.fee, (long long)t.delta, t.vsize);
        return sim.fs.sh->violations.load() ? 1 : 0;
    }
    int depth = vx::thorough() ? opts.depth_thorough : opts.depth_quick;
    if (const char* d = getenv("VX_DEPTH")) depth = atoi(d);
    sim.Run(id, depth);
    auto* sh = sim.fs.sh;
    static const char* names[] = {"accepted", "rejected", "replaced", "block_with_pool_tx", "reorg_readd", "expired", "trimmed", "package_accepted", "block_conflict", "reorg_evicted"};
    std::string oc = "{";
    for (int i = 0; i < 10; i++) oc += std::string(i ? ", " : "") + "\"" + names[i] + "\": " + std::to_string(sh->outcome_classes[i].load());
    for (int i = 10; i < 16; i++) oc += ", \"m" + std::to_string(i) + "\": " + std::to_string(sh->outcome_classes[i].load());
    oc += "}";
    E.set("outcomes" + tag, oc);
    E.set("depth" + tag, (uint64_t)depth);
    E.set("transitions_executed_incl_reexpansions" + tag, sim.executed_transitions);
    E.set_str("event_classes" + tag, Join(opts.classes));
    E.set_str("limits" + tag, "max_size_bytes=" + std::to_string(opts.max_size_bytes) + " cluster_count=" + std::to_string(opts.cluster_count) + " cluster_size_vbytes=" + std::to_string(opts.cluster_size_vbytes) + " prefill=" + std::to_string(opts.prefill) + " require_standard=" + std::to_string(opts.require_standard));
    // sanity gates ("this outcome class never happened") only make sense for a search that was not cut by the deadline
    if (vx::deadline_reached()) { E.assume("sanity gates on outcome classes skipped: the search was cut by the deadline"); return 0; }
    int g = mon.gate(sim);
    return g;
}

using Configs = std::vector<std::pair<std::string, Opts>>;
// configure() is called after vx::init (so it may look at vx::thorough()) and returns the node configurations to explore
inline int Main(int argc, char** argv, const char* id, const std::function<Configs()>& configure, Monitor& mon)
{
    vx::init(argc, argv, id, "model_checking", 150, 1400);
    vx::scratch_dir(); // TMPDIR -> tmpfs
    auto& E = vx::ev();
    Configs configs = configure();
    if (!vx::ctx().replay.empty()) {
        // a replay file does not name the node configuration: replay the history on every configuration
        int rc = 0;
        for (auto& [tag, o] : configs) {
            printf("---- replay on configuration '%s'\n", tag.c_str());
            if (RunOne(id, o, mon, tag, true)) rc = 1;
        }
        return rc;
    }
    int gate = 0;
    for (auto& [tag, o] : configs) {
        if (vx::deadline_reached()) { E.exhaustive = false; break; }
        int g = RunOne(id, o, mon, tag, false);
        if (g) gate = g;
    }
    E.rule = "explicit-state search of the real regtest node with its mempool (fork per transition). state = canonical (tip, sorted (wtxid, fee, delta, entry time), pool order, prioritisation map, memory usage, rolling-minimum-fee fields, unbroadcast set, coin cache size, #invalidations, #time jumps); transition = one distinct (state, event) pair, i.e. one real ProcessTransaction / ProcessNewPackage / ProcessNewBlock / InvalidateBlock / PrioritiseTransaction call or a mock-time jump; every event is a pure function of the state (tx menu relative to the state); " + mon.what();
    E.assume("regtest, in-memory LevelDBs, 0 script-check and prevout-fetch workers, synchronous validation signals (single-threaded, so fork() is a sound snapshot); anyone-can-spend P2WSH(OP_TRUE) coins only");
    E.sample("event grammar: N:<ver>:<fee> NY NL NQ C:<i>:<out>:<ver>:<fee> J R:<i>:<thr> RB RS SB PK:<ver>:<pf>:<cf> PE PR D M:<k> MC:<i> I X T P:<i>:<+|->  (see kits/poolsim.h)");
    E.sample("example history: N:2:m | C:0:0:2:h | R:0:d | M:a | I");
    if (gate == 2 && vx::rep().violations == 0) {
        vx::write_evidence();
        return 2;
    }
    return vx::finish();
}

} // namespace ps
