LINK := full
KITS := chainkit
