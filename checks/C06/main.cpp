// C06 — Accepted blocks have the required structure and respect resource limits.
//
// Single-step boundary enumeration from a fixed base state of the real regtest node (kits/chainkit):
// every case is ONE block built on the base tip and handed, in a forked child (the base state is never
// modified), to (1) TestBlockValidity and (2) ProcessNewBlock. Families:
//   cbpos   every pattern over {coinbase-shaped, normal} transactions of length 0..4 (+ duplicated coinbase,
//           two-input "coinbase" with null prevouts)
//   bip34   coinbase height push: correct / h-1 / h+1 / non-minimal / PUSHDATA1 / prefix byte / truncated / with
//           trailing data, at heights on both sides of every encoding boundary (16|17, 127|128, 255|256, 32767|32768)
//   weight  weight 4,000,000 + d with witness-only padding, non-witness-only padding, and mixed padding with
//           the stripped size far below / just below / at / above 1,000,000 bytes
//   sigops  total sigop cost at/around 80,000 composed as bulk source x fine source: bare CHECKSIG and
//           CHECKMULTISIG in outputs, coinbase scriptSig+outputs, scriptSigs of ordinary inputs, P2SH redeem
//           scripts (accurate OP_n CHECKMULTISIG counting), P2WSH, P2WPKH, P2SH-P2WSH, P2SH-P2WPKH; every block
//           also carries uncounted decoys (sigop bytes inside push data, behind a truncated push, in the witness of
//           an unknown witness version).
// Oracle: an independent calculator (namespace ref) written from the BIP16 / BIP34 / BIP141 texts: own script
// parser, own sigop counter, own serialised-size / weight arithmetic, own coinbase-shape predicate. It predicts
// accept/reject and the set of admissible reject reasons; it is also compared with GetBlockWeight and with the sum
// of GetTransactionSigOpCost.
#include <vx/vx.h>
#include <kits/chainkit.h>

#include <chainparams.h>
#include <consensus/consensus.h>
#include <consensus/merkle.h>
#include <consensus/tx_verify.h>
#include <consensus/validation.h>
#include <crypto/sha256.h>
#include <hash.h>
#include <key.h>
#include <script/interpreter.h>
#include <script/sign.h>
#include <script/signingprovider.h>
#include <test/util/transaction_utils.h>
#include <util/time.h>

#include <fcntl.h>
#include <sys/mman.h>
#include <sys/resource.h>
#include <sys/wait.h>

using Bytes = std::vector<unsigned char>;

// =============================================================================================== reference
namespace ref {

// Walks a script opcode by opcode: fn(opcode, data pointer, data length). Parsing stops at a push that runs past
// the end; returns false in that case.
template <typename F>
static bool Walk(const unsigned char* s, size_t n, F fn)
{
    size_t i = 0;
    while (i < n) {
        int c = s[i++];
        uint64_t len = 0;
        if (c >= 1 && c <= 75) len = c;
        else if (c == 76) { if (n - i < 1) return false; len = s[i]; i += 1; }
        else if (c == 77) { if (n - i < 2) return false; len = s[i] | (s[i + 1] << 8); i += 2; }
        else if (c == 78) { if (n - i < 4) return false; len = (uint64_t)s[i] | ((uint64_t)s[i + 1] << 8) | ((uint64_t)s[i + 2] << 16) | ((uint64_t)s[i + 3] << 24); i += 4; }
        if (n - i < len) return false;
        fn(c, s + i, (size_t)len);
        i += len;
    }
    return true;
}

// Signature operations of one script: CHECKSIG(VERIFY) = 1; CHECKMULTISIG(VERIFY) = 20, or, in accurate mode
// (BIP16), n when the opcode immediately before it is OP_1..OP_16.
static int64_t SigOps(const unsigned char* s, size_t len, bool accurate)
{
    int64_t n = 0;
    int last = 0xff;
    Walk(s, len, [&](int code, const unsigned char*, size_t) {
        if (code == 0xac || code == 0xad) n += 1;
        else if (code == 0xae || code == 0xaf) n += (accurate && last >= 0x51 && last <= 0x60) ? last - 0x50 : 20;
        last = code;
    });
    return n;
}
template <typename C> static int64_t SigOps(const C& c, bool accurate) { return SigOps(c.data(), c.size(), accurate); }

static bool IsP2SH(const Bytes& s) { return s.size() == 23 && s[0] == 0xa9 && s[1] == 0x14 && s[22] == 0x87; }
// BIP141: a 1-byte push opcode (OP_0, OP_1..OP_16) followed by one direct data push of 2..40 bytes
static bool WitnessProgram(const Bytes& s, int& ver, Bytes& prog)
{
    if (s.size() < 4 || s.size() > 42) return false;
    if (s[0] != 0 && (s[0] < 0x51 || s[0] > 0x60)) return false;
    if ((size_t)s[1] + 2 != s.size()) return false;
    ver = s[0] == 0 ? 0 : s[0] - 0x50;
    prog.assign(s.begin() + 2, s.end());
    return true;
}
static int64_t WitnessSigOps(int ver, const Bytes& prog, const std::vector<Bytes>& stack)
{
    if (ver != 0) return 0;
    if (prog.size() == 20) return 1;
    if (prog.size() == 32 && !stack.empty()) return SigOps(stack.back(), true);
    return 0;
}

static size_t VarSize(uint64_t n) { return n < 0xfd ? 1 : n <= 0xffff ? 3 : n <= 0xffffffffULL ? 5 : 9; }

static Bytes B(const CScript& s) { return Bytes(s.begin(), s.end()); }

static bool CoinbaseShaped(const CTransaction& tx)
{
    if (tx.vin.size() != 1) return false;
    const COutPoint& p = tx.vin[0].prevout;
    for (unsigned char c : p.hash.ToUint256()) if (c) return false;
    return p.n == 0xffffffffu;
}

static size_t TxBaseSize(const CTransaction& tx)
{
    size_t n = 4 + VarSize(tx.vin.size());
    for (auto& i : tx.vin) n += 32 + 4 + VarSize(i.scriptSig.size()) + i.scriptSig.size() + 4;
    n += VarSize(tx.vout.size());
    for (auto& o : tx.vout) n += 8 + VarSize(o.scriptPubKey.size()) + o.scriptPubKey.size();
    return n + 4;
}
static size_t TxTotalSize(const CTransaction& tx)
{
    bool any = false;
    for (auto& i : tx.vin) any |= !i.scriptWitness.stack.empty();
    size_t n = TxBaseSize(tx);
    if (!any) return n;
    n += 2; // marker + flag
    for (auto& i : tx.vin) {
        n += VarSize(i.scriptWitness.stack.size());
        for (auto& it : i.scriptWitness.stack) n += VarSize(it.size()) + it.size();
    }
    return n;
}

// BIP34: the coinbase scriptSig starts with the serialised script number of the height, as `CScript() << h` does:
// 0 -> OP_0, 1..16 -> OP_1..OP_16, else a direct push of the minimal little-endian sign-magnitude encoding.
static Bytes HeightPush(int64_t h)
{
    if (h == 0) return {0x00};
    if (h >= 1 && h <= 16) return {(unsigned char)(0x50 + h)};
    Bytes num;
    uint64_t v = (uint64_t)h;
    while (v) { num.push_back(v & 0xff); v >>= 8; }
    if (num.back() & 0x80) num.push_back(0);
    Bytes out{(unsigned char)num.size()};
    out.insert(out.end(), num.begin(), num.end());
    return out;
}

struct Verdict {
    bool ok{true};
    std::set<std::string> reasons;  // admissible reject reasons (union over violated rules)
    int64_t weight{0}, stripped{0}, cost{-1};
    bool structure_ok{true};
    void fail(std::initializer_list<const char*> r) { ok = false; for (auto x : r) reasons.insert(x); }
};

using PrevLookup = std::function<const Bytes*(const COutPoint&)>;

static Verdict Judge(const CBlock& b, int height, const PrevLookup& prev)
{
    Verdict v;
    // sizes
    size_t stripped = 80 + VarSize(b.vtx.size()), total = stripped;
    for (auto& t : b.vtx) { stripped += TxBaseSize(*t); total += TxTotalSize(*t); }
    v.stripped = stripped;
    v.weight = 3 * (int64_t)stripped + (int64_t)total;
    // structure
    if (b.vtx.empty()) { v.structure_ok = false; v.fail({"bad-blk-length", "bad-cb-missing"}); return v; }
    if (!CoinbaseShaped(*b.vtx[0])) { v.structure_ok = false; v.fail({"bad-cb-missing"}); }
    for (size_t i = 1; i < b.vtx.size(); i++)
        if (CoinbaseShaped(*b.vtx[i])) { v.structure_ok = false; v.fail({"bad-cb-multiple"}); }
    // a non-coinbase transaction may not refer to the null outpoint; and identical transactions at the tail make the
    // merkle tree ambiguous (both are reported under their own reasons by the implementation)
    for (size_t i = 0; i < b.vtx.size(); i++) {
        if (!CoinbaseShaped(*b.vtx[i]))
            for (auto& in : b.vtx[i]->vin)
                if (in.prevout.n == 0xffffffffu && in.prevout.hash.ToUint256().IsNull()) { v.structure_ok = false; v.fail({"bad-txns-prevout-null"}); }
        for (size_t j = 0; j < i; j++)
            if (b.vtx[i]->GetHash() == b.vtx[j]->GetHash()) { v.structure_ok = false; v.fail({"bad-txns-duplicate", "bad-txns-inputs-missingorspent", "bad-txns-BIP30"}); }
    }
    // BIP34 (active on regtest from height 1)
    if (CoinbaseShaped(*b.vtx[0]) && height >= 1) {
        Bytes want = HeightPush(height), have = B(b.vtx[0]->vin[0].scriptSig);
        if (have.size() < want.size() || !std::equal(want.begin(), want.end(), have.begin())) v.fail({"bad-cb-height"});
        // consensus also bounds the coinbase scriptSig to 2..100 bytes (not a C06 rule, but cases may touch it)
        if (have.size() < 2 || have.size() > 100) v.fail({"bad-cb-length"});
    }
    // size / weight
    if ((int64_t)stripped * 4 > 4000000 || (int64_t)b.vtx.size() * 4 > 4000000) v.fail({"bad-blk-length", "bad-blk-weight"});
    else if (v.weight > 4000000) v.fail({"bad-blk-weight"});
    // sigops (needs the spent outputs; only defined for a structurally sound block)
    if (v.structure_ok) {
        int64_t cost = 0;
        bool known = true;
        for (size_t ti = 0; ti < b.vtx.size(); ti++) {
            const CTransaction& tx = *b.vtx[ti];
            int64_t legacy = 0;
            for (auto& i : tx.vin) legacy += SigOps(i.scriptSig, false);
            for (auto& o : tx.vout) legacy += SigOps(o.scriptPubKey, false);
            cost += 4 * legacy;
            if (ti == 0) continue;
            for (auto& i : tx.vin) {
                const Bytes* spk = prev(i.prevout);
                if (!spk) { known = false; continue; }
                // BIP16: the scriptSig must consist of pushes only; the redeem script is the last item pushed
                bool pushonly = true;
                Bytes last;
                bool complete = Walk(i.scriptSig.data(), i.scriptSig.size(), [&](int code, const unsigned char* d, size_t l) { if (code > 0x60) pushonly = false; last.assign(d, d + l); });
                pushonly = pushonly && complete;
                int ver;
                Bytes prog;
                if (IsP2SH(*spk)) {
                    if (pushonly) cost += 4 * SigOps(last, true);
                    if (pushonly && WitnessProgram(last, ver, prog)) cost += WitnessSigOps(ver, prog, i.scriptWitness.stack);
                } else if (WitnessProgram(*spk, ver, prog)) {
                    cost += WitnessSigOps(ver, prog, i.scriptWitness.stack);
                }
            }
        }
        if (known) {
            v.cost = cost;
            if (cost > 80000) v.fail({"bad-blk-sigops"});
        }
    }
    return v;
}

} // namespace ref

// =============================================================================================== case specs
static Bytes Rep(unsigned char c, size_t n) { return Bytes(n, c); }
static Bytes Cat(std::initializer_list<Bytes> l) { Bytes o; for (auto& x : l) o.insert(o.end(), x.begin(), x.end()); return o; }
static CScript S(const Bytes& b) { return CScript(b.begin(), b.end()); }
static Bytes PushData(const Bytes& d)
{
    Bytes o;
    if (d.size() <= 75) o.push_back((unsigned char)d.size());
    else if (d.size() <= 255) { o.push_back(76); o.push_back((unsigned char)d.size()); }
    else { o.push_back(77); o.push_back(d.size() & 0xff); o.push_back(d.size() >> 8); }
    o.insert(o.end(), d.begin(), d.end());
    return o;
}
static Bytes Sha256(const Bytes& d) { Bytes h(32); CSHA256().Write(d.data(), d.size()).Finalize(h.data()); return h; }
static Bytes Hash160B(const Bytes& d) { uint160 h = Hash160(d); return Bytes(h.begin(), h.end()); }
static Bytes P2SH(const Bytes& redeem) { return Cat({{0xa9, 0x14}, Hash160B(redeem), {0x87}}); }
static Bytes P2WSH(const Bytes& ws) { return Cat({{0x00, 0x20}, Sha256(ws)}); }

static const Bytes SPK_TRUE{0x51};                                 // bare OP_1: spendable by an empty scriptSig
static const Bytes SPK_WITV2 = Cat({{0x52, 0x20}, Rep(0x77, 32)}); // witness v2 program: unconstrained

// body with n sigops (accurate counting) that never executes them: OP_0 OP_IF <...> OP_ENDIF OP_1.
// n = 20a + c: a bare CHECKMULTISIG (20 each), then c as OP_c CHECKMULTISIG (c <= 16) or OP_16 CMS + (c-16) CHECKSIG.
// At most 199 opcodes inside, so n <= 3960 (198 bare CMS) is always representable.
static Bytes AccurateBody(int n)
{
    if (n < 0 || n > 3960) throw std::logic_error("AccurateBody range");
    int a = n / 20, c = n % 20;
    Bytes in = Rep(0xae, a);
    if (c >= 1 && c <= 16) { in.push_back(0x50 + c); in.push_back(0xae); }
    else if (c > 16) { in.push_back(0x60); in.push_back(0xaf); in.insert(in.end(), c - 16, 0xac); }
    return Cat({{0x00, 0x63}, in, {0x68, 0x51}});
}
static const int BODY_MAX = 3960;

struct InSpec {
    Bytes spk;               // scriptPubKey of the spent pool output
    Bytes script_sig;
    std::vector<Bytes> wit;
    int sign{0};             // 1: P2WPKH, 2: P2SH-P2WPKH (filled by signing)
};
struct TxSpec { std::vector<InSpec> ins; std::vector<Bytes> outs; };
struct CaseSpec {
    std::string name, family;
    std::vector<TxSpec> txs;
    std::optional<Bytes> cb_script_sig;   // full override (default: height push, extra nonce 0x01 0x2a, then cb_tail)
    Bytes cb_tail;
    std::vector<Bytes> cb_outs;           // extra coinbase outputs (value 0)
    std::string pattern;                  // e.g. "CNN"; 'C' coinbase-shaped, 'D' copy of the first coinbase, 'N' next tx of txs, 'X' two null inputs
    int pad_mode{0};                      // 1 witness item, 2 non-witness output script, 3 both (stripped target first)
    int64_t pad_weight{0}, pad_stripped{0};
    int64_t want_cost{-1}, want_weight{-1}; // what the construction aims at (sanity-gated against the reference)
};

static CKey TheKey()
{
    CKey k;
    Bytes b(32, 0x11);
    k.Set(b.begin(), b.end(), true);
    return k;
}
static Bytes P2WPKHSpk() { CPubKey pk = TheKey().GetPubKey(); uint160 h = Hash160(pk); return Cat({{0x00, 0x14}, Bytes(h.begin(), h.end())}); }

struct PoolOut { COutPoint op; CAmount value; };
struct Pool {
    std::map<Bytes, std::vector<PoolOut>> by_spk;
    std::map<COutPoint, Bytes> spk_of;
};

// =============================================================================================== realisation
static CMutableTransaction CoinbaseTx(int height, const CaseSpec& c, int variant)
{
    CMutableTransaction cb;
    cb.version = 2;
    cb.vin.resize(1);
    cb.vin[0].prevout.SetNull();
    Bytes ss;
    if (c.cb_script_sig) ss = *c.cb_script_sig;
    else ss = Cat({ref::HeightPush(height), {0x01, (unsigned char)(0x2a + variant)}, c.cb_tail});
    cb.vin[0].scriptSig = S(ss);
    cb.vout.emplace_back(ck::RefLedger::Subsidy(height, Params().GetConsensus().nSubsidyHalvingInterval), ck::OpTrueSpk());
    { // a case-specific data output makes every case's block unique
        uint64_t tag = vx::fnv1a(c.name);
        Bytes o{0x6a, 0x08};
        for (int i = 0; i < 8; i++) o.push_back((tag >> (8 * i)) & 0xff);
        cb.vout.emplace_back(0, S(o));
    }
    for (auto& o : c.cb_outs) cb.vout.emplace_back(0, S(o));
    return cb;
}

static CBlock Realize(ck::Node& n, const CBlockIndex* prev, const CaseSpec& c, const Pool& pool)
{
    const int height = prev->nHeight + 1;
    std::map<Bytes, size_t> used;
    FillableSigningProvider keys;
    CKey key = TheKey();
    keys.AddKey(key);
    keys.AddCScript(S(P2WPKHSpk()));
    std::vector<CTransactionRef> normal;
    auto build_tx = [&](const TxSpec& ts) {
        CMutableTransaction m;
        m.version = 2;
        std::vector<CAmount> values;
        for (auto& is : ts.ins) {
            auto it = pool.by_spk.find(is.spk);
            size_t k = used[is.spk]++;
            if (it == pool.by_spk.end() || k >= it->second.size()) throw std::logic_error("pool exhausted for case " + c.name);
            CTxIn in(it->second[k].op, S(is.script_sig), 0xffffffff);
            in.scriptWitness.stack = is.wit;
            m.vin.push_back(in);
            values.push_back(it->second[k].value);
        }
        for (auto& o : ts.outs) m.vout.emplace_back(0, S(o));
        if (m.vout.empty()) m.vout.emplace_back(0, S(SPK_TRUE));
        for (size_t i = 0; i < ts.ins.size(); i++) {
            if (!ts.ins[i].sign) continue;
            SignatureData sd;
            if (!SignSignature(keys, S(ts.ins[i].spk), m, i, values[i], SIGHASH_ALL, sd)) throw std::logic_error("signing failed in case " + c.name);
        }
        return m;
    };
    std::vector<TxSpec> txs = c.txs;
    // padding carriers
    int pad_wit_tx = -1, pad_out_tx = -1;
    if (c.pad_mode & 2) { TxSpec t; t.ins.push_back({SPK_TRUE, {}, {}, 0}); t.outs.push_back(Bytes{0x6a}); pad_out_tx = txs.size(); txs.push_back(t); }
    if (c.pad_mode & 1) { TxSpec t; t.ins.push_back({SPK_WITV2, {}, {Bytes{}}, 0}); pad_wit_tx = txs.size(); txs.push_back(t); }

    auto assemble = [&](const std::vector<TxSpec>& specs) {
        used.clear();
        CBlock b;
        b.nVersion = 0x20000000;
        b.hashPrevBlock = prev->GetBlockHash();
        b.nTime = prev->nTime + 600;
        b.nBits = prev->nBits;
        b.nNonce = 0;
        std::vector<CTransactionRef> built;
        for (auto& ts : specs) built.push_back(MakeTransactionRef(build_tx(ts)));
        std::string pat = c.pattern.empty() ? "C" + std::string(built.size(), 'N') : c.pattern;
        if (pat == "-") pat = "";
        size_t ni = 0;
        int ncb = 0;
        CTransactionRef first_cb;
        for (char ch : pat) {
            if (ch == 'C') { auto t = MakeTransactionRef(CoinbaseTx(height, c, ncb++)); if (!first_cb) first_cb = t; b.vtx.push_back(t); }
            else if (ch == 'D') { if (!first_cb) throw std::logic_error("D before C"); b.vtx.push_back(first_cb); }
            else if (ch == 'X') { CMutableTransaction m = CoinbaseTx(height, c, 7); CTxIn second(COutPoint(Txid::FromUint256(uint256{1}), 0), CScript(), 0xffffffff); m.vin.push_back(second); b.vtx.push_back(MakeTransactionRef(m)); }
            else { if (ni >= built.size()) throw std::logic_error("pattern needs more txs"); b.vtx.push_back(built[ni++]); }
        }
        return b;
    };
    auto ref_sizes = [&](const CBlock& b) {
        ref::Verdict v = ref::Judge(b, height, [&](const COutPoint& op) -> const Bytes* { auto it = pool.spk_of.find(op); return it == pool.spk_of.end() ? nullptr : &it->second; });
        return std::make_pair(v.stripped, v.weight);
    };
    if (c.pad_mode) {
        // sizes with placeholder padding (1-byte script / empty witness item; the commitment output is part of the size),
        // then the padding lengths follow arithmetically
        CBlock b0 = assemble(txs);
        bool hw = false;
        for (auto& t : b0.vtx) hw |= t->HasWitness();
        if (hw) ck::Refinalize(n, b0, prev, /*redo_commitment=*/true, /*grind=*/false);
        auto [s0, w0] = ref_sizes(b0);
        int64_t w1 = w0;
        if (c.pad_mode & 2) {
            // script of length L (L >= 1) contributes L + VarSize(L) bytes; the placeholder has L = 1
            int64_t want_extra = (c.pad_mode == 2) ? (c.pad_weight - w0) : 4 * (c.pad_stripped - s0);
            if (want_extra % 4 || want_extra < 0) throw std::logic_error("non-witness padding cannot reach target in " + c.name);
            int64_t extra = want_extra / 4;
            bool done = false;
            for (int64_t vs : {1, 3, 5}) {
                int64_t L = 1 + extra - (vs - 1);
                if (L >= 1 && (int64_t)ref::VarSize(L) == vs) {
                    Bytes sc(L, 0x00); // OP_RETURN, then one PUSHDATA4 of zeros (or bare OP_0s when too short for that)
                    sc[0] = 0x6a;
                    if (L >= 6) { sc[1] = 0x4e; uint32_t dl = L - 6; sc[2] = dl & 0xff; sc[3] = (dl >> 8) & 0xff; sc[4] = (dl >> 16) & 0xff; sc[5] = (dl >> 24) & 0xff; }
                    txs[pad_out_tx].outs[0] = std::move(sc);
                    done = true;
                    break;
                }
            }
            if (!done) throw std::logic_error("non-witness padding unsolvable in " + c.name);
            w1 = w0 + want_extra;
        }
        if ((c.pad_mode & 1) && c.pad_weight >= 0) {
            int64_t extra = c.pad_weight - w1;
            bool done = false;
            for (int64_t vs : {1, 3, 5}) {
                int64_t L = extra - (vs - 1);
                if (L >= 0 && (int64_t)ref::VarSize(L) == vs) { txs[pad_wit_tx].ins[0].wit[0] = Rep(0x00, L); done = true; break; }
            }
            if (!done) throw std::logic_error("witness padding unsolvable in " + c.name);
        }
    }
    CBlock b = assemble(txs);
    bool has_wit = false;
    for (auto& t : b.vtx) has_wit |= t->HasWitness();
    if (has_wit && !b.vtx.empty() && ref::CoinbaseShaped(*b.vtx[0])) ck::Refinalize(n, b, prev, true, true);
    else { b.hashMerkleRoot = BlockMerkleRoot(b); ck::Grind(b, Params().GetConsensus()); }
    return b;
}

// =============================================================================================== case generation
enum Src { OUT_CS, OUT_CMS, CB, SSIG, SRC_P2SH, SRC_P2WSH, SRC_P2SH_P2WSH, SRC_P2WPKH, SRC_P2SH_P2WPKH };
static const char* SrcName(Src s)
{
    static const char* n[] = {"outCS", "outCMS", "coinbase", "scriptSig", "p2sh", "p2wsh", "p2sh-p2wsh", "p2wpkh", "p2sh-p2wpkh"};
    return n[s];
}
static int Scale(Src s) { return (s == SRC_P2WSH || s == SRC_P2SH_P2WSH || s == SRC_P2WPKH || s == SRC_P2SH_P2WPKH) ? 1 : 4; }

// adds `n` sigops (in the source's own unit) to the case; inputs/outputs go into tx `t`
static void AddSigops(CaseSpec& c, TxSpec& t, Src s, int n)
{
    switch (s) {
    case OUT_CS: t.outs.push_back(Rep(0xac, n)); break;
    case OUT_CMS: { // OP_3 CHECKMULTISIG counts 20 in an output (never "accurate"), remainder as CHECKSIGVERIFY
        Bytes o;
        for (int i = 0; i < n / 20; i++) { o.push_back(0x53); o.push_back(i % 2 ? 0xaf : 0xae); }
        o.insert(o.end(), n % 20, 0xad);
        t.outs.push_back(o);
        break;
    }
    case CB: {
        int in_sig = std::min<int>(n, 90 - (int)c.cb_tail.size());
        c.cb_tail = Cat({c.cb_tail, Rep(0xac, in_sig)});
        if (n > in_sig) c.cb_outs.push_back(Rep(0xac, n - in_sig));
        break;
    }
    case SSIG:
        for (int left = n; left > 0;) { int k = std::min(left, 199); t.ins.push_back({SPK_TRUE, Cat({{0x00, 0x63}, Rep(0xac, k), {0x68}}), {}, 0}); left -= k; }
        break;
    case SRC_P2SH:
        for (int left = n; left > 0;) { int k = std::min(left, BODY_MAX); Bytes r = AccurateBody(k); t.ins.push_back({P2SH(r), PushData(r), {}, 0}); left -= k; }
        break;
    case SRC_P2WSH:
        for (int left = n; left > 0;) { int k = std::min(left, BODY_MAX); Bytes w = AccurateBody(k); t.ins.push_back({P2WSH(w), {}, {w}, 0}); left -= k; }
        break;
    case SRC_P2SH_P2WSH:
        for (int left = n; left > 0;) { int k = std::min(left, BODY_MAX); Bytes w = AccurateBody(k); Bytes prog = P2WSH(w); t.ins.push_back({P2SH(prog), PushData(prog), {w}, 0}); left -= k; }
        break;
    case SRC_P2WPKH:
        for (int i = 0; i < n; i++) t.ins.push_back({P2WPKHSpk(), {}, {}, 1});
        break;
    case SRC_P2SH_P2WPKH:
        for (int i = 0; i < n; i++) t.ins.push_back({P2SH(P2WPKHSpk()), {}, {}, 2});
        break;
    }
}

// uncounted decoys + 3 counted legacy sigops in the same output script (cost 12)
static const int DECOY_COST = 12;
static void AddDecoys(TxSpec& t)
{
    // output: 3 counted CHECKSIG, then 200 sigop bytes inside a push, then a truncated PUSHDATA2 hiding more
    t.outs.push_back(Cat({Rep(0xac, 3), PushData(Rep(0xae, 200)), {0x4d, 0xff, 0xff, 0xac, 0xae, 0xac}}));
    // output that looks like P2SH / a witness program (no sigops by themselves)
    t.outs.push_back(P2SH(Rep(0xac, 50)));
    t.outs.push_back(P2WPKHSpk());
    // input: scriptSig pushing a blob of sigop bytes onto the stack of a bare OP_1 output
    t.ins.push_back({SPK_TRUE, PushData(Rep(0xac, 300)), {}, 0});
    // input: unknown witness version whose witness carries a "script" full of sigops
    t.ins.push_back({SPK_WITV2, {}, {Rep(0xac, 1000), Rep(0xae, 500)}, 0});
}

static std::vector<CaseSpec> SigopCases(bool big)
{
    std::vector<CaseSpec> v;
    const std::vector<Src> bulk{OUT_CS, OUT_CMS, CB, SSIG, SRC_P2SH, SRC_P2WSH, SRC_P2SH_P2WSH};
    const std::vector<Src> fine{OUT_CS, CB, SSIG, SRC_P2SH, SRC_P2WSH, SRC_P2WPKH, SRC_P2SH_P2WSH, SRC_P2SH_P2WPKH};
    for (Src a : bulk) for (Src f : fine) {
        int sa = Scale(a), sf = Scale(f);
        int step = std::min(sa, sf) == 1 ? 1 : 4;
        std::vector<int> deltas = big ? std::vector<int>{-2, -1, 0, 1, 2} : std::vector<int>{0, 1};
        for (int split = 0; split < (big ? 2 : 1); split++)
        for (int d : deltas) {
            int64_t T = 80000 + (int64_t)d * step;
            // nf in [5, 5+sa) with (T - DECOY - sf*nf) divisible by sa
            int nf = -1;
            for (int k = 5; k < 5 + 4 * sa; k++) if ((T - DECOY_COST - (int64_t)sf * k) % sa == 0) { nf = k; break; }
            if (nf < 0) continue;
            int na = (T - DECOY_COST - (int64_t)sf * nf) / sa;
            CaseSpec c;
            c.family = "sigops";
            c.name = std::string("sigops/") + SrcName(a) + "+" + SrcName(f) + "/cost=" + std::to_string(T) + (split ? "/split" : "");
            c.want_cost = T;
            if (!split) {
                TxSpec t;
                t.ins.push_back({SPK_TRUE, {}, {}, 0});
                AddDecoys(t);
                AddSigops(c, t, a, na);
                AddSigops(c, t, f, nf);
                c.txs.push_back(t);
            } else {
                // the fine part first, bulk in the last transaction (the running total crosses the limit only there)
                TxSpec t0, t1, t2;
                t0.ins.push_back({SPK_TRUE, {}, {}, 0});
                AddDecoys(t0);
                t1.ins.push_back({SPK_TRUE, {}, {}, 0});
                AddSigops(c, t1, f, nf);
                t2.ins.push_back({SPK_TRUE, {}, {}, 0});
                AddSigops(c, t2, a, na);
                c.txs = {t0, t1, t2};
            }
            v.push_back(c);
        }
    }
    // every OP_n CHECKMULTISIG (n = 1..16) and the look-alikes that are NOT "OP_n" (OP_0, OP_1NEGATE, a data push of a
    // small number, OP_RESERVED) in a redeem script, a witness script and a P2SH-wrapped witness script
    for (int d : {-1, 0, 1}) {
        CaseSpec c;
        c.family = "sigops";
        c.name = "sigops/accurate-zoo/cost=" + std::to_string(80000 + d);
        c.want_cost = 80000 + d;
        Bytes in;
        for (int k = 1; k <= 16; k++) { in.push_back(0x50 + k); in.push_back(k % 2 ? 0xae : 0xaf); }   // 136
        for (unsigned char look : {0x00, 0x4f, 0x50}) { in.push_back(look); in.push_back(0xae); }        // 60 (OP_RESERVED is unexecuted here)
        in.push_back(0x01); in.push_back(0x05); in.push_back(0xae);                                     // 20
        Bytes zoo = Cat({{0x00, 0x63}, in, {0x68, 0x51}});                                              // 216 sigops, accurate
        TxSpec t;
        t.ins.push_back({SPK_TRUE, {}, {}, 0});
        AddDecoys(t);                                                                                   // 12
        t.ins.push_back({P2SH(zoo), PushData(zoo), {}, 0});                                             // 864
        t.ins.push_back({P2WSH(zoo), {}, {zoo}, 0});                                                    // 216
        Bytes prog = P2WSH(zoo);
        t.ins.push_back({P2SH(prog), PushData(prog), {zoo}, 0});                                        // 216
        t.outs.push_back(zoo);                                                                          // legacy: 20 CMS x 20 = 400 sigops = 1600
        AddSigops(c, t, OUT_CS, 19000);                                                                 // 76000
        AddSigops(c, t, SRC_P2WSH, (int)(80000 + d - (12 + 864 + 216 + 216 + 1600 + 76000)));
        c.txs.push_back(t);
        v.push_back(c);
    }
    // three-way mixes: everything at once
    for (int d : {-1, 0, 1}) {
        CaseSpec c;
        c.family = "sigops";
        c.name = "sigops/all-sources/cost=" + std::to_string(80000 + d);
        c.want_cost = 80000 + d;
        TxSpec t;
        t.ins.push_back({SPK_TRUE, {}, {}, 0});
        AddDecoys(t);                                  // 12
        AddSigops(c, t, CB, 140);                      // 560
        AddSigops(c, t, OUT_CS, 9000);                 // 36000
        AddSigops(c, t, OUT_CMS, 2525);                // 10100
        AddSigops(c, t, SSIG, 450);                    // 1800
        AddSigops(c, t, SRC_P2SH, 4100);               // 16400
        AddSigops(c, t, SRC_P2SH_P2WSH, 4000);         // 4000
        AddSigops(c, t, SRC_P2WPKH, 3);                // 3
        AddSigops(c, t, SRC_P2SH_P2WPKH, 2);           // 2
        int64_t sofar = 12 + 560 + 36000 + 10100 + 1800 + 16400 + 4000 + 3 + 2;
        AddSigops(c, t, SRC_P2WSH, (int)(80000 + d - sofar));
        c.txs.push_back(t);
        v.push_back(c);
    }
    return v;
}

static std::vector<CaseSpec> WeightCases(bool big)
{
    std::vector<CaseSpec> v;
    std::vector<int> ds = big ? std::vector<int>{-5, -4, -3, -2, -1, 0, 1, 2, 3, 4, 5, 8} : std::vector<int>{-1, 0, 1, 2, 3, 4};
    for (int d : ds) {
        CaseSpec c;
        c.family = "weight";
        c.name = "weight/witness-pad/w=4000000" + std::string(d >= 0 ? "+" : "") + std::to_string(d);
        c.pad_mode = 1;
        c.pad_weight = 4000000 + d;
        c.want_weight = c.pad_weight;
        v.push_back(c);
    }
    for (int d : {-8, -4, 0, 4, 8}) {
        if (!big && (d == -8 || d == 8)) continue;
        CaseSpec c;
        c.family = "weight";
        c.name = "weight/nonwitness-pad/w=4000000" + std::string(d >= 0 ? "+" : "") + std::to_string(d);
        c.pad_mode = 2;
        c.pad_weight = 4000000 + d;
        c.want_weight = c.pad_weight;
        v.push_back(c);
    }
    // mixed: stripped size fixed, witness bytes fill the rest
    std::vector<int64_t> strips = big ? std::vector<int64_t>{250000, 500000, 900000, 999000, 999900} : std::vector<int64_t>{999900};
    for (int64_t s : strips) for (int d : ds) {
        if (!big && (d == 2 || d == 3)) continue;
        CaseSpec c;
        c.family = "weight";
        c.name = "weight/mixed-pad/stripped=" + std::to_string(s) + "/w=4000000" + std::string(d >= 0 ? "+" : "") + std::to_string(d);
        c.pad_mode = 3;
        c.pad_stripped = s;
        c.pad_weight = 4000000 + d;
        c.want_weight = c.pad_weight;
        v.push_back(c);
    }
    // stripped size at its own edge while witness data is present: 4*stripped <= 4,000,000 but weight above
    for (int64_t s : {999999, 1000000, 1000001}) {
        CaseSpec c;
        c.family = "weight";
        c.name = "weight/stripped-edge-with-witness/stripped=" + std::to_string(s);
        c.pad_mode = 3;
        c.pad_stripped = s;
        c.pad_weight = -1; // witness item left empty: the smallest weight such a block can have
        v.push_back(c);
    }
    return v;
}

static std::vector<CaseSpec> CbPosCases()
{
    std::vector<CaseSpec> v;
    auto mk = [&](const std::string& pat) {
        CaseSpec c;
        c.family = "cbpos";
        c.name = "cbpos/" + (pat.empty() ? std::string("empty") : pat);
        c.pattern = pat.empty() ? "-" : pat;
        for (char ch : pat) if (ch == 'N') { TxSpec t; t.ins.push_back({SPK_TRUE, {}, {}, 0}); t.outs.push_back(Bytes{0x51, (unsigned char)c.txs.size()}); c.txs.push_back(t); }
        v.push_back(c);
    };
    mk("");
    for (int n = 1; n <= 4; n++)
        for (int m = 0; m < (1 << n); m++) {
            std::string p;
            for (int i = 0; i < n; i++) p += (m >> i & 1) ? 'C' : 'N';
            mk(p);
        }
    // exact duplicate of the coinbase at every later index of n <= 4
    for (int n = 2; n <= 4; n++)
        for (int pos = 1; pos < n; pos++) {
            std::string p = "C";
            for (int i = 1; i < n; i++) p += i == pos ? 'D' : 'N';
            mk(p);
        }
    mk("X");
    mk("XN");
    mk("CX");
    return v;
}

static std::vector<CaseSpec> Bip34Cases(int h)
{
    std::vector<CaseSpec> v;
    auto mk = [&](const std::string& nm, const Bytes& ss) {
        CaseSpec c;
        c.family = "bip34";
        c.name = "bip34/h=" + std::to_string(h) + "/" + nm;
        c.cb_script_sig = ss;
        v.push_back(c);
    };
    const Bytes tail{0x01, 0x2a, 0x00};
    Bytes good = ref::HeightPush(h);
    mk("exact+tail", Cat({good, tail}));
    if (good.size() >= 2) mk("exact-only", good);
    mk("h-1", Cat({ref::HeightPush(h - 1), tail}));
    mk("h+1", Cat({ref::HeightPush(h + 1), tail}));
    // the number itself, little endian, minimal
    Bytes num;
    for (uint64_t x = h; x; x >>= 8) num.push_back(x & 0xff);
    Bytes padded = num;
    padded.push_back(0x00);
    if (!(num.back() & 0x80)) mk("nonminimal-zero-padded", Cat({{(unsigned char)padded.size()}, padded, tail}));
    else mk("missing-sign-byte", Cat({{(unsigned char)num.size()}, num, tail})); // would read as a negative number
    Bytes minimal = (num.back() & 0x80) ? padded : num;
    mk("pushdata1", Cat({{0x4c, (unsigned char)minimal.size()}, minimal, tail}));
    if (h <= 16) mk("direct-push-instead-of-OP_n", Cat({{0x01, (unsigned char)h}, tail}));
    mk("prefix-OP_0", Cat({{0x00}, good, tail}));
    mk("prefix-NOP", Cat({{0x61}, good, tail}));
    if (good.size() >= 3) { Bytes t(good.begin(), good.end() - 1); mk("truncated", t); }
    mk("big-endian", [&] { Bytes r(minimal.rbegin(), minimal.rend()); return Cat({{(unsigned char)r.size()}, r, tail}); }());
    return v;
}

// =============================================================================================== execution
struct Shared { std::atomic<uint64_t> next; };
static bool g_fork_per_case = true; // thorough: every case in its own forked process; quick: per-worker sequence with rollback

static std::string Join(const std::set<std::string>& s) { std::string o; for (auto& x : s) o += (o.empty() ? "" : "|") + x; return o; }

// Runs one case in the current (forked) process. Writes result lines to fd.
static std::optional<uint256> RunCase(ck::Node& n, const Pool& pool, const CaseSpec& c, int fd, bool verbose)
{
    const CBlockIndex* prev = n.tip();
    const int height = prev->nHeight + 1;
    std::string out;
    auto V = [&](const std::string& key, const std::string& what) { out += "V\t" + key + "\t" + what + "\t" + c.name + "\n"; };
    CBlock pristine;
    try {
        pristine = Realize(n, prev, c, pool);
    } catch (const std::exception& e) {
        out += "H\t" + c.name + "\t" + e.what() + "\n";
        (void)!write(fd, out.data(), out.size());
        return std::nullopt;
    }
    double tm0 = vx::elapsed();
    if (verbose) printf("t realize done %.3f\n", tm0);
    ref::Verdict rv = ref::Judge(pristine, height, [&](const COutPoint& op) -> const Bytes* { auto it = pool.spk_of.find(op); return it == pool.spk_of.end() ? nullptr : &it->second; });
    if (c.want_cost >= 0 && rv.cost != c.want_cost) { out += "H\t" + c.name + "\tconstruction missed the sigop target: ref cost " + std::to_string(rv.cost) + "\n"; }
    if (c.want_weight >= 0 && rv.weight != c.want_weight) { out += "H\t" + c.name + "\tconstruction missed the weight target: ref weight " + std::to_string(rv.weight) + "\n"; }

    // (0) plain API observations
    int64_t impl_weight = GetBlockWeight(pristine);
    if (impl_weight != rv.weight) V("C06-weight-mismatch:" + c.family, "GetBlockWeight=" + std::to_string(impl_weight) + " reference=" + std::to_string(rv.weight));
    int64_t impl_cost = -1;
    if (rv.structure_ok && rv.cost >= 0) {
        LOCK(cs_main);
        CCoinsViewCache view(&n.cs().CoinsTip());
        impl_cost = 0;
        for (auto& tx : pristine.vtx) impl_cost += GetTransactionSigOpCost(*tx, view, SCRIPT_VERIFY_P2SH | SCRIPT_VERIFY_WITNESS);
        if (impl_cost != rv.cost) V("C06-sigopcost-mismatch:" + c.name.substr(0, c.name.find("/cost")), "sum GetTransactionSigOpCost=" + std::to_string(impl_cost) + " reference=" + std::to_string(rv.cost));
    }
    if (verbose) printf("t judge+api %.3f\n", vx::elapsed() - tm0);
    // (1) TestBlockValidity
    BlockValidationState ts;
    {
        CBlock b1 = pristine;
        LOCK(cs_main);
        ts = TestBlockValidity(n.cs(), b1, /*check_pow=*/true, /*check_merkle_root=*/true);
    }
    std::string fam_key = c.family + ":" + (rv.ok ? "ok" : Join(rv.reasons));
    if (ts.IsValid() != rv.ok)
        V("C06-tbv-verdict:" + fam_key, std::string("TestBlockValidity says ") + (ts.IsValid() ? "valid" : "invalid (" + ts.GetRejectReason() + ")") + ", reference says " + (rv.ok ? "acceptable" : "must be rejected: " + Join(rv.reasons)) + " [weight=" + std::to_string(rv.weight) + " stripped=" + std::to_string(rv.stripped) + " sigopcost=" + std::to_string(rv.cost) + "]");
    else if (!rv.ok && !rv.reasons.count(ts.GetRejectReason()))
        V("C06-tbv-reason:" + fam_key, "TestBlockValidity rejects with '" + ts.GetRejectReason() + "', the violated rule(s) are " + Join(rv.reasons));
    if (verbose) printf("t tbv %.3f\n", vx::elapsed() - tm0);
    // (2) ProcessNewBlock
    CBlock b2 = pristine;
    uint256 tip_before = n.tip()->GetBlockHash();
    ck::BlockResult r = n.ProcessBlock(b2, /*force=*/true);
    uint256 tip_after = n.tip()->GetBlockHash();
    bool accepted = tip_after == pristine.GetHash();
    if (verbose) printf("t pnb %.3f\n", vx::elapsed() - tm0);
    if (accepted != rv.ok)
        V("C06-pnb-verdict:" + fam_key, std::string("ProcessNewBlock ") + (accepted ? "connected the block" : "did not connect the block (" + r.reason + ")") + ", reference says " + (rv.ok ? "acceptable" : "must be rejected: " + Join(rv.reasons)) + " [weight=" + std::to_string(rv.weight) + " stripped=" + std::to_string(rv.stripped) + " sigopcost=" + std::to_string(rv.cost) + "]");
    else if (!rv.ok) {
        if (tip_after != tip_before) V("C06-pnb-tip-moved:" + fam_key, "tip changed although the block was rejected");
        if (!r.checked || r.valid) V("C06-pnb-not-reported-invalid:" + fam_key, "no invalid BlockChecked notification for a rejected block");
        else if (!rv.reasons.count(r.reason)) V("C06-pnb-reason:" + fam_key, "ProcessNewBlock rejects with '" + r.reason + "', the violated rule(s) are " + Join(rv.reasons));
    } else {
        if (!r.checked || !r.valid || !r.pnb_ret || !r.new_block) V("C06-pnb-accept-flags:" + fam_key, "block connected but pnb_ret/new_block/BlockChecked(valid) not all set");
    }
    char buf[600];
    struct rusage ru;
    getrusage(RUSAGE_SELF, &ru);
    long cpu_ms = (ru.ru_utime.tv_sec + ru.ru_stime.tv_sec) * 1000 + (ru.ru_utime.tv_usec + ru.ru_stime.tv_usec) / 1000;
    snprintf(buf, sizeof buf, "R\t%s\t%s\t%d\t%lld\t%lld\t%lld\t%s\t%s\t%d\t%ld\n", c.family.c_str(), c.name.c_str(), rv.ok ? 1 : 0, (long long)rv.weight, (long long)rv.stripped, (long long)rv.cost,
             ts.IsValid() ? "valid" : ts.GetRejectReason().c_str(), accepted ? "connected" : r.reason.c_str(), (int)pristine.vtx.size(), cpu_ms);
    out += buf;
    (void)!write(fd, out.data(), out.size());
    if (accepted) return pristine.GetHash();
    return std::nullopt;
}

struct Totals {
    uint64_t cases{0}, accepts{0}, rejects{0}, crashes{0};
    std::map<std::string, std::pair<int, int>> fam; // family -> (accept, reject)
    std::set<std::string> reasons_seen;
    std::set<int64_t> costs, weights;
    vx::Distinct distinct;
    std::map<std::string, long> cpu_ms; // diagnostics only (stdout)
    bool harness_error{false};
};

// Fork W workers over the case list; every case runs in its own grandchild from the unchanged base state.
static void RunAll(ck::Node& n, const Pool& pool, const std::vector<CaseSpec>& cases, unsigned workers, Totals& T)
{
    if (cases.empty()) return;
    if (ck::ThreadCount() != 1) throw std::runtime_error("C06: process is not single-threaded");
    std::string path = vx::scratch_dir() + "/c06_" + std::to_string(getpid()) + ".log";
    int fd = open(path.c_str(), O_CREAT | O_TRUNC | O_WRONLY | O_APPEND, 0644);
    Shared* sh = (Shared*)mmap(nullptr, sizeof(Shared), PROT_READ | PROT_WRITE, MAP_SHARED | MAP_ANONYMOUS, -1, 0);
    sh->next = 0;
    fflush(stdout);
    std::vector<pid_t> pids;
    workers = std::min<unsigned>(workers, cases.size());
    for (unsigned w = 0; w < workers; w++) {
        pid_t p = fork();
        if (p < 0) throw std::runtime_error("fork failed");
        if (p == 0) {
            n.RepointBlocksDir(n.BlocksDir().parent_path() / ("c06w" + std::to_string(w)));
            const uint256 base = n.tip()->GetBlockHash();
            for (;;) {
                uint64_t i = sh->next.fetch_add(1);
                if (i >= cases.size()) break;
                if (vx::deadline_reached()) { std::string l = "D\t" + cases[i].name + "\n"; (void)!write(fd, l.data(), l.size()); continue; }
                { std::string l = "B\t" + cases[i].name + "\t" + cases[i].family + "\n"; (void)!write(fd, l.data(), l.size()); }
                if (g_fork_per_case) {
                    pid_t g;
                    while ((g = fork()) < 0) usleep(20000);
                    if (g == 0) { RunCase(n, pool, cases[i], fd, getenv("VX_VERBOSE") != nullptr); _exit(0); }
                    int st = 0;
                    waitpid(g, &st, 0);
                } else {
                    // same process: an accepted block is rolled back with InvalidateBlock so the next case again builds on the base tip
                    auto acc = RunCase(n, pool, cases[i], fd, getenv("VX_VERBOSE") != nullptr);
                    if (acc) n.Invalidate(*acc);
                    if (n.tip()->GetBlockHash() != base) {
                        std::string l = std::string(acc ? "H" : "V\tC06-tip-moved") + "\t" + (acc ? cases[i].name + "\trollback to the base tip failed" : "tip changed although the block was not connected\t" + cases[i].name) + "\n";
                        (void)!write(fd, l.data(), l.size());
                        break;
                    }
                }
            }
            _exit(0);
        }
        pids.push_back(p);
    }
    for (pid_t p : pids) { int st = 0; waitpid(p, &st, 0); }
    close(fd);
    munmap(sh, sizeof(Shared));
    std::ifstream f(path);
    std::string line;
    std::vector<std::string> lines;
    while (std::getline(f, line)) lines.push_back(line);
    std::sort(lines.begin(), lines.end()); // worker interleaving must not influence anything
    auto split = [](const std::string& s) { std::vector<std::string> p; size_t a = 0; for (;;) { size_t b = s.find('\t', a); p.push_back(s.substr(a, b == std::string::npos ? b : b - a)); if (b == std::string::npos) break; a = b + 1; } return p; };
    std::map<std::string, std::string> begun;
    for (auto& l : lines) { auto p = split(l); if (p[0] == "B" && p.size() >= 3) begun[p[1]] = p[2]; }
    for (auto& l : lines) { auto p = split(l); if ((p[0] == "R" && p.size() >= 3) ) begun.erase(p[2]); if (p[0] == "H" && p.size() >= 2) begun.erase(p[1]); }
    for (auto& [nm, fam] : begun) vx::violation("C06-process-died:" + fam, "the process validating this block died before reporting (abort/assert/crash inside the code under test)", "case: " + nm);
    for (auto& l : lines) {
        if (getenv("VX_DUMP")) printf("%s\n", l.c_str());
        auto p = split(l);
        if (p[0] == "V" && p.size() >= 4) vx::violation(p[1], p[2], "case: " + p[3]);
        else if (p[0] == "H") { printf("HARNESS-ERROR C06 case %s: %s\n", p.size() > 1 ? p[1].c_str() : "?", p.size() > 2 ? p[2].c_str() : "?"); T.harness_error = true; }
        else if (p[0] == "D") vx::ev().exhaustive = false;
        else if (p[0] == "R" && p.size() >= 10) {
            T.cases++;
            bool ok = p[3] == "1";
            (ok ? T.accepts : T.rejects)++;
            auto& fa = T.fam[p[1]];
            (ok ? fa.first : fa.second)++;
            if (!ok) T.reasons_seen.insert(p[8]);
            if (p[1] == "sigops") T.costs.insert(atoll(p[6].c_str()));
            if (p[1] == "weight") T.weights.insert(atoll(p[4].c_str()));
            T.distinct.add(p[1] + "|" + p[2]);
            if (p.size() > 10) T.cpu_ms[p[1]] += atol(p[10].c_str());
            if (T.cases % 37 == 1) vx::ev().sample(p[2] + " -> ref " + (ok ? "accept" : "reject") + " weight=" + p[4] + " stripped=" + p[5] + " sigopcost=" + p[6] + " TBV=" + p[7] + " PNB=" + p[8] + " ntx=" + p[9]);
        }
    }
    unlink(path.c_str());
}

int main(int argc, char** argv)
{
    vx::init(argc, argv, "C06", "exploration", 150, 1500);
    vx::scratch_dir();
    auto& E = vx::ev();
    const bool big = vx::thorough();
    g_fork_per_case = big;
    unsigned workers = std::min<unsigned>(vx::ncpu(), big ? 12 : 8);
    std::string only;
    if (!vx::ctx().replay.empty()) {
        std::ifstream f(vx::ctx().replay);
        std::string line;
        while (std::getline(f, line)) if (line.rfind("case: ", 0) == 0) only = line.substr(6);
        printf("replay of case '%s'\n", only.c_str());
    }
    Totals T;
    uint64_t bip34_heights = 0;

    // ---------------------------------------------------------------- phase A: BIP34 at encoding boundaries (own node, ascending heights)
    {
        ck::NodeOpts o;
        o.check_block_index = false;
        o.min_validation_cache = true; // small process image: cheap fork()
        ck::Node node(o);
        ck::RefLedger L;
        L.AddGenesis(Params().GenesisBlock());
        SetMockTime(Params().GenesisBlock().nTime + 600 * 100000);
        std::vector<int> hs{1, 2, 15, 16, 17, 18, 127, 128, 129, 255, 256, 257};
        if (big) for (int h : {32767, 32768, 32769, 65535, 65536}) hs.push_back(h);
        Pool empty;
        for (int h : hs) {
            if (vx::deadline_reached()) { E.exhaustive = false; break; }
            auto cases = Bip34Cases(h);
            if (!only.empty()) { std::vector<CaseSpec> c2; for (auto& c : cases) if (c.name == only) c2.push_back(c); cases = c2; if (cases.empty()) continue; }
            int need = h - 1 - node.height();
            for (int i = 0; i < need; i++) {
                CBlock b = ck::MakeBlock(node, node.tip(), {});
                if (!node.ProcessBlock(b).pnb_ret || node.tip()->GetBlockHash() != b.GetHash()) throw std::runtime_error("base block rejected");
            }
            if (!only.empty() && !cases.empty()) { RunCase(node, empty, cases[0], 1, true); return 0; }
            RunAll(node, empty, cases, std::min(workers, 4u), T);
            bip34_heights++;
        }
    }
    // ---------------------------------------------------------------- phase B: structure, weight, sigops on a funded base
    {
        ck::NodeOpts o;
        o.min_validation_cache = true;
        ck::Node node(o);
        ck::RefLedger L;
        L.AddGenesis(Params().GenesisBlock());
        SetMockTime(Params().GenesisBlock().nTime + 600 * 100000);
        ck::MineEmpty(node, L, 110);
        std::vector<CaseSpec> cases;
        for (auto& c : CbPosCases()) cases.push_back(c);
        for (auto& c : WeightCases(true)) cases.push_back(c);
        for (auto& c : SigopCases(true)) cases.push_back(c);
        for (auto& c : Bip34Cases(112)) cases.push_back(c);
        // pool = for every scriptPubKey the largest number any single case needs (all cases start from the same base state)
        std::map<Bytes, size_t> need;
        for (auto& c : cases) {
            std::map<Bytes, size_t> cnt;
            for (auto& t : c.txs) for (auto& i : t.ins) cnt[i.spk]++;
            if (c.pad_mode & 2) cnt[SPK_TRUE]++;
            if (c.pad_mode & 1) cnt[SPK_WITV2]++;
            for (auto& [k, x] : cnt) need[k] = std::max(need[k], x);
        }
        Pool pool;
        {
            // funding transactions: each spends one mature base coinbase into <= 400 pool outputs
            std::vector<std::pair<Bytes, size_t>> flat;
            for (auto& [k, x] : need) for (size_t i = 0; i < x; i++) flat.emplace_back(k, i);
            std::vector<CTransactionRef> ftxs;
            auto chain = L.Chain(node.tip()->GetBlockHash());
            size_t cbi = 1;
            for (size_t at = 0; at < flat.size(); at += 400, cbi++) {
                const CBlock& src = L.blocks.at(chain[cbi]).block;
                size_t cnt = std::min<size_t>(400, flat.size() - at);
                CAmount each = 1000000;
                std::vector<ck::TxOut> outs;
                for (size_t j = 0; j < cnt; j++) outs.push_back({each, S(flat[at + j].first)});
                outs.push_back({src.vtx[0]->vout[0].nValue - (CAmount)cnt * each, ck::OpTrueSpk()});
                CMutableTransaction m = ck::MakeTx({{COutPoint(src.vtx[0]->GetHash(), 0)}}, outs);
                auto tx = MakeTransactionRef(m);
                for (size_t j = 0; j < cnt; j++) {
                    COutPoint op(tx->GetHash(), j);
                    pool.by_spk[flat[at + j].first].push_back({op, each});
                    pool.spk_of[op] = flat[at + j].first;
                }
                ftxs.push_back(tx);
            }
            CBlock fb = ck::MakeBlock(node, node.tip(), ftxs);
            auto r = node.ProcessBlock(fb);
            if (!r.pnb_ret || node.tip()->GetBlockHash() != fb.GetHash()) throw std::runtime_error("funding block rejected: " + r.reason);
            E.set("pool_outputs", (uint64_t)flat.size());
        }
        if (const char* fam = getenv("VX_FAMILY")) { std::vector<CaseSpec> c2; for (auto& c : cases) if (c.family == fam) c2.push_back(c); cases = c2; }
        if (!only.empty()) {
            for (auto& c : cases) if (c.name == only) { RunCase(node, pool, c, 1, true); return 0; }
            printf("case not found\n");
            return 2;
        }
        // round-robin over the families, so a deadline cut never removes one family entirely
        {
            std::map<std::string, std::vector<CaseSpec>> byfam;
            for (auto& c : cases) byfam[c.family].push_back(c);
            std::vector<CaseSpec> mixed;
            for (size_t k = 0; mixed.size() < cases.size(); k++)
                for (auto& [f, v] : byfam) if (k < v.size()) mixed.push_back(v[k]);
            cases = mixed;
        }
        RunAll(node, pool, cases, workers, T);
    }

    E.evaluations = T.cases * 2;
    E.distinct_nontrivial = T.distinct.size();
    E.set("cases", T.cases);
    E.set("fork_per_case", (uint64_t)g_fork_per_case);
    E.set("ref_accept", T.accepts);
    E.set("ref_reject", T.rejects);
    E.set("bip34_heights", bip34_heights);
    std::string fams;
    for (auto& [k, pr] : T.fam) fams += k + ":" + std::to_string(pr.first) + "+/" + std::to_string(pr.second) + "- ";
    E.set_str("families_accept_reject", fams);
    E.set_str("reject_reasons_seen", Join(T.reasons_seen));
    E.rule = "one block per case on the fixed base tip, each run in a forked child through TestBlockValidity and ProcessNewBlock (2 evaluations per case); "
             "cases: all coinbase/normal patterns of length 0..4 (+dup coinbase, two-null-input tx); BIP34 push variants at heights around every encoding boundary; "
             "weight 4,000,000+d by witness / non-witness / mixed padding and stripped-size edges; sigop cost around 80,000 for every bulk-source x fine-source pair "
             "(+split over transactions in thorough, + all-sources mix) with uncounted decoys; distinct = distinct (family, case) with a reference verdict; "
             "verdict, admissible reject reason, GetBlockWeight and sum GetTransactionSigOpCost compared with the independent calculator";
    E.assume("regtest consensus parameters (BIP34/segwit/taproot active at the tested heights); all blocks otherwise valid (scripts satisfiable, fees unclaimed)");
    E.assume("the transaction-count clause (vtx.size()*4 <= 4,000,000) is implied by the stripped-size clause (a transaction has >= 60 bytes) and cannot be isolated");
    // sanity gates: a vacuous or mis-constructed run must not pass
    bool bad = T.harness_error;
    if (only.empty() && vx::ev().exhaustive) {
        for (const char* f : {"cbpos", "bip34", "weight", "sigops"})
            if (T.fam[f].first == 0 || T.fam[f].second == 0) { printf("HARNESS-ERROR C06 family %s lacks accepts or rejects\n", f); bad = true; }
        for (const char* r : {"bad-cb-missing", "bad-cb-multiple", "bad-cb-height", "bad-blk-length", "bad-blk-weight", "bad-blk-sigops"})
            if (!T.reasons_seen.count(r)) { printf("HARNESS-ERROR C06 reject reason %s never observed\n", r); bad = true; }
        for (int64_t c : {79996, 79999, 80000, 80001, 80004}) if (!T.costs.count(c)) { printf("HARNESS-ERROR C06 sigop cost %lld never constructed\n", (long long)c); bad = true; }
        for (int64_t w : {3999999, 4000000, 4000001, 4000002, 4000003, 4000004}) if (!T.weights.count(w)) { printf("HARNESS-ERROR C06 weight %lld never constructed\n", (long long)w); bad = true; }
    }
    int rc = vx::finish();
    if (bad && rc == 0) return 2;
    return rc;
}
