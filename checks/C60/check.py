#!/usr/bin/env python3
"""C60 checker: compares what the real CNetAddr/CSubNet/CService code answered (lines printed by the C++
producer) with Python's `ipaddress` module plus a few lines of BIP155 / Tor / I2P encoding rules, and
collects the BanMan model-checking result (CXXVIOL / STATS lines) of the producer."""
import sys, base64, hashlib, ipaddress
sys.path.insert(0, '/verif')
from vx.vxpy import Run

run = Run('C60', 'model_checking')

MAPPED = bytes(10) + b'\xff\xff'
TORV2 = bytes.fromhex('fd87d87eeb43')
INTERNAL = bytes.fromhex('fd6b88c08724')


def classify16(b, v2=False):
    """How a 16 byte legacy/IPv6 payload is interpreted (netaddress.h SetLegacyIPv6 / BIP155 rules)."""
    if b[:12] == MAPPED:
        return ('ipv6', bytes(16)) if v2 else ('ipv4', b[12:])
    if b[:6] == TORV2:
        return ('ipv6', bytes(16))
    if b[:6] == INTERNAL:
        return ('internal', b[6:])
    return ('ipv6', b)


def parse_ip(s):
    """LookupHost(numeric): None when nothing (or only an 'internal' address) results."""
    try:
        a = ipaddress.ip_address(s)
    except ValueError:
        return None
    if a.version == 4:
        return ('ipv4', a.packed)
    k = classify16(a.packed)
    return None if k[0] == 'internal' else k


def addr_valid(kind, b):
    if kind == 'ipv4':
        return b not in (bytes(4), b'\xff' * 4)
    if kind == 'ipv6':
        return b != bytes(16) and b[:4] != bytes.fromhex('20010db8')
    if kind == 'cjdns':
        return b[0] == 0xfc
    if kind == 'internal':
        return False
    return True  # onion, i2p


def ipstr(kind, b):
    if kind == 'ipv4':
        return str(ipaddress.IPv4Address(b))
    return str(ipaddress.IPv6Address(b))


def b32(b, pad=True):
    s = base64.b32encode(b).decode().lower()
    return s if pad else s.rstrip('=')


def addr_str(kind, b):
    if kind in ('ipv4', 'ipv6', 'cjdns'):
        return ipstr('ipv4' if kind == 'ipv4' else 'ipv6', b)
    if kind == 'onion':
        chk = hashlib.sha3_256(b'.onion checksum' + b + b'\x03').digest()[:2]
        return b32(b + chk + b'\x03') + '.onion'
    if kind == 'i2p':
        return b32(b, pad=False) + '.b32.i2p'
    if kind == 'internal':
        return b32(b) + '.internal'
    raise AssertionError(kind)


def contiguous(mask):
    n = int.from_bytes(mask, 'big')
    bits = len(mask) * 8
    inv = (~n) & ((1 << bits) - 1)
    return (inv & (inv + 1)) == 0  # inverted mask must be 0..01..1


def subnet_expect(s):
    """-> None (invalid) or (kind, network bytes, mask bytes)"""
    if '/' in s:
        a, m = s.rsplit('/', 1)
    else:
        a, m = s, None
    pa = parse_ip(a)
    if pa is None:
        return None
    kind, val = pa
    if kind not in ('ipv4', 'ipv6'):
        return None
    nbits = len(val) * 8
    if m is None:
        mask = b'\xff' * len(val)
    elif m.isdigit():
        n = int(m)
        assert n <= 255
        if n > nbits:
            return None
        mask = (((1 << nbits) - 1) ^ ((1 << (nbits - n)) - 1)).to_bytes(len(val), 'big')
    else:
        pm = parse_ip(m)
        if pm is None or pm[0] != kind or not contiguous(pm[1]):
            return None
        mask = pm[1]
    net = bytes(x & y for x, y in zip(val, mask))
    return (kind, net, mask)


def subnet_str(sn):
    kind, net, mask = sn
    return ipstr(kind, net) + '/' + str(bin(int.from_bytes(mask, 'big')).count('1'))


def subnet_match(sn, probe):
    if sn is None:
        return False
    kind, net, mask = sn
    pk, pv = probe
    if pk != kind or not addr_valid(pk, pv):
        return False
    return bytes(x & y for x, y in zip(pv, mask)) == net


def v1_bytes(kind, b):
    return {'ipv4': MAPPED + b, 'ipv6': b, 'internal': INTERNAL + b}.get(kind, bytes(16))


def v2_bytes(kind, b):
    if kind == 'internal':
        return bytes([2, 16]) + INTERNAL + b
    nid = {'ipv4': 1, 'ipv6': 2, 'onion': 4, 'i2p': 5, 'cjdns': 6}[kind]
    return bytes([nid, len(b)]) + b


def string_roundtrips(kind, b):
    if kind == 'internal':
        return False
    if kind == 'cjdns':
        return b[0] == 0xfc
    return True


counts = {}
gates = dict(sub_valid=0, sub_invalid=0, match1=0, match0=0, probe_invalid_addr=0, mapped_probe=0, mask_noncontig=0, v2_throw=0, v2_skip=0)
stats = None
begin = end = False
nlines = 0
cur_addr = None  # (kind, bytes) of the preceding ADDR line, for SVC lines


def bad(key, what, line):
    run.violation(key, what, line)


def expect(cond, key, what, line):
    run.evaluations += 1
    if not cond:
        bad(key, what, line)


def decode_origin(origin, inp):
    if origin == 'str':
        return parse_ip(inp)
    if origin == 'v2':
        raw = bytes.fromhex(inp)
        nid, ln, payload = raw[0], raw[1], raw[2:]
        assert ln == len(payload)
        return ({4: 'onion', 5: 'i2p', 6: 'cjdns'}[nid], payload)
    if origin == 'internal':
        return ('internal', hashlib.sha256(inp.encode()).digest()[:10])
    raise AssertionError(origin)


p = run.spawn()
for raw in p.stdout:
    line = raw.rstrip('\n')
    f = line.split('\t')
    tag = f[0]
    if tag == 'BEGIN':
        begin = True
        continue
    if tag == 'END':
        end = True
        expected_lines = int(f[1])
        continue
    if tag == 'CXXVIOL':
        run.violation(f[1], f[2], f[3].replace('\\n', '\n'))
        continue
    if tag == 'STATS':
        stats = dict(kv.split('=') for kv in f[1:])
        continue
    if tag == 'HARNESS-ERROR' or line.startswith('HARNESS-ERROR'):
        print(line)
        sys.exit(2)
    nlines += 1
    counts[tag] = counts.get(tag, 0) + 1
    if tag in ('SUB', 'SUBM'):
        _, inp, valid, ts, rt, probes = f
        sn = subnet_expect(inp)
        if tag == 'SUBM' and sn is None and '/' in inp:
            pm = parse_ip(inp.rsplit('/', 1)[1])
            if pm and not contiguous(pm[1]):
                gates['mask_noncontig'] += 1
        gates['sub_valid' if sn else 'sub_invalid'] += 1
        expect(valid == ('1' if sn else '0'), 'subnet-valid', f'LookupSubNet({inp!r}).IsValid() == {valid}, reference says {"valid" if sn else "invalid"}', line)
        if sn and valid == '1':
            want = subnet_str(sn)
            expect(ts == want, 'subnet-tostring', f'CSubNet::ToString() of {inp!r} is {ts!r}, reference {want!r}', line)
            back = subnet_expect(want)
            expect(rt == ('1' if back == sn else '0'), 'subnet-string-roundtrip', f'LookupSubNet(ToString()) of {inp!r} ({ts}) round trip flag {rt}', line)
            run.distinct.add(('sub', want))
        for pr in probes.split(';'):
            ps, got = pr.rsplit('=', 1)
            pa = parse_ip(ps)
            if pa is None:
                expect(got == 'x', 'probe-parse', f'address {ps!r} parsed although the reference says it does not resolve to a usable address', line)
                continue
            if got == 'x':
                expect(False, 'probe-parse', f'address {ps!r} did not parse', line)
                continue
            want = subnet_match(sn, pa)
            if sn and not addr_valid(*pa):
                gates['probe_invalid_addr'] += 1
            if sn and ':' in ps and pa[0] == 'ipv4':
                gates['mapped_probe'] += 1
            gates['match1' if want else 'match0'] += 1
            expect(got == ('1' if want else '0'), 'subnet-match-' + ('missed' if want else 'spurious'), f'CSubNet({inp!r}).Match({ps!r}) == {got}, ipaddress reference says {int(want)}', line + '\nprobe ' + ps)
    elif tag == 'ADDRFAIL':
        expect(parse_ip(f[1]) is None, 'addr-parse', f'LookupHost({f[1]!r}) failed but the reference parses it', line)
    elif tag == 'ADDR':
        _, origin, inp, rawnet, ts, rt, v1, v1rt, v2, v2rt, isvalid, v1back = f
        pa = decode_origin(origin, inp)
        if pa is None:
            expect(False, 'addr-parse', f'LookupHost({inp!r}) succeeded but the reference rejects it', line)
            cur_addr = None
            continue
        kind, b = pa
        cur_addr = pa
        expect(rawnet == kind, 'addr-network', f'{inp!r} has network {rawnet}, reference {kind}', line)
        want = addr_str(kind, b)
        expect(ts == want, 'addr-tostring', f'ToStringAddr() of {inp!r} is {ts!r}, reference {want!r}', line)
        expect(rt == str(int(string_roundtrips(kind, b))), 'addr-string-roundtrip', f'parse(ToStringAddr()) round trip of {kind} {inp!r} ({ts}) flag {rt}', line)
        expect(v1 == v1_bytes(kind, b).hex(), 'addr-v1-bytes', f'V1 serialisation of {kind} {ts} is {v1}, reference {v1_bytes(kind, b).hex()}', line)
        v1ok = kind in ('ipv4', 'ipv6', 'internal')
        expect(v1rt == str(int(v1ok)), 'addr-v1-roundtrip', f'V1 round trip of {kind} {ts} flag {v1rt}', line)
        if not v1ok:
            expect(v1back == '::', 'addr-v1-placeholder', f'V1 of {kind} must deserialise to the unroutable placeholder ::, got {v1back}', line)
        expect(v2 == v2_bytes(kind, b).hex(), 'addr-v2-bytes', f'V2 (BIP155) serialisation of {kind} {ts} is {v2}, reference {v2_bytes(kind, b).hex()}', line)
        expect(v2rt == '1', 'addr-v2-roundtrip', f'V2 round trip of {kind} {ts} failed', line)
        expect(isvalid == str(int(addr_valid(kind, b))), 'addr-isvalid', f'IsValid() of {kind} {ts} is {isvalid}', line)
        run.distinct.add(('addr', kind, b))
    elif tag == 'SVC':
        _, origin, inp, port, sp, srt, s1, s2, okc = f
        if cur_addr is None:
            continue
        kind, b = cur_addr
        port = int(port)
        a = addr_str(kind, b)
        want = f'[{a}]:{port}' if kind in ('ipv6', 'cjdns') else f'{a}:{port}'
        expect(sp == want, 'service-tostring', f'ToStringAddrPort() is {sp!r}, reference {want!r}', line)
        expect(srt == str(int(string_roundtrips(kind, b))), 'service-string-roundtrip', f'Lookup(ToStringAddrPort()) round trip of {sp} flag {srt}', line)
        pb = port.to_bytes(2, 'big').hex()
        expect(s1 == v1_bytes(kind, b).hex() + pb and s2 == v2_bytes(kind, b).hex() + pb, 'service-bytes', f'CService serialisation of {sp}: v1={s1} v2={s2}', line)
        expect(okc == '1', 'service-v2-roundtrip', f'CService V2 round trip of {sp} failed', line)
    elif tag == 'SUB1':
        _, ident, rawnet, valid, ts, rt, masked_valid, m_self, m_other, m_v4, back_match = f
        if ident.startswith('internal:'):
            kind, b = 'internal', hashlib.sha256(ident[9:].encode()).digest()[:10]
        else:
            kind, b = decode_origin('v2', ident)
        if kind == 'internal':
            want = ('0', '-', '0', '0', '0', '0', '0', '0')
        else:
            ok = addr_valid(kind, b)
            fc = string_roundtrips(kind, b)
            masked = '1' if (kind == 'cjdns' and not fc) else '0'  # without the fc prefix the text is a plain IPv6 address
            want = ('1', addr_str(kind, b), str(int(fc)), masked, str(int(ok)), '0', '0', str(int(ok and fc)))
        got = (valid, ts, rt, masked_valid, m_self, m_other, m_v4, back_match)
        names = ('valid', 'ToString', 'string round trip', '"/32" accepted', 'Match(self)', 'Match(other of same network)', 'Match(IPv4)', 'parsed-back Match(self)')
        for g, w, n in zip(got, want, names):
            expect(g == w, 'single-host-subnet-' + n.split('(')[0].strip().replace(' ', '-').replace('"', ''), f'single-host subnet of {kind} {ident}: {n} = {g}, reference {w}', line)
        run.distinct.add(('sub1', kind, b))
    elif tag == 'V2DEC':
        _, nid, ln, fill, outcome, rawnet, ts, isvalid, remaining = f
        nid, ln, fill = int(nid), int(ln), int(fill)
        payload = bytes(((0x5a + j) & 255) if fill == 0x5a else fill for j in range(ln))
        sizes = {1: 4, 2: 16, 4: 32, 5: 32, 6: 16}
        if ln > 512:
            want = ('throw',)
        elif nid in sizes and ln != sizes[nid]:
            want = ('throw',)
        elif nid in sizes:
            kind = {1: 'ipv4', 2: 'ipv6', 4: 'onion', 5: 'i2p', 6: 'cjdns'}[nid]
            b = payload
            if nid == 2:
                kind, b = classify16(payload, v2=True)
            want = ('ok', kind, addr_str(kind, b), str(int(addr_valid(kind, b))), '1')
        else:
            want = ('ok', 'ipv6', '::', '0', '1')
            gates['v2_skip'] += 1
        if want[0] == 'throw':
            gates['v2_throw'] += 1
            expect(outcome == 'throw', 'v2-decode-accepts', f'BIP155 address (network id {nid}, {ln} bytes) must be rejected, got {outcome} {rawnet} {ts}', line)
        else:
            expect((outcome, rawnet, ts, isvalid, remaining) == want, 'v2-decode', f'BIP155 address (network id {nid}, {ln} bytes, fill {fill:#x}) decoded as {(outcome, rawnet, ts, isvalid, remaining)}, reference {want}', line)
        run.distinct.add(('v2dec', nid, ln))
    elif tag == 'V2V6':
        _, enc, rawnet, ts, isvalid = f
        kind, b = classify16(bytes.fromhex(enc)[2:], v2=True)
        want = (kind, addr_str(kind, b), str(int(addr_valid(kind, b))))
        expect((rawnet, ts, isvalid) == want, 'v2-ipv6-embedded', f'BIP155 IPv6 payload {enc} decoded as {(rawnet, ts, isvalid)}, reference {want}', line)
    else:
        print('HARNESS-ERROR unknown producer line: ' + line[:100])
        sys.exit(2)
rc = p.wait()
if rc != 0 or not begin or not end or stats is None:
    print(f'HARNESS-ERROR producer failed (rc={rc}, begin={begin}, end={end}, stats={stats is not None})')
    sys.exit(2)
if nlines != expected_lines:
    print(f'HARNESS-ERROR producer printed {expected_lines} cases, checker consumed {nlines}')
    sys.exit(2)
run.states = int(stats['states'])
run.transitions = int(stats['transitions'])
run.traces_validated = int(stats['transitions'])
run.evaluations += int(stats['evals'])
for k in ('boundary', 'expired', 'banned_true', 'banned_false', 'disc_true', 'restart_kept', 'unban_true', 'unban_false'):
    gates['banman_' + k] = int(stats[k])
missing = [k for k, v in gates.items() if v == 0]
if missing and not run.violations:
    print('HARNESS-ERROR outcome classes never occurred: ' + ', '.join(missing))
    sys.exit(2)
run.extra['max_depth'] = int(stats['depth'])
run.extra['fixpoint'] = stats['fixpoint'] == '1'
run.extra['banman_ops'] = int(stats['ops'])
run.extra['case_lines'] = counts
run.extra['outcome_classes'] = gates
run.sample(f"subnets: {counts.get('SUB', 0)} CIDR + {counts.get('SUBM', 0)} netmask-form inputs, {gates['match1']} matching / {gates['match0']} non-matching probes vs ipaddress")
run.sample(f"addresses: {counts.get('ADDR', 0)} addresses x (string, V1, V2) + {counts.get('SVC', 0)} services; BIP155 decode table {counts.get('V2DEC', 0)} cases")
run.sample(f"banman: depth {stats['depth']} over {stats['ops']} operations: states={stats['states']} transitions={stats['transitions']}, queries at expiry boundary={stats['boundary']}")
run.assumptions.append('getaddrinfo(AI_NUMERICHOST) of the C library parses the generated textual addresses (full dotted quads / 8-group hex) like Python ipaddress')
run.assumptions.append('BanMan discouragement filter runs with a fixed tweak (set through private access) so that its false positives are deterministic')
sys.exit(run.finish(
    rule='exploration: every prefix length 0..32 / 0..128 (+ out-of-range) x base patterns x probes (base with each single bit flipped, equal, embedded/mapped forms); every contiguous netmask and every mask one bit away from one; '
         'addresses: all 256 zero/non-zero group patterns of IPv6 text form, walking-one addresses, Tor/I2P/CJDNS/internal; BIP155 id x length table. '
         'model checking: BanMan histories over the operation alphabet explored breadth-first by replay with canonical-state merging; every query compared with a reference ban list after every transition. '
         'distinct = distinct subnets / addresses / decode cases',
    exhaustive=stats['exhaustive'] == '1'))
