LINK := full
