// C60 — Addresses, subnets and bans are matched exactly.
// Producer for checks/C60/check.py: part (1) prints what the real CNetAddr/CSubNet/CService code answers for an
// enumerated input space, one case per line; Python's `ipaddress` + a few lines of BIP155 are the reference.
// Part (2) model-checks BanMan by history replay against a std::map reference (in C++), reporting violations as
// CXXVIOL lines and counters as a STATS line.  This binary never writes evidence itself.
#include <vx/vx.h>

#include <banman.h>
#include <logging.h>
#include <netaddress.h>
#include <netbase.h>
#include <streams.h>
#include <util/fs.h>
#include <util/time.h>

#include <arpa/inet.h>

using Bytes = std::vector<unsigned char>;

static std::string esc(std::string s)
{
    std::string o;
    for (char c : s) { if (c == '\n') o += "\\n"; else if (c == '\t') o += ' '; else o += c; }
    return o;
}
static uint64_t g_cxx_viol = 0, g_lines = 0;
static std::set<std::string> g_viol_keys;
static void cxx_violation(const std::string& key, const std::string& what, const std::string& replay)
{
    if (!g_viol_keys.insert(key).second) return;
    g_cxx_viol++;
    printf("CXXVIOL\t%s\t%s\t%s\n", esc(key).c_str(), esc(what).c_str(), esc(replay).c_str());
}

static std::string v4str(uint32_t a) { char b[32]; snprintf(b, sizeof b, "%u.%u.%u.%u", a >> 24, (a >> 16) & 255, (a >> 8) & 255, a & 255); return b; }
using A16 = std::array<uint8_t, 16>;
static std::string v6str(const A16& a)
{
    std::string s;
    char b[8];
    for (int g = 0; g < 8; g++) { snprintf(b, sizeof b, "%s%x", g ? ":" : "", (a[2 * g] << 8) | a[2 * g + 1]); s += b; }
    return s;
}
static A16 a16(std::initializer_list<int> head, int fill = 0)
{
    A16 a;
    a.fill((uint8_t)fill);
    int i = 0;
    for (int v : head) a[i++] = (uint8_t)v;
    return a;
}
static A16 flip(A16 a, int bit) { a[bit / 8] ^= 0x80 >> (bit % 8); return a; }

static std::optional<CNetAddr> parse_addr(const std::string& s)
{
    auto a = LookupHost(s, /*fAllowLookup=*/false);
    if (!a) return std::nullopt;
    return static_cast<CNetAddr>(MaybeFlipIPv6toCJDNS(CService{*a, 0}));
}

static void emit_subnet(const char* tag, const std::string& input, const std::vector<std::string>& probes)
{
    CSubNet sn = LookupSubNet(input);
    std::string ts = sn.IsValid() ? sn.ToString() : "-";
    bool rt = false;
    if (sn.IsValid()) { CSubNet back = LookupSubNet(ts); rt = back.IsValid() && back == sn && !(back < sn) && !(sn < back); }
    std::string line = std::string(tag) + "\t" + input + "\t" + (sn.IsValid() ? "1" : "0") + "\t" + ts + "\t" + (rt ? "1" : "0") + "\t";
    bool first = true;
    for (auto& p : probes) {
        auto a = parse_addr(p);
        if (!first) line += ";";
        first = false;
        line += p + "=" + (!a ? "x" : sn.Match(*a) ? "1" : "0");
    }
    puts(line.c_str());
    g_lines++;
}

template <typename T>
static Bytes ser(const T& obj, CNetAddr::SerParams p)
{
    DataStream s;
    s << p(obj);
    return Bytes(UCharCast(s.data()), UCharCast(s.data()) + s.size());
}

static const char* netname(Network n)
{
    switch (n) {
    case NET_UNROUTABLE: return "unroutable"; case NET_IPV4: return "ipv4"; case NET_IPV6: return "ipv6"; case NET_ONION: return "onion";
    case NET_I2P: return "i2p"; case NET_CJDNS: return "cjdns"; case NET_INTERNAL: return "internal"; case NET_MAX: return "max";
    }
    return "?";
}
static const char* rawnet(const CNetAddr& a)
{
    return a.IsIPv4() ? "ipv4" : a.IsIPv6() ? "ipv6" : a.IsTor() ? "onion" : a.IsI2P() ? "i2p" : a.IsCJDNS() ? "cjdns" : a.IsInternal() ? "internal" : "?";
}

// ADDR <origin> <input> <rawnet> <ToStringAddr> <string round trip> <v1 hex> <v1 round trip> <v2 hex> <v2 round trip> <IsValid>
static void emit_addr(const std::string& origin, const std::string& input, const CNetAddr& a)
{
    std::string ts = a.ToStringAddr();
    auto back = parse_addr(ts);
    bool rt = back && *back == a;
    Bytes v1 = ser(a, CNetAddr::V1), v2 = ser(a, CNetAddr::V2);
    CNetAddr b1, b2;
    bool ok1 = true, ok2 = true;
    try { DataStream s{v1}; s >> CNetAddr::V1(b1); ok1 = s.empty(); } catch (const std::exception&) { ok1 = false; }
    try { DataStream s{v2}; s >> CNetAddr::V2(b2); ok2 = s.empty(); } catch (const std::exception&) { ok2 = false; }
    g_lines += 5;
    printf("ADDR\t%s\t%s\t%s\t%s\t%d\t%s\t%d\t%s\t%d\t%d\t%s\n", origin.c_str(), input.c_str(), rawnet(a), ts.c_str(), rt, vx::hex(v1).c_str(), ok1 && b1 == a, vx::hex(v2).c_str(), ok2 && b2 == a,
           a.IsValid(), ok1 ? b1.ToStringAddr().c_str() : "throw");
    // CService: string with port, and both serialisations carry the port big-endian after the address
    for (uint16_t port : {(uint16_t)0, (uint16_t)1, (uint16_t)8333, (uint16_t)65535}) {
        CService svc(a, port);
        std::string sp = svc.ToStringAddrPort();
        auto l = Lookup(sp, /*portDefault=*/7, /*fAllowLookup=*/false);
        bool srt = l && MaybeFlipIPv6toCJDNS(*l) == svc && l->GetPort() == port;
        Bytes s2 = ser(svc, CNetAddr::V2), s1 = ser(svc, CNetAddr::V1);
        CService c2;
        bool okc = true;
        try { DataStream s{s2}; s >> CNetAddr::V2(c2); okc = s.empty() && c2 == svc && c2.GetPort() == port; } catch (const std::exception&) { okc = false; }
        printf("SVC\t%s\t%s\t%u\t%s\t%d\t%s\t%s\t%d\n", origin.c_str(), input.c_str(), port, sp.c_str(), srt, vx::hex(s1).c_str(), vx::hex(s2).c_str(), okc);
    }
}

static CNetAddr from_v2(uint8_t netid, const Bytes& payload)
{
    Bytes enc{netid, (unsigned char)payload.size()};
    enc.insert(enc.end(), payload.begin(), payload.end());
    DataStream s{enc};
    CNetAddr a;
    s >> CNetAddr::V2(a);
    return a;
}

static void part_enum(bool big)
{
    // ---------------- IPv4 CIDR subnets: every prefix length x base patterns x probes (each single bit flipped + equal + embedded forms)
    std::vector<uint32_t> b4 = {0x00000000u, 0xffffffffu, 0xaa55aa55u, 0x55aa55aau, 0x01020304u, 0x80000001u, 0x7ffffffeu, 0x0a0000ffu};
    if (big) { b4.push_back(0xc0a80101u); b4.push_back(0x00ff00ffu); b4.push_back(0xfffffffeu); b4.push_back(0x00000001u); }
    for (uint32_t base : b4) {
        std::vector<std::string> probes;
        probes.push_back(v4str(base));
        for (int bit = 0; bit < 32; bit++) probes.push_back(v4str(base ^ (0x80000000u >> bit)));
        probes.push_back("0.0.0.0");
        probes.push_back("255.255.255.255");
        probes.push_back("::ffff:" + v4str(base));                                       // IPv4-mapped: is the IPv4 address
        probes.push_back("::ffff:" + v4str(base ^ 1));
        { A16 x = a16({0x20, 0x02, (int)(base >> 24), (int)(base >> 16 & 255), (int)(base >> 8 & 255), (int)(base & 255)}); probes.push_back(v6str(x)); }   // 6to4
        { A16 x = a16({0x00, 0x64, 0xff, 0x9b}); x[12] = base >> 24; x[13] = base >> 16; x[14] = base >> 8; x[15] = base; probes.push_back(v6str(x)); }     // NAT64
        { A16 x = a16({0x20, 0x01, 0x00, 0x00}); uint32_t nb = ~base; x[12] = nb >> 24; x[13] = nb >> 16; x[14] = nb >> 8; x[15] = nb; probes.push_back(v6str(x)); } // Teredo
        { A16 x = a16({}); x[12] = base >> 24; x[13] = base >> 16; x[14] = base >> 8; x[15] = base; probes.push_back(v6str(x)); }                          // IPv4-compatible (deprecated)
        for (int plen = 0; plen <= 32; plen++) emit_subnet("SUB", v4str(base) + "/" + std::to_string(plen), probes);
        for (int plen : {33, 64, 128, 255}) emit_subnet("SUB", v4str(base) + "/" + std::to_string(plen), probes);
        emit_subnet("SUB", v4str(base), probes); // single host
        // the mapped form as the subnet's address
        for (int plen : {0, 8, 24, 31, 32, 33, 96, 120, 128}) emit_subnet("SUB", "::ffff:" + v4str(base) + "/" + std::to_string(plen), probes);
    }
    // ---------------- IPv6 CIDR subnets
    std::vector<A16> b6 = {
        a16({}), a16({}, 0xff), a16({0xaa, 0x55, 0xaa, 0x55, 0xaa, 0x55, 0xaa, 0x55, 0xaa, 0x55, 0xaa, 0x55, 0xaa, 0x55, 0xaa, 0x55}),
        a16({0x20, 0x01, 0x0d, 0xb8, 0xff, 0xff}), /* documentation range: invalid addresses */
        a16({0x20, 0x01, 0x04, 0x70, 0x12, 0x34, 0, 0, 0, 0, 0, 0, 0, 0, 0, 0x01}),
        a16({0xfe, 0x80, 0, 0, 0, 0, 0, 0, 0x02, 0x11, 0x22, 0xff, 0xfe, 0x33, 0x44, 0x55}),
        a16({0xfc, 0x00, 0, 0, 0, 0, 0, 0, 0, 0, 0, 0, 0, 0, 0, 0x01}),
        a16({0x00, 0x64, 0xff, 0x9b, 0, 0, 0, 0, 0, 0, 0, 0, 1, 2, 3, 4}),
        a16({0x20, 0x02, 1, 2, 3, 4}),
        a16({0xfd, 0x6b, 0x88, 0xc0, 0x87, 0x24, 1, 2, 3, 4, 5, 6, 7, 8, 9, 10}),   /* internal prefix */
        a16({0xfd, 0x87, 0xd8, 0x7e, 0xeb, 0x43, 1, 2, 3, 4, 5, 6, 7, 8, 9, 10}),   /* torv2 prefix */
        a16({0, 0, 0, 0, 0, 0, 0, 0, 0, 0, 0xff, 0xfe, 1, 2, 3, 4}),                /* one bit away from the mapped prefix */
    };
    if (big) { b6.push_back(a16({0x55, 0xaa, 0x55, 0xaa, 0x55, 0xaa, 0x55, 0xaa, 0x55, 0xaa, 0x55, 0xaa, 0x55, 0xaa, 0x55, 0xaa})); b6.push_back(a16({0x7f}, 0xff)); b6.push_back(a16({0x80})); b6.push_back(a16({0, 0, 0, 0, 0, 0, 0, 0, 0, 0, 0, 0, 0, 0, 0, 1})); }
    for (const A16& base : b6) {
        std::vector<std::string> probes;
        probes.push_back(v6str(base));
        for (int bit = 0; bit < 128; bit++) probes.push_back(v6str(flip(base, bit)));
        probes.push_back("::");
        probes.push_back("1.2.3.4");
        probes.push_back(v4str((uint32_t)base[12] << 24 | base[13] << 16 | base[14] << 8 | base[15]));
        for (int plen = 0; plen <= 128; plen++) emit_subnet("SUB", v6str(base) + "/" + std::to_string(plen), probes);
        for (int plen : {129, 200, 255}) emit_subnet("SUB", v6str(base) + "/" + std::to_string(plen), probes);
        emit_subnet("SUB", v6str(base), probes);
    }
    // ---------------- netmask form: every contiguous mask and every mask one bit away from it
    {
        const uint32_t bases[] = {0xaa55aa55u, 0x01020304u};
        for (uint32_t base : bases)
            for (int k = 0; k <= 32; k++) {
                uint32_t mask = k == 0 ? 0 : 0xffffffffu << (32 - k);
                for (int f = -1; f < 32; f++) {
                    uint32_t m = f < 0 ? mask : mask ^ (0x80000000u >> f);
                    std::vector<std::string> probes = {v4str(base), v4str(base ^ 1), v4str(base ^ 0x80000000u), v4str(base ^ (k ? 0x80000000u >> (k - 1) : 0)), v4str(base ^ (k < 32 ? 0x80000000u >> k : 0))};
                    emit_subnet("SUBM", v4str(base) + "/" + v4str(m), probes);
                }
            }
        const A16 base6 = a16({0x20, 0x01, 0x04, 0x70, 0xaa, 0x55, 0xaa, 0x55, 0xaa, 0x55, 0xaa, 0x55, 0xaa, 0x55, 0xaa, 0x55});
        for (int k = 0; k <= 128; k++) {
            A16 mask = a16({});
            for (int i = 0; i < k; i++) mask[i / 8] |= 0x80 >> (i % 8);
            for (int f = -1; f < 128; f++) {
                if (!big && f >= 0 && (f > k + 9 || f < k - 10) && f % 16 != 3) continue; // quick: flips near the boundary + every 16th
                A16 m = f < 0 ? mask : flip(mask, f);
                std::vector<std::string> probes = {v6str(base6), v6str(flip(base6, 127)), v6str(flip(base6, 0)), v6str(flip(base6, k ? k - 1 : 0)), v6str(flip(base6, k < 128 ? k : 127))};
                emit_subnet("SUBM", v6str(base6) + "/" + v6str(m), probes);
            }
        }
        emit_subnet("SUBM", "1.2.3.4/ffff:ffff::", {"1.2.3.4"});
        emit_subnet("SUBM", v6str(base6) + "/255.255.0.0", {v6str(base6)});
        emit_subnet("SUBM", "1.2.3.4/::ffff:255.255.255.0", {"1.2.3.4", "1.2.3.77", "1.2.4.4"}); // mapped mask is an IPv4 mask
    }
    // ---------------- addresses of every kind: string round trip, V1/V2 serialisation
    std::vector<std::pair<std::string, CNetAddr>> special; // (v2 hex, addr) for single-host subnets below
    {
        std::vector<uint32_t> a4 = {0, 0xffffffffu, 0x01020304u, 0x7f000001u, 0x0a000001u, 0xc0a80001u, 0xa9fe0101u, 0xc6120001u, 0x64400001u, 0xc0000201u, 0x08080808u, 0xfa010203u};
        for (int bit = 0; bit < 32; bit++) a4.push_back(0x80000000u >> bit);
        for (uint32_t a : a4) { auto p = parse_addr(v4str(a)); if (p) emit_addr("str", v4str(a), *p); else { g_lines++; printf("ADDRFAIL\t%s\n", v4str(a).c_str()); } }
        // IPv6: every pattern of zero / non-zero 16-bit groups (RFC 5952 compression) x group values
        const int gvals[] = {0x0001, 0xffff, 0x0a0b, 0x0100};
        for (int gv = 0; gv < (big ? 4 : 2); gv++)
            for (int pat = 0; pat < 256; pat++) {
                A16 a = a16({});
                for (int g = 0; g < 8; g++) if (pat >> g & 1) { a[2 * g] = gvals[gv] >> 8; a[2 * g + 1] = gvals[gv] & 255; }
                auto p = parse_addr(v6str(a));
                if (p) emit_addr("str", v6str(a), *p); else { g_lines++; printf("ADDRFAIL\t%s\n", v6str(a).c_str()); }
            }
        for (int bit = 0; bit < 128; bit++) { A16 a = flip(a16({}), bit); auto p = parse_addr(v6str(a)); if (p) emit_addr("str", v6str(a), *p); else { g_lines++; printf("ADDRFAIL\t%s\n", v6str(a).c_str()); } }
        for (const A16& a : b6) { auto p = parse_addr(v6str(a)); if (p) emit_addr("str", v6str(a), *p); else { g_lines++; printf("ADDRFAIL\t%s\n", v6str(a).c_str()); } }
        // Tor v3 / I2P / CJDNS from BIP155 bytes, internal from a name
        g_reachable_nets.Add(NET_CJDNS); // as with -cjdnsreachable: fc00::/8 strings parse back as CJDNS
        for (int i = 0; i < (big ? 24 : 8); i++) {
            Bytes k(32);
            for (int j = 0; j < 32; j++) k[j] = (unsigned char)(i == 0 ? 0 : i == 1 ? 0xff : (i * 73 + j * 31 + (j * j) % 7));
            for (uint8_t id : {(uint8_t)4, (uint8_t)5}) {
                CNetAddr a = from_v2(id, k);
                Bytes enc{id, 32};
                enc.insert(enc.end(), k.begin(), k.end());
                emit_addr("v2", vx::hex(enc), a);
                special.emplace_back(vx::hex(enc), a);
            }
            Bytes c(16);
            for (int j = 0; j < 16; j++) c[j] = (unsigned char)(i * 41 + j * 17);
            c[0] = 0xfc;
            if (i == 1) c[0] = 0xfd; // CJDNS net id without the fc prefix: parses, but is not valid
            CNetAddr a = from_v2(6, c);
            Bytes enc{6, 16};
            enc.insert(enc.end(), c.begin(), c.end());
            emit_addr("v2", vx::hex(enc), a);
            special.emplace_back(vx::hex(enc), a);
            CNetAddr in;
            std::string name = "seed" + std::to_string(i) + ".example.org";
            in.SetInternal(name);
            emit_addr("internal", name, in);
            special.emplace_back("internal:" + name, in);
        }
    }
    // ---------------- single-host subnets of the non-IP kinds
    for (size_t i = 0; i < special.size(); i++) {
        const CNetAddr& a = special[i].second;
        CSubNet sn(a);
        std::string ts = sn.IsValid() ? sn.ToString() : "-";
        CSubNet back = LookupSubNet(a.ToStringAddr());
        bool rt = sn.IsValid() && back.IsValid() && back == sn;
        CSubNet masked = LookupSubNet(a.ToStringAddr() + "/32");
        const CNetAddr& other = special[(i + 4) % special.size()].second;
        CNetAddr v4 = *parse_addr("1.2.3.4");
        g_lines++;
        printf("SUB1\t%s\t%s\t%d\t%s\t%d\t%d\t%d\t%d\t%d\t%d\n", special[i].first.c_str(), rawnet(a), sn.IsValid(), ts.c_str(), rt, masked.IsValid(), sn.Match(a), sn.Match(other), sn.Match(v4), back.IsValid() && back.Match(a));
    }
    g_reachable_nets.Remove(NET_CJDNS);
    // ---------------- BIP155 decoding table: every network id 0..8,255 x payload lengths
    {
        const int lens[] = {0, 1, 4, 5, 10, 15, 16, 17, 31, 32, 33, 64, 512, 513};
        for (int id : {0, 1, 2, 3, 4, 5, 6, 7, 8, 255})
            for (int len : lens)
                for (int fillv : {0x00, 0xfc, 0x5a}) {
                    Bytes enc{(unsigned char)id};
                    if (len < 253) enc.push_back(len); else { enc.push_back(253); enc.push_back(len & 255); enc.push_back(len >> 8); }
                    for (int j = 0; j < len; j++) enc.push_back((unsigned char)(fillv == 0x5a ? 0x5a + j : fillv));
                    enc.push_back(0xee); // one trailing byte that must stay unread
                    DataStream s{enc};
                    CNetAddr a;
                    std::string outcome = "ok";
                    try { s >> CNetAddr::V2(a); } catch (const std::ios_base::failure&) { outcome = "throw"; }
                    g_lines++;
                    printf("V2DEC\t%d\t%d\t%d\t%s\t%s\t%s\t%d\t%zu\n", id, len, fillv, outcome.c_str(), outcome == "ok" ? rawnet(a) : "-", outcome == "ok" ? a.ToStringAddr().c_str() : "-", outcome == "ok" ? a.IsValid() : 0, s.size());
                }
        // IPv6 payloads with embedded-network prefixes must not come out as those networks (BIP155) except internal
        for (const A16& a : b6) {
            Bytes enc{2, 16};
            enc.insert(enc.end(), a.begin(), a.end());
            DataStream s{enc};
            CNetAddr x;
            s >> CNetAddr::V2(x);
            g_lines++;
            printf("V2V6\t%s\t%s\t%s\t%d\n", vx::hex(enc).c_str(), rawnet(x), x.ToStringAddr().c_str(), x.IsValid());
        }
        Bytes m{2, 16, 0, 0, 0, 0, 0, 0, 0, 0, 0, 0, 0xff, 0xff, 1, 2, 3, 4};
        DataStream s{m};
        CNetAddr x;
        s >> CNetAddr::V2(x);
        g_lines++;
        printf("V2V6\t%s\t%s\t%s\t%d\n", vx::hex(m).c_str(), rawnet(x), x.ToStringAddr().c_str(), x.IsValid());
    }
    (void)netname;
}

// ================================================================================================ BanMan model checking
namespace bm {
struct Target { std::string name; bool is_subnet; CNetAddr addr; CSubNet sub; };
static std::vector<Target> T; // a1 a2 a3 s24 s0
static std::vector<CNetAddr> Q; // query addresses: a1 a2 a3 a4(in /24, never banned directly)
static const int64_t T0 = 1700000000;
static const int64_t DEFAULT_BAN = 5;

struct Op { int kind; int tgt; int arg; std::string name; }; // kind 0 ban,1 unban,2 clock,3 getbanned,4 discourage,5 clear,6 restart
static std::vector<Op> OPS;

struct Model {
    int64_t now = T0;
    std::map<int, int64_t> ban; // target -> until (never swept: expired entries are simply invisible)
    std::set<int> disc;          // query-address indices
};

static fs::path g_file;

// does target t (as a subnet) cover query address q?   hand-written truth table
static bool covers(int t, int q)
{
    switch (t) {
    case 0: return q == 0;            // a1
    case 1: return q == 1;            // a2
    case 2: return q == 2;            // a3 (IPv6)
    case 3: return q == 0 || q == 3;  // 1.2.3.0/24 covers a1, a4
    case 4: return q == 0 || q == 1 || q == 3; // 0.0.0.0/0 covers every IPv4 address
    }
    return false;
}

struct Result { std::string key; bool ok = true; };

static std::string hist_str(const std::vector<uint8_t>& h)
{
    std::string s;
    for (uint8_t o : h) s += OPS[o].name + "\n";
    return s;
}

static uint64_t g_evals = 0, g_boundary = 0, g_expired_seen = 0, g_banned_true = 0, g_banned_false = 0, g_disc_true = 0, g_restart_kept = 0, g_unban_true = 0, g_unban_false = 0;

// Replays `h` on a fresh BanMan + fresh model; checks every query after the *last* step (earlier steps were checked
// when the prefix was explored) unless check_all.
static Result run(const std::vector<uint8_t>& h, bool check_all)
{
    Result res;
    std::error_code ec;
    std::filesystem::remove(fs::path(g_file + ".json"), ec);
    SetMockTime(T0);
    Model m;
    auto mk = [&] {
        auto b = std::make_unique<BanMan>(g_file, nullptr, DEFAULT_BAN);
        b->m_discouraged.nTweak = 0x5bd1e995; // fixed tweak: the discouragement filter is probabilistic; its data is all-zero here
        return b;
    };
    auto bmn = mk();
    auto fail = [&](const std::string& key, const std::string& what) {
        res.ok = false;
        cxx_violation(key, what + " after history: " + esc(hist_str(h)), "part banman\n" + hist_str(h));
    };
    for (size_t step = 0; step < h.size(); step++) {
        const Op& op = OPS[h[step]];
        const bool last = step + 1 == h.size();
        switch (op.kind) {
        case 0: {
            int64_t off = op.arg == 0 ? 1 : op.arg == 1 ? 10 : op.arg == 2 ? T0 + 3 : 0;
            bool abs = op.arg == 2;
            if (T[op.tgt].is_subnet) bmn->Ban(T[op.tgt].sub, off, abs); else bmn->Ban(T[op.tgt].addr, off, abs);
            int64_t until = abs ? T0 + 3 : m.now + (op.arg == 3 ? DEFAULT_BAN : off);
            auto it = m.ban.find(op.tgt);
            // a ban never shortens an existing, longer one. An expired leftover may or may not have been swept by the
            // implementation; both give the same visible answers (the new ban is later than any expired one, or is itself expired).
            if (it == m.ban.end() || it->second < until) m.ban[op.tgt] = until;
            break;
        }
        case 1: {
            bool r = T[op.tgt].is_subnet ? bmn->Unban(T[op.tgt].sub) : bmn->Unban(T[op.tgt].addr);
            auto it = m.ban.find(op.tgt);
            if (last || check_all) {
                g_evals++;
                if (it == m.ban.end()) { g_unban_false++; if (r) fail("banman-unban-result", "Unban(" + T[op.tgt].name + ") returned true although it was never banned / already unbanned"); }
                else if (m.now <= it->second) { g_unban_true++; if (!r) fail("banman-unban-result", "Unban(" + T[op.tgt].name + ") returned false although an unexpired ban existed"); }
                // expired leftovers: either answer (swept or not) is fine
            }
            if (it != m.ban.end()) m.ban.erase(it);
            break;
        }
        case 2: m.now += op.arg; SetMockTime(m.now); break;
        case 3: {
            banmap_t got;
            bmn->GetBanned(got);
            if (last || check_all) {
                g_evals++;
                // must list every unexpired ban (now < until), may list those expiring exactly now, nothing else
                std::map<std::string, int64_t> gotm;
                for (auto& [sn, e] : got) gotm[sn.ToString()] = e.nBanUntil;
                for (auto& [t, until] : m.ban) {
                    std::string name = T[t].sub.ToString();
                    auto it = gotm.find(name);
                    if (m.now < until) {
                        if (it == gotm.end()) fail("banman-getbanned-missing", "GetBanned misses the unexpired ban of " + T[t].name);
                        else if (it->second != until) fail("banman-getbanned-until", "GetBanned reports a wrong expiry for " + T[t].name + ": " + std::to_string(it->second - T0) + " want " + std::to_string(until - T0) + " (relative to start)");
                    } else if (m.now > until && it != gotm.end()) fail("banman-getbanned-expired", "GetBanned lists the expired ban of " + T[t].name);
                    if (it != gotm.end()) gotm.erase(it);
                }
                if (!gotm.empty()) fail("banman-getbanned-extra", "GetBanned lists " + gotm.begin()->first + " which is not banned");
            }
            break;
        }
        case 4: bmn->Discourage(Q[op.tgt]); m.disc.insert(op.tgt); break;
        case 5: bmn->ClearBanned(); m.ban.clear(); break;
        case 6: {
            size_t live = 0;
            for (auto& [t, until] : m.ban) if (m.now < until) live++;
            bmn.reset(); // destructor dumps
            bmn = mk();  // constructor loads
            m.disc.clear(); // discouragement is not persisted
            if (live) g_restart_kept++;
            break;
        }
        }
        if (!(last || check_all)) continue;
        // ---- queries
        for (size_t q = 0; q < Q.size(); q++) {
            bool want = false, boundary = false;
            for (auto& [t, until] : m.ban) if (covers(t, (int)q)) { if (m.now < until) want = true; else if (m.now == until) boundary = true; else g_expired_seen++; }
            bool got = bmn->IsBanned(Q[q]);
            g_evals++;
            if (boundary && !want) g_boundary++;
            (want ? g_banned_true : g_banned_false)++;
            if (got != want) fail(std::string("banman-isbanned-addr-") + (want ? "missed" : "spurious"), "IsBanned(address " + Q[q].ToStringAddr() + ") == " + (got ? "true" : "false") + " but the reference ban list says " + (want ? "banned" : "not banned") + (boundary ? " (a covering ban expires exactly now)" : ""));
            bool dwant = m.disc.count((int)q);
            bool dgot = bmn->IsDiscouraged(Q[q]);
            g_evals++;
            if (dwant) g_disc_true++;
            if (dgot != dwant) fail(std::string("banman-discouraged-") + (dwant ? "missed" : "spurious"), "IsDiscouraged(" + Q[q].ToStringAddr() + ") == " + (dgot ? "true" : "false") + " but reference says " + (dwant ? "discouraged" : "not discouraged"));
        }
        for (size_t t = 0; t < T.size(); t++) {
            auto it = m.ban.find((int)t);
            bool want = it != m.ban.end() && m.now < it->second;
            bool got = bmn->IsBanned(T[t].sub);
            g_evals++;
            if (got != want) fail(std::string("banman-isbanned-subnet-") + (want ? "missed" : "spurious"), "IsBanned(subnet " + T[t].sub.ToString() + ") == " + (got ? "true" : "false") + " but the reference ban list says " + (want ? "banned" : "not banned"));
        }
    }
    // canonical key: clock, reference model, and the implementation's own list (private, key only) + dirty flag
    std::string k = "t" + std::to_string(m.now - T0) + "|";
    for (auto& [t, until] : m.ban) k += std::to_string(t) + ":" + std::to_string(until - T0) + ",";
    k += "|d";
    for (int q : m.disc) k += std::to_string(q);
    k += "|";
    {
        LOCK(bmn->m_banned_mutex);
        for (auto& [sn, e] : bmn->m_banned) k += sn.ToString() + ":" + std::to_string(e.nBanUntil - T0) + ",";
        k += bmn->m_is_dirty ? "|D" : "|c";
    }
    res.key = k;
    return res;
}

static void explore(bool big)
{
    T.push_back({"a1=1.2.3.4", false, *parse_addr("1.2.3.4"), {}});
    T.push_back({"a2=1.2.4.4", false, *parse_addr("1.2.4.4"), {}});
    T.push_back({"a3=2001:470::1", false, *parse_addr("2001:470::1"), {}});
    T.push_back({"s24=1.2.3.0/24", true, {}, LookupSubNet("1.2.3.0/24")});
    T.push_back({"s0=0.0.0.0/0", true, {}, LookupSubNet("0.0.0.0/0")});
    for (auto& t : T) if (!t.is_subnet) t.sub = CSubNet(t.addr);
    Q = {T[0].addr, T[1].addr, T[2].addr, *parse_addr("1.2.3.99")};
    const char* untils[] = {"+1s", "+10s", "abs(start+3s)", "default(5s)"};
    for (int t = 0; t < 5; t++) for (int u = 0; u < 4; u++) OPS.push_back({0, t, u, "Ban(" + T[t].name + ", " + untils[u] + ")"});
    for (int t = 0; t < 5; t++) OPS.push_back({1, t, 0, "Unban(" + T[t].name + ")"});
    OPS.push_back({2, 0, 1, "clock+1s"});
    OPS.push_back({2, 0, 10, "clock+10s"});
    OPS.push_back({3, 0, 0, "GetBanned"});
    OPS.push_back({4, 0, 0, "Discourage(a1)"});
    OPS.push_back({4, 2, 0, "Discourage(a3)"});
    OPS.push_back({5, 0, 0, "ClearBanned"});
    OPS.push_back({6, 0, 0, "restart(dump,load)"});

    // The ban list is rewritten (truncate + write + close) by almost every operation; on ext4 that forces a
    // synchronous flush per rewrite. Prefer a RAM-backed private directory; fall back to the build scratch dir.
    const char* vb = getenv("VERIF_BUILD");
    fs::path dir = fs::PathFromString("/dev/shm/verif-c60-" + std::to_string(getpid()));
    {
        std::error_code ec;
        std::filesystem::create_directories(dir, ec);
        if (ec) { dir = fs::PathFromString(std::string(vb ? vb : "/verif/build") + "/scratch/" + std::to_string(getpid())); fs::create_directories(dir); }
    }
    g_file = dir / "c60_banlist";

    const int max_depth = big ? 6 : 4;
    uint64_t states = 0, transitions = 0;
    std::unordered_set<std::string> seen;
    std::vector<std::vector<uint8_t>> frontier{{}};
    {
        Result r0 = run({}, true);
        seen.insert(r0.key);
        states = 1;
        // canon-on-replay determinism
        std::vector<uint8_t> h = {0, 21, 25, 13, 26, 31, 25};
        Result a = run(h, true), b = run(h, true);
        if (a.key != b.key) { printf("HARNESS-ERROR banman replay is not deterministic\n"); exit(2); }
    }
    int completed = 0;
    bool exhaustive = true;
    for (int depth = 1; depth <= max_depth; depth++) {
        std::vector<std::vector<uint8_t>> next;
        for (auto& h : frontier) {
            for (size_t o = 0; o < OPS.size(); o++) {
                std::vector<uint8_t> h2 = h;
                h2.push_back((uint8_t)o);
                Result r = run(h2, false);
                transitions++;
                if (seen.insert(r.key).second) { states++; next.push_back(std::move(h2)); }
            }
            if (g_cxx_viol > 20) break;
            if (vx::deadline_reached()) { exhaustive = false; break; } // between complete work units (one frontier state x all ops)
        }
        if (g_cxx_viol > 20 || !exhaustive) break;
        completed = depth;
        frontier.swap(next);
        fprintf(stderr, "[C60 banman] depth %d: states=%lu transitions=%lu frontier=%zu t=%.1fs\n", depth, (unsigned long)states, (unsigned long)transitions, frontier.size(), vx::elapsed());
        if (depth < max_depth && vx::deadline_reached()) { exhaustive = false; break; }
    }
    std::error_code ec;
    std::filesystem::remove_all(dir, ec);
    printf("STATS\tstates=%lu\ttransitions=%lu\tdepth=%d\tfixpoint=%d\texhaustive=%d\tevals=%lu\tboundary=%lu\texpired=%lu\tbanned_true=%lu\tbanned_false=%lu\tdisc_true=%lu\trestart_kept=%lu\tunban_true=%lu\tunban_false=%lu\tops=%zu\n",
           (unsigned long)states, (unsigned long)transitions, completed, frontier.empty() ? 1 : 0, exhaustive ? 1 : 0, (unsigned long)g_evals, (unsigned long)g_boundary, (unsigned long)g_expired_seen, (unsigned long)g_banned_true,
           (unsigned long)g_banned_false, (unsigned long)g_disc_true, (unsigned long)g_restart_kept, (unsigned long)g_unban_true, (unsigned long)g_unban_false, OPS.size());
}
} // namespace bm

int main(int argc, char** argv)
{
    vx::init(argc, argv, "C60", "model_checking");
    LogInstance().DisableLogging();
    const bool big = vx::thorough();
    setvbuf(stdout, nullptr, _IOFBF, 1 << 20);
    printf("BEGIN\t%s\n", vx::ctx().tier.c_str());
    g_reachable_nets.Remove(NET_CJDNS); // CJDNS flipping is switched on only for the special-kind sections
    part_enum(big);
    fflush(stdout);
    bm::explore(big);
    printf("END\t%lu\n", (unsigned long)g_lines);
    fflush(stdout);
    return 0;
}
