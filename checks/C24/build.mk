LINK := small
